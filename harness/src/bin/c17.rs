//! C17 — generation is deterministic and independent of incidental ordering.
//!
//! Unit-level ties (exact, model vs. implementation):
//!   CSchema   graphql_type_system::{SchemaBuilder, Schema}: extend / iter_types / get_type / map_str
//!   CResolve  nitrogql_semantics::resolve_schema_extensions (IndexMap + stable sort by Pos)
//!   CSkeleton SchemaTypePrinterOptions::from_config + SchemaTypePrinter::print_document, observed through
//!             a recording writer as the sequence of declarations (section, local name, schema name, body)
//!   CGen      files -> merge -> builtins -> resolve -> skeleton (the abstract pipeline `gen` of Model.v)
//! Property-level observations on the implementation (no model prediction; `holds` decides):
//!   CDet      the same project generated k times: in this process (every HashMap gets a fresh RandomState)
//!             and by the real CLI in fresh processes; library bytes vs. CLI bytes
//!   CPerm     a project and a definition-permuted copy: check verdict and normalised declarations
use graphql_builtins::generate_builtins;
use graphql_type_system as ts;
use nitrogql_ast::base::{HasPos, Pos};
use nitrogql_ast::directive::Directive;
use nitrogql_ast::set_current_file_of_pos;
use nitrogql_ast::type_system::{
    TypeDefinition, TypeExtension, TypeSystemDefinition, TypeSystemDefinitionOrExtension, TypeSystemDocument,
    TypeSystemOrExtensionDocument,
};
use nitrogql_ast::value::Value;
use nitrogql_ast::{OperationDocument};
use nitrogql_checker::{check_operation_document, check_type_system_document, OperationCheckContext};
use nitrogql_config_file::{parse_config, Config, ScalarTypeConfig, SendReceiveScalarTypeConfig, SeparateScalarTypeConfig};
use nitrogql_parser::{parse_operation_document, parse_type_system_document};
use nitrogql_printer::{
    print_types_for_operation_document, GraphQLPrinter, OperationTypePrinterOptions, ResolverTypePrinter,
    ResolverTypePrinterOptions, SchemaTypePrinter, SchemaTypePrinterOptions,
};
use nitrogql_semantics::{
    ast_to_type_system, resolve_operation_extensions, resolve_operation_imports, resolve_schema_extensions,
    OperationExtension, OperationResolver,
};
use serde_json::json;
use sourcemap_writer::{print_source_map_json, JsStringWriter, SourceMapWriter, SourceWriter};
use std::collections::{BTreeMap, BTreeSet, HashMap, HashSet};
use std::path::{Path, PathBuf};
use verif_harness::gen as g;
use verif_harness::*;

#[path = "/repo/crates/cli/src/builtins.rs"]
#[allow(dead_code)]
mod cli_builtins;
use cli_builtins::{nitrogql_builtins, remove_builtins};

// ------------------------------------------------------------------------------------------------
// abstract items (mirror of coq/C17/Model.v: adir, adef, item)

#[derive(Clone, Debug, PartialEq)]
struct ADir { name: String, args: Option<Vec<(String, Option<String>)>> }
#[derive(Clone, Debug, PartialEq)]
struct APos { line: usize, col: usize, file: usize, builtin: bool }
#[derive(Clone, Debug, PartialEq)]
struct ADef { ext: bool, kind: &'static str, name: String, pos: APos, ifaces: Vec<String>, items: Vec<String>, dirs: Vec<ADir> }
#[derive(Clone, Debug, PartialEq)]
enum AItem { Def(ADef), Directive(String, APos) }

fn apos(p: &Pos) -> APos { APos { line: p.line, col: p.column, file: p.file, builtin: p.builtin } }
fn adirs(ds: &[Directive]) -> Vec<ADir> {
    ds.iter().map(|d| ADir {
        name: d.name.name.to_string(),
        args: d.arguments.as_ref().map(|a| a.arguments.iter().map(|(k, v)| {
            (k.name.to_string(), match v { Value::StringValue(s) => Some(s.value.clone()), _ => None })
        }).collect()),
    }).collect()
}
fn names<'a, T>(xs: &'a [T], f: impl Fn(&'a T) -> &'a str) -> Vec<String> { xs.iter().map(|x| f(x).to_string()).collect() }

fn adef_of_type(def: &TypeDefinition) -> ADef {
    match def {
        TypeDefinition::Scalar(d) => ADef { ext: false, kind: "KScalar", name: d.name.name.into(), pos: apos(&d.position), ifaces: vec![], items: vec![], dirs: adirs(&d.directives) },
        TypeDefinition::Object(d) => ADef { ext: false, kind: "KObject", name: d.name.name.into(), pos: apos(&d.position), ifaces: names(&d.implements, |i| i.name), items: names(&d.fields, |f| f.name.name), dirs: adirs(&d.directives) },
        TypeDefinition::Interface(d) => ADef { ext: false, kind: "KInterface", name: d.name.name.into(), pos: apos(&d.position), ifaces: names(&d.implements, |i| i.name), items: names(&d.fields, |f| f.name.name), dirs: adirs(&d.directives) },
        TypeDefinition::Union(d) => ADef { ext: false, kind: "KUnion", name: d.name.name.into(), pos: apos(&d.position), ifaces: vec![], items: names(&d.members, |i| i.name), dirs: adirs(&d.directives) },
        TypeDefinition::Enum(d) => ADef { ext: false, kind: "KEnum", name: d.name.name.into(), pos: apos(&d.position), ifaces: vec![], items: names(&d.values, |v| v.name.name), dirs: adirs(&d.directives) },
        TypeDefinition::InputObject(d) => ADef { ext: false, kind: "KInput", name: d.name.name.into(), pos: apos(&d.position), ifaces: vec![], items: names(&d.fields, |f| f.name.name), dirs: adirs(&d.directives) },
    }
}
fn adef_of_ext(def: &TypeExtension) -> ADef {
    match def {
        TypeExtension::Scalar(d) => ADef { ext: true, kind: "KScalar", name: d.name.name.into(), pos: apos(&d.position), ifaces: vec![], items: vec![], dirs: adirs(&d.directives) },
        TypeExtension::Object(d) => ADef { ext: true, kind: "KObject", name: d.name.name.into(), pos: apos(&d.position), ifaces: names(&d.implements, |i| i.name), items: names(&d.fields, |f| f.name.name), dirs: adirs(&d.directives) },
        TypeExtension::Interface(d) => ADef { ext: true, kind: "KInterface", name: d.name.name.into(), pos: apos(&d.position), ifaces: names(&d.implements, |i| i.name), items: names(&d.fields, |f| f.name.name), dirs: adirs(&d.directives) },
        TypeExtension::Union(d) => ADef { ext: true, kind: "KUnion", name: d.name.name.into(), pos: apos(&d.position), ifaces: vec![], items: names(&d.members, |i| i.name), dirs: adirs(&d.directives) },
        TypeExtension::Enum(d) => ADef { ext: true, kind: "KEnum", name: d.name.name.into(), pos: apos(&d.position), ifaces: vec![], items: names(&d.values, |v| v.name.name), dirs: adirs(&d.directives) },
        TypeExtension::InputObject(d) => ADef { ext: true, kind: "KInput", name: d.name.name.into(), pos: apos(&d.position), ifaces: vec![], items: names(&d.fields, |f| f.name.name), dirs: adirs(&d.directives) },
    }
}
fn schema_items(defs: &[(nitrogql_ast::operation::OperationType, nitrogql_ast::base::Ident)]) -> Vec<String> {
    defs.iter().map(|(op, ty)| format!("{}:{}", op.as_str(), ty.name)).collect()
}
fn item_of_ext(d: &TypeSystemDefinitionOrExtension) -> AItem {
    match d {
        TypeSystemDefinitionOrExtension::SchemaDefinition(s) => AItem::Def(ADef { ext: false, kind: "KSchema", name: String::new(), pos: apos(&s.position), ifaces: vec![], items: schema_items(&s.definitions), dirs: adirs(&s.directives) }),
        TypeSystemDefinitionOrExtension::SchemaExtension(s) => AItem::Def(ADef { ext: true, kind: "KSchema", name: String::new(), pos: apos(&s.position), ifaces: vec![], items: schema_items(&s.definitions), dirs: adirs(&s.directives) }),
        TypeSystemDefinitionOrExtension::TypeDefinition(t) => AItem::Def(adef_of_type(t)),
        TypeSystemDefinitionOrExtension::TypeExtension(t) => AItem::Def(adef_of_ext(t)),
        TypeSystemDefinitionOrExtension::DirectiveDefinition(d) => AItem::Directive(d.name.name.into(), apos(&d.position)),
    }
}
fn item_of_def(d: &TypeSystemDefinition) -> AItem {
    match d {
        TypeSystemDefinition::SchemaDefinition(s) => AItem::Def(ADef { ext: false, kind: "KSchema", name: String::new(), pos: apos(&s.position), ifaces: vec![], items: schema_items(&s.definitions), dirs: adirs(&s.directives) }),
        TypeSystemDefinition::TypeDefinition(t) => AItem::Def(adef_of_type(t)),
        TypeSystemDefinition::DirectiveDefinition(d) => AItem::Directive(d.name.name.into(), apos(&d.position)),
    }
}
fn items_of_ext_doc(d: &TypeSystemOrExtensionDocument) -> Vec<AItem> { d.definitions.iter().map(item_of_ext).collect() }
fn items_of_doc(d: &TypeSystemDocument) -> Vec<AItem> { d.definitions.iter().map(item_of_def).collect() }

fn cq_pos(p: &APos) -> String { format!("(mk_pos {} {} {} {})", coq_n(p.line as u64), coq_n(p.col as u64), coq_n(p.file as u64), coq_bool(p.builtin)) }
fn cq_strs(xs: &[String]) -> String { coq_list(xs, |x| coq_str(x)) }
fn cq_dir(d: &ADir) -> String {
    format!("(mk_adir {} {})", coq_str(&d.name),
        coq_opt(&d.args, |a| coq_list(a, |(k, v)| format!("({}, {})", coq_str(k), coq_opt(v, |s| coq_str(s))))))
}
fn cq_def(d: &ADef) -> String {
    format!("(mk_adef {} {} {} {} {} {} {})", coq_bool(d.ext), d.kind, coq_str(&d.name), cq_pos(&d.pos),
        cq_strs(&d.ifaces), cq_strs(&d.items), coq_list(&d.dirs, cq_dir))
}
fn cq_item(i: &AItem) -> String {
    match i { AItem::Def(d) => format!("IDef {}", cq_def(d)), AItem::Directive(n, p) => format!("IDirective {} {}", coq_str(n), cq_pos(p)) }
}
fn cq_items(xs: &[AItem]) -> String { coq_list(xs, cq_item) }

#[derive(Clone, Debug)]
enum SCfg { Single(String), SendReceive(String, String), Separate { ro: String, ri: String, oo: String, oi: String } }
impl SCfg {
    fn to_real(&self) -> ScalarTypeConfig {
        match self {
            SCfg::Single(s) => ScalarTypeConfig::Single(s.clone()),
            SCfg::SendReceive(a, b) => ScalarTypeConfig::SendReceive(SendReceiveScalarTypeConfig { send: a.clone(), receive: b.clone() }),
            SCfg::Separate { ro, ri, oo, oi } => ScalarTypeConfig::Separate(SeparateScalarTypeConfig {
                resolver_output: ro.clone(), resolver_input: ri.clone(), operation_output: oo.clone(), operation_input: oi.clone() }),
        }
    }
    fn coq(&self) -> String {
        match self {
            SCfg::Single(s) => format!("(Single {})", coq_str(s)),
            SCfg::SendReceive(a, b) => format!("(SendReceive {} {})", coq_str(a), coq_str(b)),
            SCfg::Separate { ro, ri, oo, oi } => format!("(Separate {} {} {} {})", coq_str(ro), coq_str(ri), coq_str(oo), coq_str(oi)),
        }
    }
    fn yaml(&self) -> String {
        let q = |s: &String| serde_json::to_string(s).unwrap();
        match self {
            SCfg::Single(s) => q(s),
            SCfg::SendReceive(a, b) => format!("{{ send: {}, receive: {} }}", q(a), q(b)),
            SCfg::Separate { ro, ri, oo, oi } => format!("{{ resolverOutput: {}, resolverInput: {}, operationOutput: {}, operationInput: {} }}", q(ro), q(ri), q(oo), q(oi)),
        }
    }
}
fn cq_cfg(cfg: &[(String, SCfg)]) -> String { coq_list(cfg, |(k, v)| format!("({}, {})", coq_str(k), v.coq())) }

// ------------------------------------------------------------------------------------------------
// recording writer and declaration skeleton

enum Op { W(String), WF(String, Option<String>), Indent, Dedent }
struct Rec(Vec<Op>);
impl SourceMapWriter for Rec {
    fn write(&mut self, chunk: &str) { self.0.push(Op::W(chunk.to_string())); }
    fn write_for(&mut self, chunk: &str, node: &impl HasPos) { self.0.push(Op::WF(chunk.to_string(), node.name().map(|s| s.to_string()))); }
    fn indent(&mut self) { self.0.push(Op::Indent); }
    fn dedent(&mut self) { self.0.push(Op::Dedent); }
}
#[derive(Clone, Debug, PartialEq)]
struct Decl { section: usize, local: String, schema: String, body: Option<String> }

fn decls_of_ops(ops: &[Op]) -> Vec<Decl> {
    let mut out = vec![];
    let mut depth = 0i64;
    let mut closed = 0usize;
    let mut i = 0;
    while i < ops.len() {
        match &ops[i] {
            Op::Indent => depth += 1,
            Op::Dedent => depth -= 1,
            Op::W(c) if depth == 0 && c == "}\n\n" => closed += 1,
            Op::WF(c, _) if (c == "export type " || c == "type ") && i + 2 < ops.len() => {
                if let Op::WF(local, Some(schema)) = &ops[i + 1] {
                    let mut body = None;
                    if let Op::W(eq) = &ops[i + 2] {
                        if eq == " = " {
                            let mut b = String::new();
                            let mut j = i + 3;
                            while j < ops.len() {
                                match &ops[j] {
                                    Op::W(c) if c.starts_with(";\n") => break,
                                    Op::W(c) | Op::WF(c, _) => b.push_str(c),
                                    _ => {}
                                }
                                j += 1;
                            }
                            body = Some(b);
                        }
                    }
                    out.push(Decl { section: closed.min(4), local: local.clone(), schema: schema.clone(), body });
                }
            }
            _ => {}
        }
        i += 1;
    }
    out
}
fn cq_decl(d: &Decl) -> String {
    format!("(mk_odecl {} {} {} {})", coq_n(d.section as u64), coq_str(&d.local), coq_str(&d.schema), coq_opt(&d.body, |b| coq_str(b)))
}

fn config_with(cfg: &[(String, SCfg)]) -> Config {
    let mut c = Config::default();
    let mut m = HashMap::new();
    for (k, v) in cfg { m.insert(k.clone(), v.to_real()); }
    c.generate.r#type.scalar_types = m;
    c
}

/// Ok(decls) | Err(kind, name)
fn skeleton(cfg: &[(String, SCfg)], doc: &TypeSystemDocument) -> Result<Vec<Decl>, (String, String)> {
    let config = config_with(cfg);
    let options = SchemaTypePrinterOptions::from_config(&config);
    let mut w = Rec(vec![]);
    let r = SchemaTypePrinter::new(options, &mut w).print_document(doc);
    match r {
        Ok(()) => Ok(decls_of_ops(&w.0)),
        Err(e) => {
            let dbg = format!("{e:?}");
            let name = dbg_field_str(&dbg, "name").unwrap_or_default();
            let kind = dbg.split(|c: char| !c.is_alphanumeric()).next().unwrap_or("").to_string();
            Err((kind, name))
        }
    }
}
fn cq_skel_result(r: &Result<Vec<Decl>, (String, String)>) -> String {
    match r {
        Ok(d) => format!("(Ok {})", coq_list(d, cq_decl)),
        Err((k, n)) if k == "ScalarTypeNotProvided" => format!("(Err (ScalarTypeNotProvided {}))", coq_str(n)),
        Err((_, n)) => format!("(Err (LocalNameMissing {}))", coq_str(n)),
    }
}

// Debug-format field extraction (the error types of the private module extension_list cannot be named)
fn dbg_field_str(dbg: &str, field: &str) -> Option<String> {
    let pat = format!("{field}: \"");
    let i = dbg.find(&pat)? + pat.len();
    let mut out = String::new();
    let mut it = dbg[i..].chars();
    while let Some(c) = it.next() {
        match c {
            '\\' => { if let Some(n) = it.next() { out.push(n); } }
            '"' => return Some(out),
            c => out.push(c),
        }
    }
    None
}
fn dbg_field_pos(dbg: &str, field: &str) -> Option<APos> {
    let pat = format!("{field}: Pos {{");
    let i = dbg.find(&pat)? + pat.len();
    let rest = &dbg[i..];
    let end = rest.find('}')?;
    let body = &rest[..end];
    let num = |k: &str| -> Option<usize> {
        let p = format!("{k}: ");
        let j = body.find(&p)? + p.len();
        let t: String = body[j..].chars().take_while(|c| c.is_ascii_digit()).collect();
        t.parse().ok()
    };
    Some(APos { line: num("line")?, col: num("column")?, file: num("file")?, builtin: body.contains("builtin: true") })
}
/// Coq term of type `xerr`
fn cq_xerr(dbg: &str) -> String {
    if dbg.contains("DuplicateOriginal") {
        format!("(DuplicateOriginal {} {} {} {})",
            coq_str(&dbg_field_str(dbg, "name_of_elem").unwrap_or_default()), coq_str(&dbg_field_str(dbg, "name").unwrap_or_default()),
            cq_pos(&dbg_field_pos(dbg, "first").unwrap()), cq_pos(&dbg_field_pos(dbg, "second").unwrap()))
    } else {
        format!("(NoOriginal {} {})", coq_str(&dbg_field_str(dbg, "name_of_elem").unwrap_or_default()),
            cq_pos(&dbg_field_pos(dbg, "first_extension").unwrap()))
    }
}

// ------------------------------------------------------------------------------------------------
// project generator

const SCALAR_NAMES: &[&str] = &["Date", "JSON", "Url", "BigInt", "Money", "Email", "UUID", "Color", "Duration", "Locale", "Blob", "Slug"];
const TS_TYPES: &[&str] = &["string", "number", "Date", "URL | string", "bigint", "Record<string, unknown>", "unknown",
    "O0 | null", "Array<E0>", "I0", "U0[]", "{ readonly __brand: \"x\" } & string", "Money_t", "In0", "Query", "O1"];

#[derive(Clone)]
struct Chunk { text: String }   // one definition or extension, rendered
#[derive(Clone)]
struct Project {
    chunks: Vec<Chunk>,
    n_files: usize,
    assignment: Vec<usize>,           // chunk index -> file
    cfg: Vec<(String, SCfg)>,         // generate.type.scalarTypes
    ops: Vec<String>,                 // operation documents
    schema: g::Schema,
}

fn pick_ts(rng: &mut Rng) -> String { rng.pick(TS_TYPES).to_string() }
fn gen_scfg(rng: &mut Rng) -> SCfg {
    match rng.below(4) {
        0 | 1 => SCfg::Single(pick_ts(rng)),
        2 => SCfg::SendReceive(pick_ts(rng), pick_ts(rng)),
        _ => SCfg::Separate { ro: pick_ts(rng), ri: pick_ts(rng), oo: pick_ts(rng), oi: pick_ts(rng) },
    }
}
fn render_one(t: &g::TypeDef) -> String {
    let s = g::Schema { types: vec![t.clone()], directives: vec![], query: "Query".into(), mutation: None, subscription: None, explicit_schema_def: false };
    let mut only = BTreeSet::new();
    only.insert(0usize);
    g::render_schema(&s, Some(&only))
}
fn directive_text(c: &SCfg) -> String {
    let (ro, ri, oo, oi) = match c {
        SCfg::Single(s) => (s.clone(), s.clone(), s.clone(), s.clone()),
        SCfg::SendReceive(a, b) => (a.clone(), b.clone(), b.clone(), a.clone()),
        SCfg::Separate { ro, ri, oo, oi } => (ro.clone(), ri.clone(), oo.clone(), oi.clone()),
    };
    let q = |s: &String| serde_json::to_string(s).unwrap();
    format!("@nitrogql_ts_type(resolverInput: {}, resolverOutput: {}, operationInput: {}, operationOutput: {})", q(&ri), q(&ro), q(&oi), q(&oo))
}

/// `big`: more scalars (so that hash order has something to permute)
fn gen_project(rng: &mut Rng, big: bool, all_scalars_typed: bool) -> Project {
    let scfg = g::SchemaCfg { descriptions: rng.chance(1, 2), custom_directives: rng.chance(1, 2) };
    let mut s = g::gen_schema(rng, &scfg);
    // extra custom scalars
    let want = if big { rng.range(5, 10) } else { rng.range(0, 4) };
    let mut extra = vec![];
    for n in SCALAR_NAMES {
        if extra.len() >= want { break; }
        if s.get(n).is_none() { extra.push(g::TypeDef { name: n.to_string(), kind: g::Kind::Scalar, desc: None }); }
    }
    // put them in front so that later kinds may use them; give some object a field of each extra scalar type
    let mut k = 0;
    for e in &extra {
        let target = s.types.iter_mut().find(|t| matches!(t.kind, g::Kind::Object { .. }) && t.name.starts_with('O'));
        if let Some(t) = target {
            if let g::Kind::Object { fields, .. } = &mut t.kind {
                fields.push(g::Field { name: format!("x{k}"), args: vec![], ty: g::Ty::Named(e.name.clone()), deprecated: false, desc: None });
                k += 1;
            }
        }
    }
    s.types.splice(0..0, extra);
    // scalar TS types: config or directive (or, rarely, missing)
    let mut cfg: Vec<(String, SCfg)> = vec![];
    let mut by_directive: BTreeMap<String, SCfg> = BTreeMap::new();
    for t in &s.types {
        if let g::Kind::Scalar = t.kind {
            match rng.below(10) {
                0..=4 => cfg.push((t.name.clone(), gen_scfg(rng))),
                5..=7 => { by_directive.insert(t.name.clone(), gen_scfg(rng)); }
                8 => { cfg.push((t.name.clone(), gen_scfg(rng))); by_directive.insert(t.name.clone(), gen_scfg(rng)); }
                _ => { if all_scalars_typed { cfg.push((t.name.clone(), gen_scfg(rng))); } }
            }
        }
    }
    if rng.chance(1, 3) { cfg.push(("ID".into(), SCfg::Single("string".into()))); }
    if rng.chance(1, 6) { cfg.push(("NotInSchema".into(), SCfg::Single("O0".into()))); }
    rng.shuffle(&mut cfg);
    // chunks: schema definition + directives; each type, possibly split into original + extensions
    let mut chunks: Vec<Chunk> = vec![];
    let mut head = BTreeSet::new();
    head.insert(usize::MAX);
    let head_text = g::render_schema(&s, Some(&head));
    if !head_text.trim().is_empty() { chunks.push(Chunk { text: head_text }); }
    for t in &s.types {
        let mut orig = t.clone();
        let mut exts: Vec<g::TypeDef> = vec![];
        let split = rng.chance(2, 5);
        match &mut orig.kind {
            g::Kind::Object { fields, implements } if split && fields.len() >= 2 => {
                let n_ext = rng.range(1, 2.min(fields.len() - 1));
                for e in 0..n_ext {
                    let cut = rng.range(1, fields.len() - 1).max(1);
                    let tail = fields.split_off(cut);
                    let imp = if e == 0 && !implements.is_empty() && rng.chance(1, 2) { vec![implements.pop().unwrap()] } else { vec![] };
                    exts.push(g::TypeDef { name: t.name.clone(), kind: g::Kind::Object { implements: imp, fields: tail }, desc: None });
                    if fields.len() < 2 { break; }
                }
            }
            g::Kind::Interface { fields, .. } if split && fields.len() >= 2 => {
                let cut = rng.range(1, fields.len() - 1);
                let tail = fields.split_off(cut);
                exts.push(g::TypeDef { name: t.name.clone(), kind: g::Kind::Interface { implements: vec![], fields: tail }, desc: None });
            }
            g::Kind::Union { members } if split && members.len() >= 2 => {
                let cut = rng.range(1, members.len() - 1);
                let tail = members.split_off(cut);
                exts.push(g::TypeDef { name: t.name.clone(), kind: g::Kind::Union { members: tail }, desc: None });
            }
            g::Kind::Enum { values } if split && values.len() >= 2 => {
                let cut = rng.range(1, values.len() - 1);
                let tail = values.split_off(cut);
                exts.push(g::TypeDef { name: t.name.clone(), kind: g::Kind::Enum { values: tail }, desc: None });
            }
            g::Kind::Input { fields } if split && fields.len() >= 2 => {
                let cut = rng.range(1, fields.len() - 1);
                let tail = fields.split_off(cut);
                exts.push(g::TypeDef { name: t.name.clone(), kind: g::Kind::Input { fields: tail }, desc: None });
            }
            _ => {}
        }
        let mut text = render_one(&orig);
        if let g::Kind::Scalar = t.kind {
            if let Some(c) = by_directive.get(&t.name) {
                if rng.chance(1, 3) {
                    // directive on an extension
                    chunks.push(Chunk { text: format!("extend scalar {} {}\n", t.name, directive_text(c)) });
                } else {
                    text = format!("{} {}\n", text.trim_end(), directive_text(c));
                }
            }
        }
        chunks.push(Chunk { text });
        for e in exts { chunks.push(Chunk { text: format!("extend {}", render_one(&e)) }); }
    }
    rng.shuffle(&mut chunks);
    let n_files = rng.range(1, 3);
    let n_files = n_files.min(chunks.len()).max(1);
    let assignment: Vec<usize> = (0..chunks.len()).map(|i| if i < n_files { i } else { rng.below(n_files) }).collect();
    // operations
    let n_ops = rng.range(1, 3);
    let mut ops = vec![];
    for _ in 0..n_ops {
        let d = g::gen_doc(rng, &s, &g::DocCfg::default());
        ops.push(d.render());
    }
    Project { chunks, n_files, assignment, cfg, ops, schema: s }
}
impl Project {
    fn files(&self) -> Vec<String> {
        let mut fs = vec![String::new(); self.n_files];
        for (i, c) in self.chunks.iter().enumerate() { fs[self.assignment[i]].push_str(&c.text); fs[self.assignment[i]].push('\n'); }
        fs
    }
    fn permuted(&self, rng: &mut Rng) -> Project {
        let mut p = self.clone();
        let mut idx: Vec<usize> = (0..p.chunks.len()).collect();
        rng.shuffle(&mut idx);
        p.chunks = idx.iter().map(|&i| self.chunks[i].clone()).collect();
        p.n_files = rng.range(1, 3).min(p.chunks.len()).max(1);
        p.assignment = (0..p.chunks.len()).map(|i| if i < p.n_files { i } else { rng.below(p.n_files) }).collect();
        p
    }
    fn config_yaml(&self) -> String {
        let mut y = String::new();
        y.push_str("schema:\n");
        for i in 0..self.n_files { y.push_str(&format!("  - ./schema/s{i}.graphql\n")); }
        y.push_str("documents:\n");
        for i in 0..self.ops.len() { y.push_str(&format!("  - ./ops/q{i}.graphql\n")); }
        y.push_str("extensions:\n  nitrogql:\n    generate:\n      mode: with-loader-ts-5.0\n      schemaOutput: ./out/schema.d.ts\n      serverGraphqlOutput: ./out/graphql.ts\n      resolversOutput: ./out/resolvers.d.ts\n      schemaModuleSpecifier: \"@/generated/schema\"\n      type:\n        scalarTypes:\n");
        if self.cfg.is_empty() { y.push_str("          Int: number\n"); }
        let mut seen = HashSet::new();
        for (k, v) in &self.cfg { if seen.insert(k.clone()) { y.push_str(&format!("          {}: {}\n", k, v.yaml())); } }
        y
    }
}

// ------------------------------------------------------------------------------------------------
// the in-process pipeline (mirrors cli/src/main.rs + check.rs + generate.rs for GraphQL schema files, no plugins)

struct Ops<'a, 'src>(BTreeMap<&'a Path, (&'a OperationDocument<'src>, &'a OperationExtension<'src>)>);
impl<'src> OperationResolver<'src> for Ops<'_, 'src> {
    fn resolve(&self, path: &Path) -> Option<(&OperationDocument<'src>, &OperationExtension<'src>)> { self.0.get(path).copied() }
}

#[derive(Clone, Debug, PartialEq)]
struct Outcome {
    /// "ok" or the stage that failed
    verdict: String,
    diagnostics: Vec<String>,
    files: BTreeMap<String, String>,
}

fn run_inproc(schema_files: &[String], op_files: &[String], config_yaml: &str) -> Outcome {
    let mut out = Outcome { verdict: "ok".into(), diagnostics: vec![], files: BTreeMap::new() };
    let Some(config) = parse_config(config_yaml) else { out.verdict = "config".into(); return out; };
    let mut docs = vec![];
    for (i, src) in schema_files.iter().enumerate() {
        set_current_file_of_pos(i);
        match parse_type_system_document(src) {
            Ok(d) => docs.push(d),
            Err(e) => { out.verdict = "parse-schema".into(); out.diagnostics.push(format!("{}", e.into_message())); return out; }
        }
    }
    let mut merged = TypeSystemOrExtensionDocument::merge(docs);
    merged.extend(generate_builtins());
    merged.extend(nitrogql_builtins());
    let mut op_docs = vec![];
    for (i, src) in op_files.iter().enumerate() {
        set_current_file_of_pos(schema_files.len() + i);
        match parse_operation_document(src) {
            Ok(d) => op_docs.push(d),
            Err(e) => { out.verdict = "parse-operation".into(); out.diagnostics.push(format!("{}", e.into_message())); return out; }
        }
    }
    // check
    let resolved = match resolve_schema_extensions(merged) {
        Ok(d) => d,
        Err(e) => { out.verdict = "resolve".into(); out.diagnostics.push(format!("{:?}", e.message)); return out; }
    };
    let errors = check_type_system_document(&resolved);
    if !errors.is_empty() {
        out.verdict = "check-schema".into();
        out.diagnostics = errors.iter().map(|e| format!("{:?}@{}:{}:{}", e.message, e.position.file, e.position.line, e.position.column)).collect();
        return out;
    }
    let schema = ast_to_type_system(&resolved);
    let mut ops = vec![];
    for (i, d) in op_docs.into_iter().enumerate() {
        match resolve_operation_extensions(d) {
            Ok((doc, ext)) => ops.push((PathBuf::from(format!("/p/ops/q{i}.graphql")), doc, ext)),
            Err(e) => { out.verdict = "op-ext".into(); out.diagnostics.push(format!("{e:?}")); return out; }
        }
    }
    let resolver = Ops(ops.iter().map(|(p, d, e)| (p.as_path(), (d, e))).collect());
    let mut full_ops = vec![];
    for (p, d, e) in ops.iter() {
        match resolve_operation_imports((p, d, e), &resolver) {
            Ok(doc) => full_ops.push((p.clone(), doc)),
            Err(e) => { out.verdict = "op-import".into(); out.diagnostics.push(format!("{e:?}")); return out; }
        }
    }
    let ctx = OperationCheckContext::new(&schema);
    let mut errs = vec![];
    for (_, doc) in full_ops.iter() {
        for e in check_operation_document(doc, &ctx) {
            errs.push(format!("{:?}@{}:{}:{}", e.message, e.position.file, e.position.line, e.position.column));
        }
    }
    if !errs.is_empty() { out.verdict = "check-operation".into(); out.diagnostics = errs; return out; }
    // generate
    let n_schema = schema_files.len();
    let n_all = n_schema + op_files.len();
    let schema_indices: Vec<usize> = (0..n_all).map(|i| if i < n_schema { i } else { usize::MAX }).collect();
    let schema_paths: Vec<PathBuf> = (0..n_schema).map(|i| PathBuf::from(format!("/p/schema/s{i}.graphql"))).collect();
    {
        let options = SchemaTypePrinterOptions::from_config(&config);
        let mut w = SourceWriter::new();
        w.set_file_index_mapper(schema_indices.clone());
        if let Err(e) = SchemaTypePrinter::new(options, &mut w).print_document(&resolved) {
            out.verdict = "generate-schema".into(); out.diagnostics.push(format!("{e:?}")); return out;
        }
        let b = w.into_buffers();
        let srcs: Vec<&Path> = schema_paths.iter().map(|p| p.as_path()).collect();
        let mut map = String::new();
        print_source_map_json(Path::new("/p/out/schema.d.ts"), &srcs, &b.names, &b.source_map, &mut map).unwrap();
        out.files.insert("out/schema.d.ts".into(), format!("{}\n//# sourceMappingURL=schema.d.ts.map\n", b.buffer));
        out.files.insert("out/schema.d.ts.map".into(), map);
    }
    {
        let mut buffer = String::new();
        buffer.push_str("// generated by nitrogql\n");
        buffer.push_str("export const schema = ");
        let mut w = JsStringWriter::new(&mut buffer);
        remove_builtins(&resolved).print_graphql(&mut w);
        drop(w);
        buffer.push_str(";\n");
        out.files.insert("out/graphql.ts".into(), buffer);
    }
    {
        let mut options = ResolverTypePrinterOptions::from_config(&config);
        options.schema_source = config.generate.schema_module_specifier.clone().unwrap_or_default();
        let mut w = SourceWriter::new();
        w.set_file_index_mapper(schema_indices.clone());
        let plugins: Vec<nitrogql_plugin::Plugin> = vec![];
        if let Err(e) = ResolverTypePrinter::new(options, &mut w).print_document(&resolved, &plugins) {
            out.verdict = "generate-resolvers".into(); out.diagnostics.push(format!("{e:?}")); return out;
        }
        let b = w.into_buffers();
        let srcs: Vec<&Path> = schema_paths.iter().map(|p| p.as_path()).collect();
        let mut map = String::new();
        print_source_map_json(Path::new("/p/out/resolvers.d.ts"), &srcs, &b.names, &b.source_map, &mut map).unwrap();
        out.files.insert("out/resolvers.d.ts".into(), format!("{}\n//# sourceMappingURL=resolvers.d.ts.map\n", b.buffer));
        out.files.insert("out/resolvers.d.ts.map".into(), map);
    }
    for (i, (_, doc)) in full_ops.iter().enumerate() {
        let idx: Vec<usize> = (0..n_all).map(|j| if j < n_schema { j } else if j == n_schema + i { n_schema } else { usize::MAX }).collect();
        let mut options = OperationTypePrinterOptions::from_config(&config);
        options.schema_source = config.generate.schema_module_specifier.clone().unwrap_or_default();
        let mut w = SourceWriter::new();
        w.set_file_index_mapper(idx);
        print_types_for_operation_document(options, &schema, doc, &mut w);
        let b = w.into_buffers();
        let mut srcs: Vec<PathBuf> = schema_paths.clone();
        srcs.push(PathBuf::from(format!("/p/ops/q{i}.graphql")));
        let srcs: Vec<&Path> = srcs.iter().map(|p| p.as_path()).collect();
        let mut map = String::new();
        let name = format!("q{i}.d.graphql.ts");
        print_source_map_json(Path::new(&format!("/p/ops/{name}")), &srcs, &b.names, &b.source_map, &mut map).unwrap();
        out.files.insert(format!("ops/{name}"), format!("{}\n//# sourceMappingURL={name}.map\n", b.buffer));
        out.files.insert(format!("ops/{name}.map"), map);
    }
    out
}

fn fnv(s: &str) -> u64 {
    let mut h: u64 = 0xcbf29ce484222325;
    for b in s.as_bytes() { h ^= *b as u64; h = h.wrapping_mul(0x100000001b3); }
    h & 0xFFFF_FFFF_FFFF
}
fn digest_outcome(o: &Outcome) -> u64 {
    let mut s = String::new();
    s.push_str(&o.verdict); s.push('\u{1}');
    for d in &o.diagnostics { s.push_str(d); s.push('\u{2}'); }
    for (k, v) in &o.files { s.push_str(k); s.push('\u{3}'); s.push_str(v); s.push('\u{4}'); }
    fnv(&s)
}

// ------------------------------------------------------------------------------------------------
// normal form of generated TypeScript modulo the order of siblings (declarations, union members, fields)

fn canon(text: &str) -> String {
    // tokenise into atoms; comments and string literals are single atoms
    #[derive(Debug)]
    enum T { Open(char), Close(char), Sep(char), Atom(String) }
    let cs: Vec<char> = text.chars().collect();
    let mut toks = vec![];
    let mut i = 0;
    let mut cur = String::new();
    let flush = |cur: &mut String, toks: &mut Vec<T>| { let t = cur.trim(); if !t.is_empty() { toks.push(T::Atom(t.split_whitespace().collect::<Vec<_>>().join(" "))); } cur.clear(); };
    while i < cs.len() {
        let c = cs[i];
        if c == '/' && i + 1 < cs.len() && cs[i + 1] == '*' {
            let mut j = i + 2;
            while j + 1 < cs.len() && !(cs[j] == '*' && cs[j + 1] == '/') { j += 1; }
            cur.push_str(&cs[i..(j + 2).min(cs.len())].iter().collect::<String>());
            i = j + 2; continue;
        }
        if c == '/' && i + 1 < cs.len() && cs[i + 1] == '/' {
            let mut j = i; while j < cs.len() && cs[j] != '\n' { j += 1; }
            cur.push_str(&cs[i..j].iter().collect::<String>()); i = j; continue;
        }
        if c == '"' {
            let mut j = i + 1;
            while j < cs.len() && cs[j] != '"' { if cs[j] == '\\' { j += 1; } j += 1; }
            cur.push_str(&cs[i..(j + 1).min(cs.len())].iter().collect::<String>());
            i = j + 1; continue;
        }
        match c {
            '{' | '(' | '[' | '<' => {
                // `=>` and comparison never occur at type level here except in `=>`
                flush(&mut cur, &mut toks); toks.push(T::Open(c));
            }
            '}' | ')' | ']' => { flush(&mut cur, &mut toks); toks.push(T::Close(c)); }
            '>' => {
                if cur.ends_with('=') { cur.push(c); } else { flush(&mut cur, &mut toks); toks.push(T::Close(c)); }
            }
            '=' if i + 1 < cs.len() && cs[i + 1] == '>' => { cur.push_str("=>"); i += 2; continue; }
            ';' | ',' | '|' | '&' | '\n' | '=' | ':' => { flush(&mut cur, &mut toks); toks.push(T::Sep(c)); }
            'e' if cs[i..].starts_with(&['e', 'x', 't', 'e', 'n', 'd', 's', ' ']) && i > 0 && cs[i - 1] == ' ' => {
                flush(&mut cur, &mut toks); toks.push(T::Sep('e')); i += 7; continue;
            }
            _ => cur.push(c),
        }
        i += 1;
    }
    flush(&mut cur, &mut toks);
    // parse into a tree and print canonically: at each level split by ; then , then | then & and sort
    fn level(toks: &[T], i: &mut usize) -> String {
        // collect items as (separator-before, text)
        let mut parts: Vec<(char, String)> = vec![];
        let mut cur = String::new();
        let mut sep = ';';
        while *i < toks.len() {
            match &toks[*i] {
                T::Close(_) => break,
                T::Open(c) => { *i += 1; let inner = level(toks, i); cur.push(*c); cur.push_str(&inner); cur.push('$'); if *i < toks.len() { *i += 1; } continue; }
                T::Sep(c) => { parts.push((sep, std::mem::take(&mut cur))); sep = if *c == '\n' { ';' } else { *c }; }
                T::Atom(a) => { if !cur.is_empty() { cur.push(' '); } cur.push_str(a); }
            }
            *i += 1;
        }
        parts.push((sep, cur));
        // group by precedence ; > , > | > &
        fn group(parts: &[(char, String)], order: &[char]) -> String {
            if order.is_empty() { return parts.iter().map(|p| p.1.clone()).collect::<Vec<_>>().join(" "); }
            let s = order[0];
            let mut groups: Vec<Vec<(char, String)>> = vec![vec![]];
            for (k, (sep, t)) in parts.iter().enumerate() {
                if k > 0 && *sep == s { groups.push(vec![]); }
                groups.last_mut().unwrap().push((*sep, t.clone()));
            }
            let mut rendered: Vec<String> = groups.iter().map(|gp| group(gp, &order[1..])).filter(|x| !x.trim().is_empty()).collect();
            rendered.sort();
            rendered.join(&format!(" {s} "))
        }
        group(&parts, &[';', ',', '=', 'e', ':', '|', '&'])
    }
    let mut i = 0;
    level(&toks, &mut i)
}

/// labelled multi-definition faults: each is a set of extra definitions (chunks) appended to a valid project
const FAULTS: &[(&str, &[&str])] = &[
    ("directive-recursion-with-outside-entry", &[
        "directive @c17entry(x: Int @c17ping) on FIELD_DEFINITION\n",
        "directive @c17ping(a: Int @c17pong) on ARGUMENT_DEFINITION\n",
        "directive @c17pong(b: Int @c17ping) on ARGUMENT_DEFINITION\n",
        "type C17UsesEntry {\n  f: Int @c17entry(x: 1)\n}\n"]),
    ("directive-self-recursion-through-input-type", &[
        "directive @c17self(a: C17SelfIn) on INPUT_FIELD_DEFINITION\n",
        "input C17SelfIn {\n  v: Int @c17self\n}\n",
        "directive @c17outer(q: C17SelfIn) on FIELD_DEFINITION\n"]),
    ("interface-implements-cycle", &[
        "interface C17CycA implements C17CycB {\n  id: ID\n}\n",
        "interface C17CycB implements C17CycA {\n  id: ID\n}\n",
        "type C17CycObj implements C17CycA & C17CycB {\n  id: ID\n}\n"]),
    ("duplicate-type-name", &[
        "type C17Dup {\n  a: Int\n}\n",
        "type C17Dup {\n  b: Int\n}\n",
        "extend type C17Dup {\n  c: Int\n}\n"]),
    ("missing-transitive-interface", &[
        "interface C17TA {\n  a: Int\n}\n",
        "interface C17TB implements C17TA {\n  a: Int\n}\n",
        "type C17TObj implements C17TB {\n  a: Int\n}\n"]),
    ("unknown-type-referenced", &[
        "type C17Ref {\n  x: C17Missing\n}\n",
        "extend type C17Ref {\n  y: [C17AlsoMissing!]\n}\n",
        "union C17U = C17Ref | C17Nowhere\n"]),
    ("extension-without-original", &[
        "extend type C17Ghost {\n  a: Int\n}\n",
        "extend enum C17GhostE {\n  V\n}\n"]),
    // formerly a known finding (repaired by /repo 451006c): a directive defined twice must be rejected in every
    // arrangement; the diagnostic kinds may differ with the order (the location/argument errors of the uses depend
    // on which definition comes first), so for this fault only the failing stage is compared
    ("duplicate-directive-definition", &[
        "directive @c17dd(x: Int) on FIELD_DEFINITION\n",
        "directive @c17dd(y: String) on OBJECT\n",
        "type C17UsesDD {\n  f: Int @c17dd(x: 1)\n}\n"]),
    ("interface-field-missing-in-object", &[
        "interface C17I {\n  must: Int\n  also: String\n}\n",
        "type C17Impl implements C17I {\n  must: Int\n}\n",
        "extend interface C17I {\n  later: ID\n}\n"]),
];

/// the kind of a diagnostic = the leading identifier of its Debug text, e.g. "RecursingDirective"
fn diag_kind(d: &str) -> String { d.trim_start().chars().take_while(|c| c.is_alphanumeric() || *c == '_').collect() }
fn kind_multiset(o: &Outcome) -> Vec<(String, u64)> {
    let mut m: BTreeMap<String, u64> = BTreeMap::new();
    for d in &o.diagnostics { *m.entry(diag_kind(d)).or_insert(0) += 1; }
    m.into_iter().collect()
}

// ------------------------------------------------------------------------------------------------
// CLI runs

fn write_project(dir: &Path, p: &Project) {
    let _ = std::fs::remove_dir_all(dir);
    std::fs::create_dir_all(dir.join("schema")).unwrap();
    std::fs::create_dir_all(dir.join("ops")).unwrap();
    for (i, f) in p.files().iter().enumerate() { std::fs::write(dir.join(format!("schema/s{i}.graphql")), f).unwrap(); }
    for (i, f) in p.ops.iter().enumerate() { std::fs::write(dir.join(format!("ops/q{i}.graphql")), f).unwrap(); }
    std::fs::write(dir.join("graphql.config.yaml"), p.config_yaml()).unwrap();
}
/// writes only the SOURCES of a project (schema files named `<prefix><i>.graphql`, operations, config); whatever
/// generated output already lies in `dir` is left alone.  `lead` is put in front of every source file (a position-only
/// edit: a `#` comment and blank lines shift every line number without changing any generated TypeScript text).
fn write_sources(dir: &Path, p: &Project, prefix: &str, lead: &str) {
    std::fs::create_dir_all(dir.join("schema")).unwrap();
    std::fs::create_dir_all(dir.join("ops")).unwrap();
    // remove earlier sources (never the generated files)
    for sub in ["schema", "ops"] {
        if let Ok(rd) = std::fs::read_dir(dir.join(sub)) {
            for e in rd.flatten() {
                let n = e.file_name().to_string_lossy().to_string();
                if n.ends_with(".graphql") { let _ = std::fs::remove_file(e.path()); }
            }
        }
    }
    for (i, f) in p.files().iter().enumerate() { std::fs::write(dir.join(format!("schema/{prefix}{i}.graphql")), format!("{lead}{f}")).unwrap(); }
    for (i, f) in p.ops.iter().enumerate() { std::fs::write(dir.join(format!("ops/q{i}.graphql")), format!("{lead}{f}")).unwrap(); }
    std::fs::write(dir.join("graphql.config.yaml"), p.config_yaml().replace("./schema/s", &format!("./schema/{prefix}"))).unwrap();
}
/// every generated file below `dir` (relative path -> bytes as text)
fn generated_tree(dir: &Path) -> BTreeMap<String, String> {
    fn walk(base: &Path, d: &Path, out: &mut BTreeMap<String, String>) {
        if let Ok(rd) = std::fs::read_dir(d) {
            for e in rd.flatten() {
                let p = e.path();
                if p.is_dir() { walk(base, &p, out); continue; }
                let n = p.file_name().unwrap().to_string_lossy().to_string();
                if n.ends_with(".ts") || n.ends_with(".map") {
                    out.insert(p.strip_prefix(base).unwrap().to_string_lossy().to_string(), std::fs::read_to_string(&p).unwrap_or_default());
                }
            }
        }
    }
    let mut m = BTreeMap::new();
    walk(dir, dir, &mut m);
    m
}
fn run_cli_plain(cli: &Path, dir: &Path) -> (i32, String) {
    let o = std::process::Command::new(cli).current_dir(dir).args(["--output-format", "json", "check", "generate"]).output().expect("cli runs");
    // the listed files carry the absolute project directory: make the listing comparable between checkouts
    let stdout = String::from_utf8_lossy(&o.stdout).to_string();
    let esc = serde_json::to_string(&dir.to_string_lossy().to_string()).unwrap();
    let esc = esc.trim_matches('"').replace('/', "\\/");
    (o.status.code().unwrap_or(-1), stdout.replace(&esc, "<root>").replace(&*dir.to_string_lossy(), "<root>"))
}

fn run_cli(cli: &Path, dir: &Path, n_ops: usize) -> Outcome {
    for f in ["out/schema.d.ts", "out/schema.d.ts.map", "out/graphql.ts", "out/resolvers.d.ts", "out/resolvers.d.ts.map"] { let _ = std::fs::remove_file(dir.join(f)); }
    for i in 0..n_ops { let _ = std::fs::remove_file(dir.join(format!("ops/q{i}.d.graphql.ts"))); let _ = std::fs::remove_file(dir.join(format!("ops/q{i}.d.graphql.ts.map"))); }
    let o = std::process::Command::new(cli).current_dir(dir).args(["--output-format", "json", "check", "generate"]).output().expect("cli runs");
    let mut out = Outcome { verdict: if o.status.success() { "ok".into() } else { format!("exit-{}", o.status.code().unwrap_or(-1)) }, diagnostics: vec![], files: BTreeMap::new() };
    out.diagnostics.push(String::from_utf8_lossy(&o.stdout).to_string());
    out.diagnostics.push(String::from_utf8_lossy(&o.stderr).to_string());
    let mut names: Vec<String> = ["out/schema.d.ts", "out/schema.d.ts.map", "out/graphql.ts", "out/resolvers.d.ts", "out/resolvers.d.ts.map"].iter().map(|s| s.to_string()).collect();
    for i in 0..n_ops { names.push(format!("ops/q{i}.d.graphql.ts")); names.push(format!("ops/q{i}.d.graphql.ts.map")); }
    for n in names { if let Ok(t) = std::fs::read_to_string(dir.join(&n)) { out.files.insert(n, t); } }
    out
}
/// what in-process generation and the CLI must agree on: every non-map file byte for byte; of the maps the
/// `names` and `mappings` members (the `sources` paths depend on where the project lives)
fn comparable(o: &Outcome) -> BTreeMap<String, String> {
    let mut m = BTreeMap::new();
    for (k, v) in &o.files {
        if k.ends_with(".map") {
            if let Ok(j) = serde_json::from_str::<serde_json::Value>(v) { m.insert(k.clone(), format!("{}|{}", j["names"], j["mappings"])); }
            else { m.insert(k.clone(), "unparseable".into()); }
        } else { m.insert(k.clone(), v.clone()); }
    }
    m
}

// ------------------------------------------------------------------------------------------------

fn main() {
    if std::env::var("C17_DEBUG").is_err() { silence_panics(); }
    let args = parse_args();
    let mut rng = Rng::new(args.seed);
    let thorough = args.tier == "thorough";
    let mut cli: Option<PathBuf> = None;
    let mut i = 0;
    while i < args.extra.len() { if args.extra[i] == "--cli" && i + 1 < args.extra.len() { cli = Some(PathBuf::from(&args.extra[i + 1])); i += 1; } i += 1; }
    let mut cases = Cases::new("From V Require Import Base.Util C17.Model C17.Corr.", "case", "agree", "holds", 60);
    let mut distinct: HashSet<u64> = HashSet::new();
    let mut dist: BTreeMap<String, u64> = BTreeMap::new();
    let mut bump = |k: &str, dist: &mut BTreeMap<String, u64>| { *dist.entry(k.to_string()).or_insert(0) += 1; };
    let mut samples: Vec<serde_json::Value> = vec![];
    let mut direct_failures: Vec<serde_json::Value> = vec![];

    // ---- 0. canary: does hash order really vary between maps in this process? (otherwise in-process repetition is blind)
    let mut canary_orders: HashSet<Vec<u32>> = HashSet::new();
    for _ in 0..40 {
        let mut m: HashMap<String, u32> = HashMap::new();
        for k in 0..12u32 { m.insert(format!("k{k}"), k); }
        canary_orders.insert(m.values().copied().collect());
    }
    dist.insert("canary_distinct_hash_orders_of_40".into(), canary_orders.len() as u64);

    // ---- 1. CSchema
    let n_schema = if thorough { 4000 } else { 300 };
    let mut nonuniq_outcomes = 0u64;
    for _ in 0..n_schema {
        let n = rng.range(0, 9);
        let pool = ["A", "B", "C", "Ab", "Ac", "Bc", "I", "J", "Node", "a", "b"];
        let mut defs: Vec<ADef> = vec![];
        for t in 0..n {
            let name = rng.pick(&pool).to_string();
            let obj = rng.chance(2, 3);
            let nif = if obj { rng.below(3) } else { 0 };
            let ifaces: Vec<String> = (0..nif).map(|_| rng.pick(&pool).to_string()).collect();
            defs.push(ADef { ext: false, kind: if obj { "KObject" } else { "KScalar" }, name, pos: APos { line: t + 1, col: 0, file: 0, builtin: false }, ifaces, items: vec![], dirs: vec![] });
        }
        let fid = rng.below(4) as u64;
        let f = move |s: &String| -> String {
            match fid { 0 => s.clone(), 1 => format!("X_{s}"), 2 => s.chars().take(1).collect::<String>().to_lowercase(), _ => "K".to_string() }
        };
        // split points of the extend() batches
        let cuts: Vec<bool> = defs.iter().map(|_| rng.chance(1, 3)).collect();
        let build = |defs: &Vec<ADef>| -> ts::Schema<String, u64> {
            let mut b = ts::SchemaBuilder::<String, u64>::new();
            let mut batch: Vec<(String, ts::Node<ts::TypeDefinition<String, u64>, u64>)> = vec![];
            for (di, d) in defs.iter().enumerate() {
                let tag = d.pos.line as u64;
                let td = if d.kind == "KObject" {
                    ts::TypeDefinition::Object(ts::ObjectDefinition { name: ts::Node::from(d.name.clone(), tag), description: None, fields: vec![],
                        interfaces: d.ifaces.iter().map(|i| ts::Node::from(i.clone(), tag)).collect() })
                } else {
                    ts::TypeDefinition::Scalar(ts::ScalarDefinition { name: ts::Node::from(d.name.clone(), tag), description: None })
                };
                batch.push((d.name.clone(), ts::Node::from(td, tag)));
                if cuts[di] { b.extend(std::mem::take(&mut batch)); }
            }
            b.extend(batch);
            b.into()
        };
        let schema: ts::Schema<String, u64> = build(&defs);
        let dump = |s: &ts::Schema<String, u64>| -> Vec<(String, String, u64, Vec<String>)> {
            s.iter_types().map(|(k, d)| {
                let ifs = d.as_object().map(|o| o.interfaces.iter().map(|i| i.inner_ref().clone()).collect()).unwrap_or_default();
                (k.clone(), d.name().clone(), *ts::OriginalNodeRef::original_node_ref(d), ifs)
            }).collect()
        };
        let it0 = dump(&schema);
        let probes: Vec<String> = pool.iter().map(|s| s.to_string()).chain(["X_A", "X_Node", "K", "zz"].iter().map(|s| s.to_string())).collect();
        let get0: Vec<Option<u64>> = probes.iter().map(|p| schema.get_type(p).map(|d| *ts::OriginalNodeRef::original_node_ref(d))).collect();
        // map_str several times: every call builds a new HashMap
        let mut variants: HashSet<String> = HashSet::new();
        let mut last = None;
        for _ in 0..6 {
            let m = build(&defs).map_str(&f);
            let it = dump(&m);
            let get: Vec<Option<u64>> = probes.iter().map(|p| m.get_type(p).map(|d| *ts::OriginalNodeRef::original_node_ref(d))).collect();
            variants.insert(format!("{it:?}{get:?}"));
            last = Some((it, get));
        }
        if variants.len() > 1 { nonuniq_outcomes += 1; }
        let (it1, get1) = last.unwrap();
        let cq_it = |it: &Vec<(String, String, u64, Vec<String>)>| coq_list(it, |(k, n, t, ifs)| format!("({}, ({}, {}, {}))", coq_str(k), coq_str(n), coq_n(*t), cq_strs(ifs)));
        let cq_get = |gv: &Vec<Option<u64>>| coq_list(gv, |x| coq_opt(x, |t| coq_n(*t)));
        let term = format!("CSchema {} {} {} {} {} {} {} {}", coq_list(&defs, cq_def), coq_n(fid), cq_strs(&probes),
            cq_it(&it0), cq_get(&get0), cq_it(&it1), cq_get(&get1), coq_n(variants.len() as u64));
        let names: Vec<&String> = defs.iter().map(|d| &d.name).collect();
        let has_dup = names.iter().collect::<HashSet<_>>().len() < names.len();
        if n >= 2 { distinct.insert(fnv(&term)); }
        bump(if has_dup { "schema_with_duplicate_names" } else { "schema_unique_names" }, &mut dist);
        if samples.len() < 2 { samples.push(json!({"kind":"schema","defs":names,"f":fid,"iter_types":it0.iter().map(|x| &x.0).collect::<Vec<_>>()})); }
        cases.push(term, json!({"kind":"schema","defs": defs.iter().map(|d| json!({"name":d.name,"kind":d.kind,"ifaces":d.ifaces,"tag":d.pos.line})).collect::<Vec<_>>(),
            "f": fid, "iter_types": it0.iter().map(|x| json!([x.0, x.2])).collect::<Vec<_>>(), "after_map_str": it1.iter().map(|x| json!([x.0, x.1, x.2])).collect::<Vec<_>>(), "map_str_variants": variants.len()}));
    }
    dist.insert("map_str_calls_with_order_dependent_result(non-injective f)".into(), nonuniq_outcomes);

    // ---- 1b. CPlugin: GraphQLScalarsPlugin::load_schema_extensions + schema_addition (two raw-iteration sites)
    {
        use nitrogql_plugin::{GraphQLScalarsPlugin, PluginSchemaExtensions, PluginV1Beta};
        use serde_yaml::Value as Y;
        let n_plugin = if thorough { 1500 } else { 200 };
        let names = ["Date", "DateTime", "JSON", "BigInt", "URL", "Zed", "Abc", "abc", "A", "Money", "UUID", "Email", "Obj"];
        let tsty = ["string", "number", "Date", "Date | string", "bigint", "Record<string, unknown>"];
        let mut plugin_some = 0u64;
        for _ in 0..n_plugin {
            let n = rng.range(0, 8);
            let mut picked: Vec<&str> = names.to_vec();
            rng.shuffle(&mut picked);
            picked.truncate(n);
            // abstract description (for Coq) and the YAML values (for the plugin)
            let mut abs: Vec<(String, Option<String>, Option<String>)> = vec![];   // name, xe_kind term, xe_codegen term
            let mut real: Vec<(String, Vec<(String, Y)>)> = vec![];
            for name in &picked {
                let mut fields: Vec<(String, Y)> = vec![];
                let kind_term = match rng.below(8) {
                    0 => None,
                    1 => { fields.push(("nitrogql:kind".into(), Y::Number(3.into()))); None }
                    2 => { fields.push(("nitrogql:kind".into(), Y::String("object".into()))); Some("object".to_string()) }
                    _ => { fields.push(("nitrogql:kind".into(), Y::String("scalar".into()))); Some("scalar".to_string()) }
                };
                let codegen_term = match rng.below(8) {
                    0 => None,
                    1 => { fields.push(("codegenScalarType".into(), Y::Sequence(vec![Y::String("x".into())]))); Some("YOther".to_string()) }
                    2 | 3 => { let t = rng.pick(&tsty).to_string(); fields.push(("codegenScalarType".into(), Y::String(t.clone()))); Some(format!("(YStr {})", coq_str(&t))) }
                    _ => {
                        let keysets: [&[&str]; 6] = [&["send", "receive"], &["input", "output"], &["send", "output"],
                            &["resolverInput", "resolverOutput", "operationInput", "operationOutput"],
                            &["resolverInput", "resolverOutput", "operationInput"], &["send", "input", "receive", "resolverInput", "resolverOutput", "operationInput", "operationOutput"]];
                        let ks = rng.pick(&keysets);
                        let mut m = serde_yaml::Mapping::new();
                        let mut terms = vec![];
                        for k in ks.iter() {
                            if rng.chance(1, 8) { m.insert(Y::String(k.to_string()), Y::Number(1.into())); terms.push(format!("({}, None)", coq_str(k))); }
                            else { let t = rng.pick(&tsty).to_string(); m.insert(Y::String(k.to_string()), Y::String(t.clone())); terms.push(format!("({}, Some {})", coq_str(k), coq_str(&t))); }
                        }
                        fields.push(("codegenScalarType".into(), Y::Mapping(m)));
                        Some(format!("(YMap [{}])", terms.join("; ")))
                    }
                };
                if rng.chance(1, 3) { fields.push(("other".into(), Y::Bool(true))); }
                abs.push((name.to_string(), kind_term, codegen_term));
                real.push((name.to_string(), fields));
            }
            let mut outs: HashSet<Option<String>> = HashSet::new();
            let mut last = None;
            for _ in 0..4 {
                // every run builds fresh HashMaps (fresh RandomState = another iteration order)
                let mut te: HashMap<String, HashMap<String, Y>> = HashMap::new();
                for (k, fs) in &real { te.insert(k.clone(), fs.iter().cloned().collect()); }
                let mut plugin = GraphQLScalarsPlugin::default();
                plugin.load_schema_extensions(PluginSchemaExtensions { type_extensions: &te });
                let o = plugin.schema_addition();
                outs.insert(o.clone());
                last = Some(o);
            }
            let out = last.unwrap();
            if out.is_some() { plugin_some += 1; }
            let exts_term = coq_list(&abs, |(n, k, c)| format!("({}, mk_xext {} {})", coq_str(n), coq_opt(k, |x| coq_str(x)), coq_opt(c, |x| x.clone())));
            let t = format!("CPlugin {} {} {}", exts_term, coq_opt(&out, |x| coq_str(x)), coq_n(outs.len() as u64));
            if n >= 2 { distinct.insert(fnv(&t)); }
            cases.push(t, json!({"kind":"plugin","type_extensions": real.iter().map(|(k, fs)| json!([k, fs.iter().map(|(a, b)| json!([a, serde_yaml::to_string(b).unwrap_or_default()])).collect::<Vec<_>>()])).collect::<Vec<_>>(),
                "schema_addition": out, "distinct_outputs_over_4_runs": outs.len()}));
        }
        dist.insert("plugin_cases_with_some_addition".into(), plugin_some);
    }

    // ---- 2. projects: CResolve, CSkeleton, CGen
    let n_proj = if thorough { 1200 } else { 120 };
    let mut projects: Vec<Project> = vec![];
    for pi in 0..n_proj {
        let typed = rng.chance(3, 4);
        let p = gen_project(&mut rng, pi % 2 == 0, typed);
        let files = p.files();
        // faults for the resolver: duplicate a chunk / drop an original (every 4th project)
        let mut file_texts = files.clone();
        let fault = if pi % 4 == 3 {
            let c = rng.pick(&p.chunks).text.clone();
            if rng.chance(1, 2) { file_texts[0].push_str(&c); "duplicate-chunk" }
            else if c.starts_with("extend") { "none" }
            else { file_texts = { let mut q = p.clone(); q.chunks.retain(|x| x.text != c); q.files() }; "dropped-chunk" }
        } else { "none" };
        bump(&format!("project_fault_{fault}"), &mut dist);
        let mut parsed = vec![];
        let mut ok = true;
        for (i, t) in file_texts.iter().enumerate() {
            set_current_file_of_pos(i);
            match parse_type_system_document(t) { Ok(d) => parsed.push(d), Err(e) => { ok = false; direct_failures.push(json!({"what":"generator produced an unparseable schema (harness bug)","classes":["harness-generator"],"text":t,"error":format!("{}", e.into_message())})); break; } }
        }
        if !ok { continue; }
        let per_file: Vec<Vec<AItem>> = parsed.iter().map(items_of_ext_doc).collect();
        let builtins_doc = { let mut d = TypeSystemOrExtensionDocument { definitions: vec![] }; d.extend(generate_builtins()); d.extend(nitrogql_builtins()); d };
        let builtins = items_of_ext_doc(&builtins_doc);
        let mut merged = TypeSystemOrExtensionDocument::merge(parsed);
        merged.extend(generate_builtins());
        merged.extend(nitrogql_builtins());
        let merged_items = items_of_ext_doc(&merged);
        let resolved = resolve_schema_extensions(merged);
        let (res_term, res_json) = match &resolved {
            Ok(d) => (format!("(Ok {})", cq_items(&items_of_doc(d))), json!({"ok": items_of_doc(d).len()})),
            Err(e) => { let dbg = format!("{:?}", e.message); (format!("(Err {})", cq_xerr(&dbg)), json!({"err": dbg})) }
        };
        bump(if resolved.is_ok() { "resolve_ok" } else { "resolve_err" }, &mut dist);
        let t = format!("CResolve {} {}", cq_items(&merged_items), res_term);
        distinct.insert(fnv(&t));
        cases.push(t, json!({"kind":"resolve","files":file_texts,"fault":fault,"result":res_json}));
        let gen_term;
        let gen_json;
        match &resolved {
            Ok(doc) => {
                // documents that would not pass `check` (dangling type references after a dropped definition) make
                // the printer panic on a field type; `generate` never sees those, so they are not skeleton cases
                let sk = match catch(std::panic::AssertUnwindSafe(|| skeleton(&p.cfg, doc))) {
                    Ok(r) => r,
                    Err(_) => { bump("skeleton_panic_on_unchecked_document(skipped)", &mut dist); continue; }
                };
                bump(if sk.is_ok() { "skeleton_ok" } else { "skeleton_err" }, &mut dist);
                if let Ok(d) = &sk { if d.iter().any(|x| x.local != x.schema) { bump("skeleton_with_tmp_local_names", &mut dist); } }
                let t = format!("CSkeleton {} {} {}", cq_cfg(&p.cfg), cq_items(&items_of_doc(doc)), cq_skel_result(&sk));
                distinct.insert(fnv(&t));
                let dj = json!({"kind":"skeleton","files":file_texts,"scalarTypes":p.cfg.iter().map(|(k, v)| json!([k, v.yaml()])).collect::<Vec<_>>(),
                    "result": match &sk { Ok(d) => json!({"decls": d.iter().map(|x| json!([x.section, x.local, x.schema, x.body])).collect::<Vec<_>>()}), Err(e) => json!({"err": e}) }});
                if samples.len() < 4 { samples.push(json!({"kind":"skeleton","n_decls": sk.as_ref().map(|d| d.len()).unwrap_or(0), "n_files": p.n_files, "scalarTypes": p.cfg.len()})); }
                cases.push(t, dj);
                gen_term = match &sk { Ok(d) => format!("(OOk {})", coq_list(d, cq_decl)), Err((k, n)) => format!("(OPrintError ({} {}))", if k == "ScalarTypeNotProvided" { "ScalarTypeNotProvided" } else { "LocalNameMissing" }, coq_str(n)) };
                gen_json = json!({"skeleton_ok": sk.is_ok()});
            }
            Err(e) => { let dbg = format!("{:?}", e.message); gen_term = format!("(OResolveError {})", cq_xerr(&dbg)); gen_json = json!({"err": dbg}); }
        }
        let t = format!("CGen {} {} {} {}", cq_cfg(&p.cfg), coq_list(&per_file, |f| cq_items(f)), cq_items(&builtins), gen_term);
        distinct.insert(fnv(&t));
        cases.push(t, json!({"kind":"gen","files":file_texts,"scalarTypes":p.cfg.iter().map(|(k, v)| json!([k, v.yaml()])).collect::<Vec<_>>(),"result":gen_json}));
        if fault == "none" { projects.push(p); }
    }

    // ---- 3. determinism: in-process repetition
    let k_in = if thorough { 12 } else { 5 };
    let n_det = if thorough { projects.len().min(400) } else { projects.len().min(40) };
    let mut verdicts: BTreeMap<String, u64> = BTreeMap::new();
    let mut inproc: Vec<Outcome> = vec![];
    for p in projects.iter().take(n_det) {
        let files = p.files();
        let yaml = p.config_yaml();
        let mut outs = vec![];
        for _ in 0..k_in {
            let (f2, o2, y2) = (files.clone(), p.ops.clone(), yaml.clone());
            let o = catch(move || run_inproc(&f2, &o2, &y2)).unwrap_or_else(|m| Outcome { verdict: format!("panic: {m}"), diagnostics: vec![], files: BTreeMap::new() });
            outs.push(o);
        }
        *verdicts.entry(outs[0].verdict.split(':').next().unwrap().to_string()).or_insert(0) += 1;
        let digests: Vec<u64> = outs.iter().map(digest_outcome).collect();
        let differing: Vec<String> = outs[0].files.keys().filter(|k| outs.iter().any(|o| o.files.get(*k) != outs[0].files.get(*k))).cloned().collect();
        let t = format!("CDet 0 {}", coq_list(&digests, |d| coq_n(*d)));
        distinct.insert(fnv(&format!("{t}{}", files.join(""))));
        cases.push(t, json!({"kind":"det-inprocess","runs":k_in,"schema_files":files,"operations":p.ops,"config":yaml,"verdict":outs[0].verdict,
            "digests":digests,"files_that_differ":differing, "diagnostics": outs[0].diagnostics}));
        inproc.push(outs.swap_remove(0));
    }
    for (k, v) in &verdicts { dist.insert(format!("inprocess_verdict_{k}"), *v); }

    // ---- 4a. fixed corpus (every seed, every tier): small projects whose verdict / denotation must not depend on the
    // order of two object definitions, within one file or across two files
    {
        let yaml = |n: usize| -> String {
            let mut y = String::from("schema:\n");
            for i in 0..n { y.push_str(&format!("  - ./schema/s{i}.graphql\n")); }
            y.push_str("documents:\n  - ./ops/q0.graphql\nextensions:\n  nitrogql:\n    generate:\n      mode: with-loader-ts-5.0\n      schemaOutput: ./out/schema.d.ts\n      serverGraphqlOutput: ./out/graphql.ts\n      resolversOutput: ./out/resolvers.d.ts\n      schemaModuleSpecifier: \"@/generated/schema\"\n");
            y
        };
        // (name, common head, definition X, definition Y, common tail, operation)
        let corpus: [(&str, &str, &str, &str, &str, &str); 2] = [
            ("interface-spread-on-second-implementer",
             "interface Node { id: ID! }\ninterface Named { name: String }\n",
             "type Comment implements Node { id: ID! }\n",
             "type Post implements Node & Named { id: ID! name: String }\n",
             "type Query { node: Node }\n",
             "query Q { node { id ... on Named { name } } }\n"),
            ("interface-field-nullability-per-implementer",
             "interface Pet { name: String }\n",
             "type Cat implements Pet { name: String! }\n",
             "type Dog implements Pet { name: String }\n",
             "type Query { pets: [Pet!]! }\n",
             "query Q { pets { name } }\n"),
        ];
        for (name, head, x, y, tail, op) in corpus.iter() {
            let arrangements: Vec<(&str, Vec<String>)> = vec![
                ("one file, X before Y", vec![format!("{head}{x}{y}{tail}")]),
                ("one file, Y before X", vec![format!("{head}{y}{x}{tail}")]),
                ("two files, X in the first", vec![format!("{head}{x}"), format!("{y}{tail}")]),
                ("two files, Y in the first", vec![format!("{head}{y}"), format!("{x}{tail}")]),
                ("two files, definitions first", vec![format!("{y}{x}"), format!("{head}{tail}")]),
            ];
            let canon_of = |o: &Outcome| -> Vec<(String, u64)> {
                o.files.iter().filter(|(k, _)| !k.ends_with(".map") && !k.ends_with("out/graphql.ts")).map(|(k, v)| (k.clone(), fnv(&canon(v)))).collect()
            };
            let run = |files: &Vec<String>| -> Outcome {
                let (f, o, y) = (files.clone(), vec![op.to_string()], yaml(files.len()));
                catch(move || run_inproc(&f, &o, &y)).unwrap_or_else(|m| Outcome { verdict: format!("panic: {m}"), diagnostics: vec![], files: BTreeMap::new() })
            };
            let base = run(&arrangements[0].1);
            for (label, files) in arrangements.iter().skip(1) {
                let other = run(files);
                let (c1, c2) = (canon_of(&base), canon_of(&other));
                let differing: Vec<&String> = c1.iter().zip(c2.iter()).filter(|(a, b)| a != b).map(|(a, _)| &a.0).collect();
                let t = format!("CPerm {} {} {} {}", coq_str(&base.verdict), coq_str(&other.verdict),
                    coq_list(&c1, |(k, d)| format!("({}, {})", coq_str(k), coq_n(*d))), coq_list(&c2, |(k, d)| format!("({}, {})", coq_str(k), coq_n(*d))));
                distinct.insert(fnv(&format!("{t}{name}{label}")));
                cases.push(t, json!({"kind":"perm","corpus":name,"arrangement":label,"schema_files":arrangements[0].1,"permuted_schema_files":files,
                    "operations":[op],"config":yaml(arrangements[0].1.len()),"permuted_config":yaml(files.len()),
                    "verdict":base.verdict,"permuted_verdict":other.verdict,"diagnostics":base.diagnostics,"permuted_diagnostics":other.diagnostics,
                    "files_whose_normal_form_differs":differing}));
            }
            dist.insert(format!("corpus_{name}_verdict_{}", base.verdict.split(':').next().unwrap()), 1);
        }
    }

    // ---- 4. permuted projects: verdict and denotation
    let n_perm = if thorough { 3000 } else { 100 };
    let mut perm_done = 0;
    let mut pi = 0;
    while perm_done < n_perm && !projects.is_empty() && pi < n_det.max(1) * 40 {
        let idx = pi % n_det.max(1).min(projects.len());
        pi += 1;
        let p = &projects[idx];
        let q = p.permuted(&mut rng);
        let base = if idx < inproc.len() { inproc[idx].clone() } else { run_inproc(&p.files(), &p.ops, &p.config_yaml()) };
        let (f2, o2, y2) = (q.files(), q.ops.clone(), q.config_yaml());
        let (f3, o3, y3) = (f2.clone(), o2.clone(), y2.clone());
        let other = catch(move || run_inproc(&f3, &o3, &y3)).unwrap_or_else(|m| Outcome { verdict: format!("panic: {m}"), diagnostics: vec![], files: BTreeMap::new() });
        let canon_of = |o: &Outcome| -> Vec<(String, u64)> {
            o.files.iter().filter(|(k, _)| !k.ends_with(".map") && !k.ends_with("graphql.ts") || k.ends_with(".d.graphql.ts"))
                .filter(|(k, _)| !k.ends_with(".map"))
                .map(|(k, v)| (k.clone(), fnv(&canon(v)))).collect()
        };
        let (c1, c2) = (canon_of(&base), canon_of(&other));
        let differing: Vec<&String> = c1.iter().zip(c2.iter()).filter(|(a, b)| a != b).map(|(a, _)| &a.0).collect();
        if let Ok(dir) = std::env::var("C17_DUMP") {
            if let Some(k) = differing.first() {
                let _ = std::fs::create_dir_all(&dir);
                let tag = format!("{}/{}_{}", dir, perm_done, k.replace('/', "_"));
                let _ = std::fs::write(format!("{tag}.a"), &base.files[*k]);
                let _ = std::fs::write(format!("{tag}.b"), &other.files[*k]);
                let _ = std::fs::write(format!("{tag}.a.canon"), canon(&base.files[*k]).replace(" ; ", "\n"));
                let _ = std::fs::write(format!("{tag}.b.canon"), canon(&other.files[*k]).replace(" ; ", "\n"));
            }
        }
        let t = format!("CPerm {} {} {} {}", coq_str(&base.verdict), coq_str(&other.verdict),
            coq_list(&c1, |(k, d)| format!("({}, {})", coq_str(k), coq_n(*d))), coq_list(&c2, |(k, d)| format!("({}, {})", coq_str(k), coq_n(*d))));
        cases.push(t, json!({"kind":"perm","schema_files":p.files(),"permuted_schema_files":f2,"operations":o2,"config":p.config_yaml(),"permuted_config":y2,
            "verdict":base.verdict,"permuted_verdict":other.verdict,"diagnostics":base.diagnostics,"permuted_diagnostics":other.diagnostics,
            "files_whose_normal_form_differs":differing}));
        perm_done += 1;
    }
    dist.insert("permuted_projects".into(), perm_done as u64);

    // ---- 4b. permuted INVALID projects: verdict(pi(P)) = verdict(P) must hold for failing projects too
    let n_fault_proj = if thorough { 40 } else { 5 };
    let k_fault_perm = if thorough { 12 } else { 6 };
    let mut fault_cases = 0u64;
    let mut fault_verdicts: BTreeMap<String, u64> = BTreeMap::new();
    for (fi, (label, extra)) in FAULTS.iter().enumerate() {
        for j in 0..n_fault_proj.min(projects.len()) {
            let base_p = &projects[(fi * 7 + j) % projects.len()];
            let mut p = base_p.clone();
            for c in extra.iter() { p.chunks.push(Chunk { text: c.to_string() }); }
            let p = p.permuted(&mut rng);
            let (f1, o1, y1) = (p.files(), p.ops.clone(), p.config_yaml());
            let (fa, oa, ya) = (f1.clone(), o1.clone(), y1.clone());
            let base = catch(move || run_inproc(&fa, &oa, &ya)).unwrap_or_else(|m| Outcome { verdict: format!("panic: {m}"), diagnostics: vec![], files: BTreeMap::new() });
            *fault_verdicts.entry(format!("{label}:{}", base.verdict.split(':').next().unwrap())).or_insert(0) += 1;
            for _ in 0..k_fault_perm {
                let q = p.permuted(&mut rng);
                let (f2, o2, y2) = (q.files(), q.ops.clone(), q.config_yaml());
                let (fb, ob, yb) = (f2.clone(), o2.clone(), y2.clone());
                let other = catch(move || run_inproc(&fb, &ob, &yb)).unwrap_or_else(|m| Outcome { verdict: format!("panic: {m}"), diagnostics: vec![], files: BTreeMap::new() });
                let (k1, k2) = (kind_multiset(&base), kind_multiset(&other));
                let cq = |k: &Vec<(String, u64)>| coq_list(k, |(a, b)| format!("({}, {})", coq_str(a), coq_n(*b)));
                // (see FAULTS) for a twice-defined directive only the failing stage has to agree
                let stage_only = *label == "duplicate-directive-definition";
                let none: Vec<(String, u64)> = vec![];
                let t = format!("CPermV {} {} {} {}", coq_str(&base.verdict), coq_str(&other.verdict),
                                cq(if stage_only { &none } else { &k1 }), cq(if stage_only { &none } else { &k2 }));
                distinct.insert(fnv(&format!("{t}{}", f2.join(""))));
                cases.push(t, json!({"kind":"perm-invalid","fault":label,"schema_files":f1,"permuted_schema_files":f2,"operations":o2,
                    "config":y1,"permuted_config":y2,"verdict":base.verdict,"permuted_verdict":other.verdict,
                    "diagnostic_kinds":k1,"permuted_diagnostic_kinds":k2,
                    "diagnostics":base.diagnostics,"permuted_diagnostics":other.diagnostics}));
                fault_cases += 1;
            }
        }
    }
    dist.insert("permuted_invalid_project_comparisons".into(), fault_cases);
    for (k, v) in &fault_verdicts { dist.insert(format!("fault_verdict_{k}"), *v); }

    // ---- 5. the real CLI in fresh processes
    let mut cli_runs = 0u64;
    let mut preexisting_meaningful = 0u64;
    if let Some(cli) = &cli {
        let k_cli = if thorough { 20 } else { 3 };
        let n_cli = if thorough { 60 } else { 8 };
        let root = args.out.join("cli-projects");
        // prefer projects whose in-process verdict is ok, plus one that fails
        let mut order: Vec<usize> = (0..inproc.len()).filter(|&i| inproc[i].verdict == "ok").collect();
        if let Some(bad) = (0..inproc.len()).find(|&i| inproc[i].verdict != "ok") { order.insert(order.len().min(2), bad); }
        for &idx in order.iter().take(n_cli) {
            let p = &projects[idx];
            let dir = root.join(format!("p{idx}"));
            write_project(&dir, p);
            let mut outs = vec![];
            for _ in 0..k_cli { outs.push(run_cli(cli, &dir, p.ops.len())); cli_runs += 1; }
            let digests: Vec<u64> = outs.iter().map(digest_outcome).collect();
            let differing: Vec<String> = outs[0].files.keys().filter(|k| outs.iter().any(|o| o.files.get(*k) != outs[0].files.get(*k))).cloned().collect();
            cases.push(format!("CDet 1 {}", coq_list(&digests, |d| coq_n(*d))),
                json!({"kind":"det-cli","runs":k_cli,"project_dir":dir.to_string_lossy(),"schema_files":p.files(),"operations":p.ops,"config":p.config_yaml(),
                       "verdict":outs[0].verdict,"digests":digests,"files_that_differ":differing,"stdout":outs[0].diagnostics[0]}));
            // ---- 5b. pre-existing output: `generate` is a function of the project alone — what an earlier run left in
            // the output directory must not matter.  Checkout A was generated before on P0 (= P with position-only
            // edits: a leading comment and blank lines in every source file, schema files under other names), then its
            // sources are replaced by P and it is generated again in a fresh process; checkout B is a clean directory.
            if outs[0].verdict == "ok" {
                let dir_a = root.join(format!("p{idx}-a"));
                let dir_b = root.join(format!("p{idx}-b"));
                let _ = std::fs::remove_dir_all(&dir_a);
                let _ = std::fs::remove_dir_all(&dir_b);
                write_sources(&dir_a, p, "t", "# generated by an earlier revision\n\n\n\n");
                let a0 = run_cli_plain(cli, &dir_a);
                let tree_a0 = generated_tree(&dir_a);
                write_sources(&dir_a, p, "s", "\n");
                let a1 = run_cli_plain(cli, &dir_a);
                let tree_a = generated_tree(&dir_a);
                write_sources(&dir_b, p, "s", "\n");
                let _b0 = run_cli_plain(cli, &dir_b);
                let b1 = run_cli_plain(cli, &dir_b);
                let tree_b = generated_tree(&dir_b);
                cli_runs += 4;
                let keys: BTreeSet<&String> = tree_a.keys().chain(tree_b.keys()).collect();
                let differing: Vec<&String> = keys.iter().filter(|k| tree_a.get(**k) != tree_b.get(**k)).cloned().collect();
                // how much of the earlier revision's output differs from the final one (the stream is only meaningful if
                // the position-only edit really changes some map while leaving the TypeScript text alone)
                let moved_maps = tree_a0.iter().filter(|(k, v)| k.ends_with(".map") && tree_b.get(*k) != Some(v)).count();
                let same_text = tree_a0.iter().filter(|(k, _)| !k.ends_with(".map")).all(|(k, v)| tree_b.get(k) == Some(v));
                if moved_maps > 0 && same_text { preexisting_meaningful += 1; }
                let dig = |t: &BTreeMap<String, String>, r: &(i32, String)| { let mut s = format!("{}\u{1}{}", r.0, r.1); for (k, v) in t { s.push_str(k); s.push('\u{2}'); s.push_str(v); s.push('\u{3}'); } fnv(&s) };
                let (da, db) = (dig(&tree_a, &a1), dig(&tree_b, &b1));
                let detail: Vec<serde_json::Value> = differing.iter().take(3).map(|k| json!({"file": k, "checkout_with_earlier_output": tree_a.get(*k), "clean_checkout": tree_b.get(*k)})).collect();
                cases.push(format!("CDet 2 {}", coq_list(&[da, db], |d| coq_n(*d))),
                    json!({"kind":"det-preexisting-output","schema_files":p.files(),"operations":p.ops,"config":p.config_yaml(),
                           "earlier_revision":"every source file starts with one blank line (so no definition ties with the built-ins at 0:0); the earlier revision had `# generated by an earlier revision` + 3 blank lines there instead and its schema files were named t<i>.graphql",
                           "checkout_a":dir_a.to_string_lossy(),"checkout_b":dir_b.to_string_lossy(),
                           "exit_codes":{"a_first":a0.0,"a_second":a1.0,"b":b1.0},
                           "listing_a":a1.1,"listing_b":b1.1,
                           "files_that_differ":differing,"differing_contents":detail,
                           "maps_changed_by_the_position_only_edit":moved_maps,"typescript_text_unchanged_by_it":same_text}));
            }
            // library vs CLI
            let a = comparable(&inproc[idx]);
            let b = comparable(&outs[0]);
            let lib_ok = inproc[idx].verdict == "ok";
            let cli_ok = outs[0].verdict == "ok";
            let keys: BTreeSet<&String> = a.keys().chain(b.keys()).collect();
            let differing: Vec<&String> = keys.iter().filter(|k| a.get(**k) != b.get(**k)).cloned().collect();
            let da: Vec<u64> = keys.iter().map(|k| a.get(*k).map(|v| fnv(v)).unwrap_or(0)).collect();
            let db: Vec<u64> = keys.iter().map(|k| b.get(*k).map(|v| fnv(v)).unwrap_or(0)).collect();
            cases.push(format!("CLibCli {} {} {} {}", coq_bool(lib_ok), coq_bool(cli_ok), coq_list(&da, |d| coq_n(*d)), coq_list(&db, |d| coq_n(*d))),
                json!({"kind":"lib-vs-cli","project_dir":dir.to_string_lossy(),"schema_files":p.files(),"operations":p.ops,"config":p.config_yaml(),
                       "library_verdict":inproc[idx].verdict,"cli_verdict":outs[0].verdict,"files_that_differ":differing,"cli_stdout":outs[0].diagnostics[0]}));
        }
    }
    dist.insert("cli_process_runs".into(), cli_runs);
    dist.insert("preexisting_output_cases_where_only_maps_moved".into(), preexisting_meaningful);

    let n = cases.len();
    cases.write(&args.out);
    write_meta(&args.out, &json!({
        "evaluations": n,
        "distinct_nontrivial": distinct.len(),
        "rule": "distinct case terms; a schema case is non-trivial with >= 2 definitions, a project case always (>= 10 definitions over 1-3 files)",
        "samples": samples,
        "distribution": dist,
        "direct_failures": direct_failures,
    }));
}
