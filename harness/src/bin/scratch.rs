use nitrogql_parser::*;
fn main() {
    for t in ["query { a } # c", "{ a { x } }", "# only comment", "query { a } #", "type A { x: Int } # end"] {
        let r = std::panic::catch_unwind(|| { let a = parse_operation_document(t).map(|d| d.definitions.len()); let b = parse_type_system_document(t).map(|d| d.definitions.len()); format!("{:?} / {:?}", a.map_err(|e| e.into_message()), b.map_err(|e| e.into_message())) });
        println!("{t:?} => {r:?}");
    }
}
