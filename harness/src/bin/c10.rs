//! C10: runs nitrogql's schema declaration printer (`SchemaTypePrinter::print_document`), resolver
//! declaration printer (`ResolverTypePrinter::print_document`, with 0..2 instances of the model plugin)
//! and `jsdoc::print_description` on generated schemas x scalar configurations x options, records the
//! writer operations with the recording writer and writes inputs + outputs as Coq terms for
//! coq/C10/Corr.v.
use nitrogql_ast::TypeSystemDocument;
use nitrogql_config_file::{parse_config, ScalarTypeConfig, SendReceiveScalarTypeConfig, SeparateScalarTypeConfig};
use nitrogql_plugin::{ModelPlugin, Plugin};
use nitrogql_printer::verif_hooks::print_description;
use nitrogql_printer::{ResolverTypePrinter, ResolverTypePrinterOptions, SchemaTypePrinter, SchemaTypePrinterOptions};
use serde_json::{json, Value as J};
use std::collections::{BTreeMap, BTreeSet, HashMap, HashSet};
use std::fmt::Write as _;
use std::panic::AssertUnwindSafe;
use verif_harness::gen::{gen_schema, Arg, Field, Kind, Schema, SchemaCfg, Ty, TypeDef, BUILTIN_SCALARS};
use verif_harness::pipeline::{check_schema, load_schema};
use verif_harness::rec::{Rec, Wop};
use verif_harness::*;

// ------------------------------------------------------------------ schema text with extras

#[derive(Default, Clone)]
struct Extras {
    /// object name -> argument text of @model on the object (None = `@model` without arguments)
    model_obj: BTreeMap<String, Option<String>>,
    /// (object, field) carrying @model
    model_fields: BTreeSet<(String, String)>,
    /// scalar -> (resolverInput, resolverOutput, operationInput, operationOutput) for @nitrogql_ts_type
    ts_type: BTreeMap<String, Vec<(String, String)>>,
    /// (type, field) -> deprecation: None = `@deprecated`, Some(r) = `@deprecated(reason: r-literal)`
    deprecated: BTreeMap<(String, String), Option<String>>,
    /// declare the directives used above
    declare_model: bool,
    declare_ts_type: bool,
}

fn quote(s: &str) -> String {
    let mut o = String::from("\"");
    for c in s.chars() {
        match c {
            '"' => o.push_str("\\\""),
            '\\' => o.push_str("\\\\"),
            '\n' => o.push_str("\\n"),
            '\r' => o.push_str("\\r"),
            '\t' => o.push_str("\\t"),
            c => o.push(c),
        }
    }
    o.push('"');
    o
}
fn desc_str(d: &Option<String>, indent: &str, out: &mut String, block: bool) {
    if let Some(d) = d {
        if block && d.contains('\n') && !d.contains("\"\"\"") && !d.contains('\\') && !d.contains('\r') {
            let _ = writeln!(out, "{indent}\"\"\"\n{indent}{}\n{indent}\"\"\"", d.replace('\n', &format!("\n{indent}")));
        } else {
            let _ = writeln!(out, "{indent}{}", quote(d));
        }
    }
}
fn render_args(args: &[Arg]) -> String {
    if args.is_empty() { return String::new(); }
    let parts: Vec<String> = args.iter().map(|a| format!("{}{}: {}{}", a.desc.as_ref().map(|d| format!("{} ", quote(d))).unwrap_or_default(),
        a.name, a.ty.render(), a.default.as_ref().map(|d| format!(" = {d}")).unwrap_or_default())).collect();
    format!("({})", parts.join(", "))
}
fn dep_text(x: &Extras, t: &str, f: &str, default_flag: bool) -> String {
    match x.deprecated.get(&(t.to_string(), f.to_string())) {
        Some(None) => " @deprecated".into(),
        Some(Some(r)) => format!(" @deprecated(reason: {r})"),
        None => if default_flag { " @deprecated(reason: \"old\")".into() } else { String::new() },
    }
}
fn render_fields(tn: &str, fields: &[Field], x: &Extras, out: &mut String, block: bool) {
    out.push_str(" {\n");
    for f in fields {
        desc_str(&f.desc, "  ", out, block);
        let model = if x.model_fields.contains(&(tn.to_string(), f.name.clone())) { " @model" } else { "" };
        let _ = writeln!(out, "  {}{}: {}{}{}", f.name, render_args(&f.args), f.ty.render(), dep_text(x, tn, &f.name, f.deprecated), model);
    }
    out.push_str("}\n");
}
fn render(s: &Schema, x: &Extras, block: bool) -> String {
    let mut out = String::new();
    if s.explicit_schema_def {
        let _ = writeln!(out, "schema {{\n  query: {}", s.query);
        if let Some(m) = &s.mutation { let _ = writeln!(out, "  mutation: {m}"); }
        if let Some(m) = &s.subscription { let _ = writeln!(out, "  subscription: {m}"); }
        out.push_str("}\n");
    }
    for d in &s.directives {
        let _ = writeln!(out, "directive @{}{}{} on {}", d.name, render_args(&d.args), if d.repeatable { " repeatable" } else { "" }, d.locations.join(" | "));
    }
    if x.declare_model { out.push_str("directive @model(type: String) on OBJECT | FIELD_DEFINITION\n"); }
    if x.declare_ts_type {
        out.push_str("directive @nitrogql_ts_type(resolverInput: String!, resolverOutput: String!, operationInput: String!, operationOutput: String!) on SCALAR\n");
    }
    for t in &s.types {
        desc_str(&t.desc, "", &mut out, block);
        let impls = |implements: &Vec<String>| if implements.is_empty() { String::new() } else { format!(" implements {}", implements.join(" & ")) };
        match &t.kind {
            Kind::Scalar => {
                let d = x.ts_type.get(&t.name).map(|kv| format!(" @nitrogql_ts_type({})", kv.iter().map(|(k, v)| format!("{k}: {v}")).collect::<Vec<_>>().join(", "))).unwrap_or_default();
                let _ = writeln!(out, "scalar {}{}", t.name, d);
            }
            Kind::Object { implements, fields } => {
                let m = match x.model_obj.get(&t.name) { None => String::new(), Some(None) => " @model".into(), Some(Some(a)) => format!(" @model({a})") };
                let _ = write!(out, "type {}{}{}", t.name, impls(implements), m);
                render_fields(&t.name, fields, x, &mut out, block);
            }
            Kind::Interface { implements, fields } => {
                let _ = write!(out, "interface {}{}", t.name, impls(implements));
                render_fields(&t.name, fields, x, &mut out, block);
            }
            Kind::Union { members } => { let _ = writeln!(out, "union {} = {}", t.name, members.join(" | ")); }
            Kind::Enum { values } => { let _ = writeln!(out, "enum {} {{\n  {}\n}}", t.name, values.join("\n  ")); }
            Kind::Input { fields } => {
                let _ = writeln!(out, "input {} {{", t.name);
                for f in fields {
                    desc_str(&f.desc, "  ", &mut out, block);
                    let _ = writeln!(out, "  {}: {}{}{}", f.name, f.ty.render(), f.default.as_ref().map(|d| format!(" = {d}")).unwrap_or_default(), dep_text(x, &t.name, &f.name, false));
                }
                out.push_str("}\n");
            }
        }
    }
    out
}

fn rename_ty(t: &mut Ty, from: &str, to: &str) {
    match t { Ty::Named(n) => if n == from { *n = to.to_string(); }, Ty::List(i) | Ty::NonNull(i) => rename_ty(i, from, to) }
}
fn rename(s: &mut Schema, from: &str, to: &str) {
    let fix = |n: &mut String| if n == from { *n = to.to_string(); };
    for t in s.types.iter_mut() {
        fix(&mut t.name);
        match &mut t.kind {
            Kind::Object { implements, fields } | Kind::Interface { implements, fields } => {
                for i in implements.iter_mut() { fix(i); }
                for f in fields.iter_mut() { rename_ty(&mut f.ty, from, to); for a in f.args.iter_mut() { rename_ty(&mut a.ty, from, to); } }
            }
            Kind::Union { members } => for m in members.iter_mut() { fix(m); },
            Kind::Input { fields } => for f in fields.iter_mut() { rename_ty(&mut f.ty, from, to); },
            _ => {}
        }
    }
    fix(&mut s.query);
    if let Some(m) = s.mutation.as_mut() { fix(m); }
    if let Some(m) = s.subscription.as_mut() { fix(m); }
}

// ------------------------------------------------------------------ odd descriptions

const ODD_DESCRIPTIONS: &[&str] = &[
    "desc with */ close", "*/", "/*", "*/*/", "**/", "*//", "/* nested */ comment", "ends with *", "/ starts with slash",
    "* / spaced", "line1\nline2 */ x\n  */", "  indented\n    more\n  back", "\n\n  leading blank lines\n\n", "trailing   \n   \n",
    "a\r\nb\r\n", "lone\rcr", "tab\tin\n\tline", "\u{a0}nbsp indent\n\u{a0}\u{a0}two", "\u{3000}wide space", "para\u{2028}sep",
    "@deprecated fake tag", "back\\slash \\/ \\n", "quote \" and ' and `", "${template} `tick`", "emoji \u{1F600} astral", "",
    " ", "\n", "   \n  \n", "x", "*", "/", "*\n/", "a*/\n*/b", "<script>", "{@link Foo}", "e\u{301} combining", "\u{feff}bom",
    "\u{85}nel\n\u{85}\u{85}x", "mixed \t \u{2003}indent\n \t \u{2003}  deeper",
];
const ODD_ALPHABET: &[&str] = &["*", "/", "*/", "\n", " ", "  ", "\t", "\r", "a", "b", "\\", "\"", "\u{a0}", "@", "\u{1F600}", "\r\n", "*\\/", "\u{2028}"];
fn odd_description(rng: &mut Rng) -> String {
    if rng.chance(1, 2) { return (*rng.pick(ODD_DESCRIPTIONS)).to_string(); }
    let n = rng.range(0, 14);
    (0..n).map(|_| *rng.pick(ODD_ALPHABET)).collect()
}

// ------------------------------------------------------------------ options

const TS_TEXTS: &[&str] = &["string", "number", "boolean", "Date", "Date | string", "string | number", "Record<string, unknown>",
    "import('x').Y", "{ a: string }", "bigint", "unknown", "Array<JSON>", "__tmp_Date", "MyDate | __tmp_O0", "URL", "1abc_def 2", "_x9$y", "é_id"];

fn ts_text(rng: &mut Rng, type_names: &[String]) -> String {
    match rng.below(10) {
        0..=1 if !type_names.is_empty() => rng.pick(type_names).clone(),
        2 if !type_names.is_empty() => format!("{} | null", rng.pick(type_names)),
        3 if !type_names.is_empty() => format!("Array<{}>", rng.pick(type_names)),
        _ => (*rng.pick(TS_TEXTS)).to_string(),
    }
}
fn scalar_cfg(rng: &mut Rng, type_names: &[String]) -> ScalarTypeConfig {
    match rng.below(3) {
        0 => ScalarTypeConfig::Single(ts_text(rng, type_names)),
        1 => ScalarTypeConfig::SendReceive(SendReceiveScalarTypeConfig { send: ts_text(rng, type_names), receive: ts_text(rng, type_names) }),
        _ => ScalarTypeConfig::Separate(SeparateScalarTypeConfig {
            resolver_output: ts_text(rng, type_names), resolver_input: ts_text(rng, type_names),
            operation_output: ts_text(rng, type_names), operation_input: ts_text(rng, type_names) }),
    }
}
fn cfg_coq(c: &ScalarTypeConfig) -> String {
    match c {
        ScalarTypeConfig::Single(t) => format!("(ScSingle {})", coq_str(t)),
        ScalarTypeConfig::SendReceive(c) => format!("(ScSendRecv {} {})", coq_str(&c.send), coq_str(&c.receive)),
        ScalarTypeConfig::Separate(c) => format!("(ScSeparate {} {} {} {})", coq_str(&c.resolver_output), coq_str(&c.resolver_input),
            coq_str(&c.operation_output), coq_str(&c.operation_input)),
    }
}
fn cfg_json(c: &ScalarTypeConfig) -> J {
    match c {
        ScalarTypeConfig::Single(t) => json!(t),
        ScalarTypeConfig::SendReceive(c) => json!({"send": c.send, "receive": c.receive}),
        ScalarTypeConfig::Separate(c) => json!({"resolverOutput": c.resolver_output, "resolverInput": c.resolver_input,
            "operationOutput": c.operation_output, "operationInput": c.operation_input}),
    }
}
fn cfg_shape(c: &ScalarTypeConfig) -> &'static str {
    match c { ScalarTypeConfig::Single(_) => "single", ScalarTypeConfig::SendReceive(_) => "sendreceive", ScalarTypeConfig::Separate(_) => "separate" }
}
fn cfg_texts(c: &ScalarTypeConfig) -> Vec<&str> { c.type_names().collect() }

struct SOpts { scalars: Vec<(String, ScalarTypeConfig)>, meta: String, optional: bool, runtime: bool }
impl SOpts {
    /// Where the options can be expressed by a configuration (default metadata type name, all five built-in
    /// scalars mapped) they are built the way the CLI builds them: configuration TEXT -> parse_config ->
    /// SchemaTypePrinterOptions::from_config, so that the option plumbing is inside the tie; the text lists
    /// every entry, in particular the remapped built-ins. Otherwise (malformed stream) the fields are set directly.
    fn to_rust(&self) -> SchemaTypePrinterOptions {
        let all_builtins = BUILTIN_SCALARS.iter().all(|b| self.scalars.iter().any(|(k, _)| k == b));
        if self.meta == "__nitrogql_schema" && all_builtins {
            let m: serde_json::Map<String, J> = self.scalars.iter().map(|(k, c)| (k.clone(), cfg_json(c))).collect();
            let yaml = format!("schema: schema.graphql\nextensions:\n  nitrogql:\n    generate:\n      emitSchemaRuntime: {}\n      type:\n        allowUndefinedAsOptionalInput: {}\n        scalarTypes: {}\n",
                self.runtime, self.optional, serde_json::to_string(&m).unwrap());
            if let Some(config) = parse_config(&yaml) { return SchemaTypePrinterOptions::from_config(&config); }
        }
        SchemaTypePrinterOptions {
            scalar_types: self.scalars.iter().cloned().collect::<HashMap<_, _>>(),
            schema_metadata_type: self.meta.clone(),
            input_nullable_field_is_optional: self.optional,
            emit_schema_runtime: self.runtime,
        }
    }
    fn coq(&self) -> String {
        format!("(mkSOpts {} {} {} {})", coq_list(&self.scalars, |(k, c)| format!("({}, {})", coq_str(k), cfg_coq(c))), coq_str(&self.meta),
            coq_bool(self.optional), coq_bool(self.runtime))
    }
    fn json(&self) -> J {
        json!({"scalarTypes": self.scalars.iter().map(|(k, c)| (k.clone(), cfg_json(c))).collect::<serde_json::Map<_, _>>(),
               "schemaMetadataType": self.meta, "allowUndefinedAsOptionalInput": self.optional, "emitSchemaRuntime": self.runtime})
    }
}
fn builtin_scalars() -> Vec<(String, ScalarTypeConfig)> {
    vec![
        ("ID".into(), ScalarTypeConfig::SendReceive(SendReceiveScalarTypeConfig { send: "string | number".into(), receive: "string".into() })),
        ("String".into(), ScalarTypeConfig::Single("string".into())),
        ("Int".into(), ScalarTypeConfig::Single("number".into())),
        ("Float".into(), ScalarTypeConfig::Single("number".into())),
        ("Boolean".into(), ScalarTypeConfig::Single("boolean".into())),
    ]
}

// ------------------------------------------------------------------ compact Coq printing of recorded operations

/// like `coq_str`, but newlines and tabs stay inside the Coq string literal (much cheaper for coqc to
/// read than a numeric list); anything else non-printable or non-ASCII falls back to `coq_str`
fn coq_s(s: &str) -> String {
    if s.chars().all(|c| (' '..='~').contains(&c) || c == '\n' || c == '\t') && s.len() < 4000 {
        let mut o = String::from("(s \"");
        for c in s.chars() { if c == '"' { o.push_str("\"\""); } else { o.push(c); } }
        o.push_str("\")");
        o
    } else { coq_str(s) }
}
fn pos_c(p: &nitrogql_ast::base::Pos) -> String {
    if p.builtin && p.line == 0 && p.column == 0 && p.file == 0 { "P0".into() }
    else if !p.builtin && p.file == 0 { format!("(P {} {})", p.line, p.column) }
    else { ast_coq::pos(p) }
}
fn ops_coq(ops: &[Wop]) -> String {
    coq_list(ops, |o| match o {
        Wop::W(s) => format!("W {}", coq_s(s)),
        Wop::WF(s, p, n) => match n {
            Some(n) if n == s => format!("WS {} {}", coq_s(s), pos_c(p)),
            _ => format!("WF {} {} {}", coq_s(s), pos_c(p), coq_opt(n, |x| coq_s(x))),
        },
        Wop::Indent => "Indent".into(),
        Wop::Dedent => "Dedent".into(),
    })
}

/// names the schema printer declares: the `write_for` following a `write_for("export type " | "type ")`
fn declared_schema(ops: &[Wop]) -> Vec<String> {
    let mut out = vec![];
    for w in ops.windows(2) {
        if let (Wop::WF(k, _, _), Wop::WF(n, _, _)) = (&w[0], &w[1]) { if k == "export type " || k == "type " { out.push(n.clone()); } }
    }
    out
}
/// names the resolvers printer declares: the `write_for` following a `write` that ends in "type "
fn declared_resolvers(ops: &[Wop]) -> Vec<String> {
    let mut out = vec![];
    for w in ops.windows(2) {
        if let (Wop::W(k), Wop::WF(n, _, _)) = (&w[0], &w[1]) { if k.ends_with("type ") { out.push(n.clone()); } }
    }
    out
}

// ------------------------------------------------------------------ running the printers

fn panic_site(msg: &str) -> u64 {
    if msg.contains("Local type name not generated") { 1 }
    else if msg.contains("Type system error") { 2 }
    else if msg.contains("'type' argument is required") { 3 }
    else if msg.contains("object not found") || msg.contains("called `Option::unwrap()`") { 4 }
    else { 99 }
}
/// (Coq term of `res (list wop)`, short json, text)
fn run_schema(doc: &TypeSystemDocument, o: &SOpts) -> (String, J, Option<(String, Vec<Wop>)>) {
    let r = catch(AssertUnwindSafe(|| {
        let mut w = Rec::new();
        let res = SchemaTypePrinter::new(o.to_rust(), &mut w).print_document(doc);
        (w, res.map_err(|e| (format!("{e}"), format!("{e:?}"))))
    }));
    match r {
        Err(msg) => (format!("(Panic {})", coq_n(panic_site(&msg))), json!({"panic": msg}), None),
        Ok((_, Err((disp, dbg)))) => {
            // Display: Type for scalar 'X' is not provided; Debug: ScalarTypeNotProvided { position: Pos { line: 1, column: 2, file: 0, builtin: false }, name: "X" }
            let name = disp.split('\'').nth(1).unwrap_or("").to_string();
            let num = |k: &str| -> u64 { dbg.split(&format!("{k}: ")).nth(1).and_then(|r| r.split(|c: char| !c.is_ascii_digit()).next()).and_then(|d| d.parse().ok()).unwrap_or(999999) };
            let builtin = dbg.contains("builtin: true");
            (format!("(ErrScalar {} (mkPos {} {} {} {}))", coq_str(&name), num("line"), num("column"), num("file"), coq_bool(builtin)),
             json!({"error": disp}), None)
        }
        Ok((w, Ok(()))) => { let c = w.coalesced(); (format!("(Ok {})", ops_coq(&c)), json!("ok"), Some((w.text(), c))) }
    }
}
struct ROpts { root: String, output: String, source: String, ns: String }
impl ROpts {
    fn to_rust(&self) -> ResolverTypePrinterOptions {
        ResolverTypePrinterOptions { root_resolver_type: self.root.clone(), resolver_output_type: self.output.clone(),
            schema_source: self.source.clone(), schema_root_namespace: self.ns.clone() }
    }
    fn coq(&self) -> String { format!("(mkROpts {} {} {} {})", coq_str(&self.root), coq_str(&self.output), coq_str(&self.source), coq_str(&self.ns)) }
    fn json(&self) -> J { json!({"rootResolverType": self.root, "resolverOutputType": self.output, "schemaSource": self.source, "schemaRootNamespace": self.ns}) }
}
fn run_resolvers(doc: &TypeSystemDocument, o: &ROpts, plugins: usize) -> (String, J, Option<(String, Vec<Wop>)>) {
    let r = catch(AssertUnwindSafe(|| {
        let ps: Vec<Plugin> = (0..plugins).map(|_| Plugin::new(Box::new(ModelPlugin {}))).collect();
        let mut w = Rec::new();
        let res = ResolverTypePrinter::new(o.to_rust(), &mut w).print_document(doc, &ps);
        (w, res.map_err(|e| format!("{e}")))
    }));
    match r {
        Err(msg) => (format!("(Panic {})", coq_n(panic_site(&msg))), json!({"panic": msg}), None),
        Ok((_, Err(e))) => ("(Panic 98%N)".into(), json!({"error": e}), None),
        Ok((w, Ok(()))) => { let c = w.coalesced(); (format!("(Ok {})", ops_coq(&c)), json!("ok"), Some((w.text(), c))) }
    }
}

// ------------------------------------------------------------------ case construction

const COLLIDE_NAMES: &[&str] = &["Date", "string", "number", "boolean", "Record", "Array", "URL", "MyDate", "JSON", "x", "Y", "a", "bigint", "unknown",
    "Context", "Omit", "Pick", "Promise", "Schema", "Resolvers", "ResolverOutput", "GraphQLResolveInfo", "null", "undefined", "never", "abc_def", "_x9"];

struct Built { text: String, features: Vec<String>, type_names: Vec<String>, scalar_names: Vec<String>, has_model: bool }

fn build_schema(rng: &mut Rng, malformed: bool) -> Built {
    let custom = rng.chance(1, 3);
    let mut s = gen_schema(rng, &SchemaCfg { descriptions: true, custom_directives: custom });
    let mut x = Extras::default();
    let mut features: Vec<String> = vec![];
    // renames that collide with TS identifiers used by scalar mappings / the resolvers file
    if rng.chance(1, 2) {
        for _ in 0..rng.range(1, 3) {
            let cands: Vec<String> = s.types.iter().filter(|t| !matches!(t.kind, Kind::Scalar) && t.name != s.query
                && Some(&t.name) != s.mutation.as_ref() && Some(&t.name) != s.subscription.as_ref()).map(|t| t.name.clone()).collect();
            if cands.is_empty() { break; }
            let from = rng.pick(&cands).clone();
            let to = (*rng.pick(COLLIDE_NAMES)).to_string();
            if s.types.iter().any(|t| t.name == to) || BUILTIN_SCALARS.contains(&to.as_str()) { continue; }
            rename(&mut s, &from, &to);
            features.push(format!("rename:{to}"));
        }
    }
    // odd descriptions everywhere
    if rng.chance(2, 3) {
        features.push("odd-descriptions".into());
        for t in s.types.iter_mut() {
            if rng.chance(1, 3) { t.desc = Some(odd_description(rng)); }
            match &mut t.kind {
                Kind::Object { fields, .. } | Kind::Interface { fields, .. } => for f in fields.iter_mut() {
                    if rng.chance(1, 4) { f.desc = Some(odd_description(rng)); }
                    for a in f.args.iter_mut() { if rng.chance(1, 4) { a.desc = Some(odd_description(rng)); } }
                },
                Kind::Input { fields } => for f in fields.iter_mut() { if rng.chance(1, 3) { f.desc = Some(odd_description(rng)); } },
                _ => {}
            }
        }
    }
    // deprecations: bare, odd reasons, non-string reason; also on input fields
    for t in s.types.iter() {
        let tn = t.name.clone();
        let mut add = |rng: &mut Rng, f: &str| {
            let v = match rng.below(5) { 0 => None, 1 => Some(quote(&odd_description(rng))), 2 => Some("null".to_string()), 3 => Some("\"use */ other\"".to_string()), _ => Some("\"why not\"".to_string()) };
            x.deprecated.insert((tn.clone(), f.to_string()), v);
        };
        match &t.kind {
            Kind::Object { fields, .. } | Kind::Interface { fields, .. } => for f in fields { if rng.chance(1, 8) { add(rng, &f.name); } },
            Kind::Input { fields } => for f in fields { if !f.ty.is_nonnull() && rng.chance(1, 5) { add(rng, &f.name); } },
            _ => {}
        }
    }
    if !x.deprecated.is_empty() { features.push("deprecations".into()); }
    // @model
    let mut has_model = false;
    if rng.chance(1, 2) {
        has_model = true; x.declare_model = true; features.push("model".into());
        for t in s.types.iter() {
            if let Kind::Object { fields, .. } = &t.kind {
                match rng.below(6) {
                    0 => { x.model_obj.insert(t.name.clone(), Some(format!("type: {}", quote(*rng.pick(&["MyModel", "import('./m').M", "{ id: string }", "Date", "a) | (b"]))))); }
                    1 | 2 => for f in fields { if rng.chance(1, 2) { x.model_fields.insert((t.name.clone(), f.name.clone())); } },
                    3 if malformed => { x.model_obj.insert(t.name.clone(), if rng.chance(1, 2) { None } else { Some("type: null".into()) }); features.push("model-without-type".into()); }
                    _ => {}
                }
            }
        }
    }
    // @nitrogql_ts_type on custom scalars
    let scalar_names: Vec<String> = s.types.iter().filter(|t| matches!(t.kind, Kind::Scalar)).map(|t| t.name.clone()).collect();
    let type_names: Vec<String> = s.types.iter().map(|t| t.name.clone()).collect();
    for n in &scalar_names {
        if rng.chance(1, 3) {
            x.declare_ts_type = true;
            let mut kv: Vec<(String, String)> = ["resolverInput", "resolverOutput", "operationInput", "operationOutput"].iter()
                .map(|k| (k.to_string(), quote(&ts_text(rng, &type_names)))).collect();
            if malformed && rng.chance(1, 2) { kv.pop(); features.push("ts-type-directive-incomplete".into()); }
            if rng.chance(1, 4) { rng.shuffle(&mut kv); }
            x.ts_type.insert(n.clone(), kv);
            features.push("ts-type-directive".into());
        }
    }
    if malformed {
        // structural faults the printers are not protected against by `check`
        match rng.below(4) {
            0 => { // drop a type definition: dangling references
                let cands: Vec<usize> = (0..s.types.len()).filter(|i| s.types[*i].name != s.query).collect();
                if !cands.is_empty() { let i = *rng.pick(&cands); features.push(format!("dropped:{}", s.types[i].name)); s.types.remove(i); }
            }
            1 => { // a field of an undefined type
                if let Some(t) = s.types.iter_mut().find(|t| matches!(t.kind, Kind::Object { .. } | Kind::Input { .. })) {
                    match &mut t.kind {
                        Kind::Object { fields, .. } => fields.push(Field { name: "zz".into(), args: vec![], ty: Ty::Named("Nowhere".into()), deprecated: false, desc: None }),
                        Kind::Input { fields } => fields.push(Arg { name: "zz".into(), ty: Ty::Named("Nowhere".into()), default: None, desc: None }),
                        _ => {}
                    }
                    features.push("undefined-field-type".into());
                }
            }
            2 => { // union member / implemented interface that does not exist
                s.types.push(TypeDef { name: "UBad".into(), kind: Kind::Union { members: vec!["Ghost".into(), s.query.clone()] }, desc: None });
                features.push("undefined-union-member".into());
            }
            _ => {}
        }
    }
    // the malformed stream may have dropped or added definitions: recompute what the schema defines
    let scalar_names: Vec<String> = s.types.iter().filter(|t| matches!(t.kind, Kind::Scalar)).map(|t| t.name.clone()).collect();
    let type_names: Vec<String> = s.types.iter().map(|t| t.name.clone()).collect();
    let text = render(&s, &x, rng.chance(1, 2));
    Built { text, features, type_names, scalar_names, has_model }
}

/// every wrapper nesting up to `depth` list levels (each level and the leaf nullable or not) over every
/// kind of leaf, one single-field object / input object per nesting: the exhaustive small-scope part
fn wrapper_schema(depth: usize) -> Built {
    let mut nestings: Vec<Vec<String>> = vec![vec!["@".into(), "@!".into()]];
    for d in 0..depth {
        let next: Vec<String> = nestings[d].iter().flat_map(|x| vec![format!("[{x}]"), format!("[{x}]!")]).collect();
        nestings.push(next);
    }
    let all: Vec<String> = nestings.into_iter().flatten().collect();
    let mut text = String::from("scalar Date\nenum E { A B }\ninput In { x: Int }\ninterface Node { id: ID }\ntype Obj implements Node { id: ID }\nunion U = Obj\ntype Query { a: Int }\ntype Args { f(i: ID, r: ID!, l: [ID!]!, ll: [[ID]!], d: Date, dl: [Date!], e: E!, n: In, nl: [In!]!): Int g(s: String = \"x\"): [Obj!]! }\n");
    let mut type_names: Vec<String> = ["Date", "E", "In", "Node", "Obj", "U", "Query", "Args"].iter().map(|s| s.to_string()).collect();
    for leaf in ["Int", "Date", "E", "Obj", "Node", "U"] {
        for (k, n) in all.iter().enumerate() {
            let _ = writeln!(text, "type W{leaf}{k} {{ f: {} }}", n.replace('@', leaf));
            type_names.push(format!("W{leaf}{k}"));
        }
    }
    for leaf in ["Int", "Date", "E", "In"] {
        for (k, n) in all.iter().enumerate() {
            let _ = writeln!(text, "input V{leaf}{k} {{ f: {} }}", n.replace('@', leaf));
            type_names.push(format!("V{leaf}{k}"));
        }
    }
    Built { text, features: vec![format!("all-wrapper-nestings-to-depth-{depth}")], type_names, scalar_names: vec!["Date".into()], has_model: false }
}

fn schema_opts(rng: &mut Rng, b: &Built, malformed: bool) -> SOpts {
    let mut scalars = builtin_scalars();
    if rng.chance(1, 6) { let i = rng.below(scalars.len()); scalars[i].1 = scalar_cfg(rng, &b.type_names); }
    for n in &b.scalar_names {
        // a custom scalar without configuration is an error of the printer; keep it rare outside the malformed stream
        if rng.chance(if malformed { 2 } else { 1 }, 12) { continue; }
        scalars.push((n.clone(), scalar_cfg(rng, &b.type_names)));
    }
    if rng.chance(1, 8) { scalars.push(("NotInSchema".into(), ScalarTypeConfig::Single(rng.pick(&b.type_names).clone()))); }
    if malformed && rng.chance(1, 4) { let i = rng.below(scalars.len()); scalars.remove(i); }
    SOpts { scalars, meta: if rng.chance(1, 5) { "Meta".into() } else { "__nitrogql_schema".into() }, optional: rng.chance(1, 2), runtime: rng.chance(1, 3) }
}

fn main() {
    silence_panics();
    let args = parse_args();
    if let Some(i) = args.extra.iter().position(|a| a == "--probe") {
        // development aid: print what the real printers emit for one SDL file
        let src = std::fs::read_to_string(&args.extra[i + 1]).unwrap();
        let doc = load_schema(&src).expect("load");
        println!("check errors: {:?}", check_schema(&doc).iter().map(|e| format!("{:?}", e.message)).collect::<Vec<_>>());
        let mut scalars = builtin_scalars();
        for a in args.extra.iter().skip(i + 2) { if let Some((k, v)) = a.split_once('=') { scalars.push((k.into(), ScalarTypeConfig::Single(v.into()))); } }
        let o = SOpts { scalars, meta: "__nitrogql_schema".into(), optional: true, runtime: false };
        let (_, j, text) = run_schema(&doc, &o);
        println!("--- schema: {j}\n{}", text.map(|x| x.0).unwrap_or_default());
        let (_, j, text) = run_resolvers(&doc, &ROpts { root: "Resolvers".into(), output: "ResolverOutput".into(), source: "schema".into(), ns: "Schema".into() }, 0);
        println!("--- resolvers: {j}\n{}", text.map(|x| x.0).unwrap_or_default());
        return;
    }
    let mut rng = Rng::new(args.seed);
    let thorough = args.tier == "thorough";
    let mut cases = Cases::new("From V Require Import Base.Util Gql.Ast Writer.Wop Ts.TsType C10.Model C10.Corr.", "case", "agree", "holds", 5);
    let mut distinct: HashSet<String> = HashSet::new();
    let mut dist: BTreeMap<String, u64> = BTreeMap::new();
    let mut bump = |k: &str| { *dist.entry(k.to_string()).or_insert(0) += 1; };
    let n_valid = if thorough { 1500 } else { 200 };
    let n_malformed = if thorough { 300 } else { 40 };
    let mut samples: Vec<J> = vec![];
    let mut name_cases: Vec<(String, J)> = vec![];
    let mut n_evals: u64 = 0;
    let mut specials: Vec<Built> = vec![wrapper_schema(if thorough { 3 } else { 2 })];
    specials.reverse();
    let n_special = specials.len();
    for i in 0..(n_special + n_valid + n_malformed) {
        let malformed = i >= n_special + n_valid;
        let b = match specials.pop() { Some(b) => b, None => build_schema(&mut rng, malformed) };
        let doc = match load_schema(&b.text) {
            Ok(d) => d,
            Err(e) => { bump(&format!("schema-load-error:{}", e.split(':').next().unwrap_or(""))); continue; }
        };
        let errors = check_schema(&doc);
        let valid = errors.is_empty();
        bump(if valid { "schemas-valid" } else { "schemas-invalid" });
        if !valid && !malformed { bump("unexpected-invalid-in-valid-stream"); }
        let mut sruns = vec![]; let mut sj = vec![];
        let n_s = if thorough || i % 3 == 0 { 3 } else { 2 };
        for _ in 0..n_s {
            let o = schema_opts(&mut rng, &b, malformed);
            let (term, j, text) = run_schema(&doc, &o);
            for (_, c) in &o.scalars { bump(&format!("scalar-config:{}", cfg_shape(c))); }
            let idents: HashSet<&str> = o.scalars.iter().flat_map(|(_, c)| cfg_texts(c)).flat_map(|t| t.split(|c: char| !(c.is_ascii_alphanumeric() || c == '_'))).collect();
            if b.type_names.iter().any(|n| idents.contains(n.as_str())) { bump("runs-with-renamed-local-types"); }
            bump(if j == json!("ok") { "schema-run:ok" } else if j.get("error").is_some() { "schema-run:scalar-error" } else { "schema-run:panic" });
            if let Some((t, _)) = &text { if t.contains("*\\/") { bump("schema-run:escaped-close-comment"); } }
            if let (Some((_, ops)), true) = (&text, valid) {
                let locals = declared_schema(ops);
                let texts: Vec<String> = o.scalars.iter().filter(|(k, _)| b.scalar_names.contains(k) || BUILTIN_SCALARS.contains(&k.as_str()))
                    .flat_map(|(_, c)| cfg_texts(c).into_iter().map(|s| s.to_string()).collect::<Vec<_>>()).collect();
                name_cases.push((format!("NKeyword {}", coq_list(&locals, |l| coq_str(l))),
                                 json!({"kind": "keyword-names", "schema": b.text, "declared": locals})));
                name_cases.push((format!("NCapture {} {}", coq_list(&locals, |l| coq_str(l)), coq_list(&texts, |l| coq_str(l))),
                                 json!({"kind": "scalar-identifier-capture", "schema": b.text, "options": o.json(), "declared": locals, "scalar_texts": texts})));
            }
            n_evals += 1;
            sruns.push(format!("({}, {})", o.coq(), term));
            sj.push(json!({"options": o.json(), "result": j}));
        }
        let mut rruns = vec![]; let mut rj = vec![];
        for k in 0..2 {
            let plugins = if k == 0 { 0 } else if b.has_model { rng.range(1, 2) } else { 1 };
            let o = if rng.chance(1, 4) { ROpts { root: "R".into(), output: "Out".into(), source: "../gen/sch\"ema".into(), ns: "S".into() } }
                    else { ROpts { root: "Resolvers".into(), output: "ResolverOutput".into(), source: "schema".into(), ns: "Schema".into() } };
            let (term, j, rtext) = run_resolvers(&doc, &o, plugins);
            if let (Some((_, ops)), true) = (&rtext, valid) {
                let aliases = declared_resolvers(ops);
                name_cases.push((format!("NReserved {} {}", coq_list(&aliases, |l| coq_str(l)), o.coq()),
                                 json!({"kind": "resolver-file-names", "schema": b.text, "options": o.json(), "declared": aliases})));
            }
            bump(if j == json!("ok") { "resolver-run:ok" } else { "resolver-run:panic" });
            bump(&format!("resolver-run:plugins={plugins}"));
            n_evals += 1;
            rruns.push(format!("({}, {}%nat, {})", o.coq(), plugins, term));
            rj.push(json!({"options": o.json(), "modelPlugins": plugins, "result": j}));
        }
        for f in &b.features { bump(&format!("feature:{}", f.split(':').next().unwrap())); }
        distinct.insert(b.text.clone());
        let d = json!({"kind": "doc", "schema": b.text, "checked": valid, "stream": if malformed { "malformed" } else { "valid" }, "features": b.features,
                       "schema_runs": sj, "resolver_runs": rj});
        if samples.len() < 3 && i % 97 == 0 { samples.push(d.clone()); }
        cases.push(format!("CDoc {} {} [{}] [{}]", coq_bool(valid), ast_coq::tsdoc(&doc), sruns.join("; "), rruns.join("; ")), d);
    }
    // the declared-name cases are tiny; they follow the documents
    for _ in 0..name_cases.len() { bump("name-checks"); }
    // homogeneous batches (one kind of check per case), so that each failing batch maps to one finding class
    name_cases.sort_by_key(|(t, _)| t.split(' ').next().unwrap_or("").to_string());
    let mut batches: Vec<&[(String, J)]> = vec![];
    let mut start = 0;
    for i in 1..=name_cases.len() {
        let boundary = i == name_cases.len() || name_cases[i].0.split(' ').next() != name_cases[start].0.split(' ').next() || i - start == 250;
        if boundary { batches.push(&name_cases[start..i]); start = i; }
    }
    for chunk in batches {
        cases.push(format!("CNames {}", coq_list(chunk, |(t, _)| t.clone())), json!({"kind": "names", "items": chunk.iter().map(|(_, d)| d.clone()).collect::<Vec<_>>()}));
    }
    // jsdoc on its own: fixed pool + random strings over an adversarial alphabet, packed 70 per case
    let n_js = if thorough { 7000 } else { 1050 };
    let mut batch: Vec<(String, String)> = vec![]; let mut batch_j: Vec<J> = vec![];
    for i in 0..n_js {
        let d = if i < ODD_DESCRIPTIONS.len() { ODD_DESCRIPTIONS[i].to_string() } else { odd_description(&mut rng) };
        let mut w = Rec::new();
        print_description(&d, &mut w);
        if d.contains("*/") { bump("jsdoc:contains-close"); }
        bump("jsdoc");
        n_evals += 1;
        distinct.insert(format!("jsdoc|{d}"));
        batch.push((coq_str(&d), ops_coq(&w.coalesced())));
        batch_j.push(json!({"description": d, "text": w.text()}));
        if batch.len() == 70 || i + 1 == n_js {
            cases.push(format!("CJsdoc {}", coq_list(&batch, |(d, o)| format!("({d}, {o})"))), json!({"kind": "jsdoc", "items": batch_j}));
            batch.clear(); batch_j = vec![];
        }
    }
    // jsdoc cases are cheap: they share shards with the documents; keep shard size moderate
    cases.write(&args.out);
    if let Some(l) = cases.descr.last() { samples.push(l.clone()); }
    write_meta(&args.out, &json!({
        "evaluations": n_evals,
        "distinct_nontrivial": distinct.len(),
        "rule": "one evaluation = one run of a real printer (SchemaTypePrinter / ResolverTypePrinter on one schema under one configuration, or print_description on one string); one case = one generated schema (gen.rs, valid by construction, then renamed types colliding with TS identifiers, odd descriptions, deprecations, @model, @nitrogql_ts_type) printed by SchemaTypePrinter under 3 scalar configurations/options and by ResolverTypePrinter with 0 and 1-2 model plugins, or one description string through print_description; distinct = distinct schema texts / description strings; a malformed stream (dangling type references, missing scalar configuration, @model without type) exercises the error and panic paths",
        "samples": samples,
        "distribution": dist,
    }));
}
