//! C15: one schema model, two descriptions.  For every generated schema model M the harness renders the SDL
//! text and, independently of nitrogql, builds the JSON answer of the standard introspection query; it runs the
//! real SDL route (parse + built-ins + resolve_schema_extensions + ast_to_type_system) and the real JSON route
//! (schema_from_introspection_json, then type_system_to_ast / ast_to_type_system for the printers), dumps both
//! `Schema` values as Coq terms, checks generated operation documents under both, prints the schema declaration
//! file on both routes through the recording writer, and writes everything as cases for coq/C15/Corr.v.
//! A second stream feeds mutated / malformed JSON trees to schema_from_introspection_json.
use graphql_type_system::{Node, OriginalNodeRef, Schema, Type, TypeDefinition};
use nitrogql_ast::base::Pos;
use nitrogql_introspection::schema_from_introspection_json;
use nitrogql_printer::{SchemaTypePrinter, SchemaTypePrinterOptions};
use nitrogql_semantics::{ast_to_type_system, type_system_to_ast};
use serde_json::json;
use std::borrow::Cow;
use std::collections::{BTreeMap, HashSet};
use std::fmt::Write as _;
use std::panic::AssertUnwindSafe;
use verif_harness::gen::{self, gen_doc, gen_schema, DocCfg, Kind, SchemaCfg, Ty, BUILTIN_SCALARS};
use verif_harness::pipeline::*;
use verif_harness::rec::{wops_coq, Rec};
use verif_harness::*;

// ------------------------------------------------------------------ JSON trees

#[derive(Clone, Debug, PartialEq)]
pub enum J { Null, Bool(bool), Num(String), Str(String), Arr(Vec<J>), Obj(Vec<(String, J)>) }
impl J {
    fn render(&self, out: &mut String) {
        match self {
            J::Null => out.push_str("null"),
            J::Bool(b) => out.push_str(if *b { "true" } else { "false" }),
            J::Num(n) => out.push_str(n),
            J::Str(s) => out.push_str(&serde_json::to_string(s).unwrap()),
            J::Arr(l) => { out.push('['); for (i, x) in l.iter().enumerate() { if i > 0 { out.push(','); } x.render(out); } out.push(']'); }
            J::Obj(l) => { out.push('{'); for (i, (k, x)) in l.iter().enumerate() { if i > 0 { out.push(','); } out.push_str(&serde_json::to_string(k).unwrap()); out.push(':'); x.render(out); } out.push('}'); }
        }
    }
    fn text(&self) -> String { let mut s = String::new(); self.render(&mut s); s }
    fn coq(&self) -> String {
        match self {
            J::Null => "JNull".into(),
            J::Bool(b) => format!("(JBool {})", coq_bool(*b)),
            J::Num(n) => format!("(JNum {})", coq_str(n)),
            J::Str(s) => format!("(JStr {})", coq_str(s)),
            J::Arr(l) => format!("(JArr {})", coq_list(l, |x| x.coq())),
            J::Obj(l) => format!("(JObj {})", coq_list(l, |(k, v)| format!("({}, {})", coq_str(k), v.coq()))),
        }
    }
}
fn jstr(s: &str) -> J { J::Str(s.to_string()) }
fn jopt(s: &Option<String>) -> J { match s { None => J::Null, Some(s) => J::Str(s.clone()) } }

// ------------------------------------------------------------------ schema models (coq/C15/Spec.v smodel)

type Depr = Option<Option<String>>;
#[derive(Clone, Debug)]
struct MArg { name: String, desc: Option<String>, ty: Ty, default: Option<String>, depr: Depr }
#[derive(Clone, Debug)]
struct MField { name: String, desc: Option<String>, args: Vec<MArg>, ty: Ty, depr: Depr }
#[derive(Clone, Debug)]
struct MVal { name: String, desc: Option<String>, depr: Depr }
#[derive(Clone, Debug)]
enum MKind { Scalar, Object(Vec<String>, Vec<MField>), Interface(Vec<String>, Vec<MField>), Union(Vec<String>), Enum(Vec<MVal>), Input(Vec<MArg>) }
#[derive(Clone, Debug)]
struct MType { name: String, desc: Option<String>, kind: MKind }
#[derive(Clone, Debug)]
struct MDir { name: String, desc: Option<String>, args: Vec<MArg>, repeatable: bool, locs: Vec<String> }
#[derive(Clone, Debug)]
struct M { desc: Option<String>, types: Vec<MType>, dirs: Vec<MDir>, query: String, mutation: Option<String>, subscription: Option<String>, explicit: bool }

fn coq_ty(t: &Ty) -> String {
    match t { Ty::Named(n) => format!("(GNamed {})", coq_str(n)), Ty::List(i) => format!("(GList {})", coq_ty(i)), Ty::NonNull(i) => format!("(GNonNull {})", coq_ty(i)) }
}
fn coq_ostr(o: &Option<String>) -> String { coq_opt(o, |s| coq_str(s)) }
fn coq_depr(d: &Depr) -> String { coq_opt(d, |r| coq_ostr(r)) }
fn coq_marg(a: &MArg) -> String { format!("(mkMArg {} {} {} {} {})", coq_str(&a.name), coq_ostr(&a.desc), coq_ty(&a.ty), coq_ostr(&a.default), coq_depr(&a.depr)) }
fn coq_mfield(f: &MField) -> String { format!("(mkMField {} {} {} {} {})", coq_str(&f.name), coq_ostr(&f.desc), coq_list(&f.args, coq_marg), coq_ty(&f.ty), coq_depr(&f.depr)) }
fn coq_strs(l: &[String]) -> String { coq_list(l, |s| coq_str(s)) }
fn coq_mtype(t: &MType) -> String {
    let k = match &t.kind {
        MKind::Scalar => "MScalar".to_string(),
        MKind::Object(i, f) => format!("(MObject {} {})", coq_strs(i), coq_list(f, coq_mfield)),
        MKind::Interface(i, f) => format!("(MInterface {} {})", coq_strs(i), coq_list(f, coq_mfield)),
        MKind::Union(ms) => format!("(MUnion {})", coq_strs(ms)),
        MKind::Enum(vs) => format!("(MEnum {})", coq_list(vs, |v| format!("(mkMVal {} {} {})", coq_str(&v.name), coq_ostr(&v.desc), coq_depr(&v.depr)))),
        MKind::Input(fs) => format!("(MInput {})", coq_list(fs, coq_marg)),
    };
    format!("(mkMType {} {} {})", coq_str(&t.name), coq_ostr(&t.desc), k)
}
fn coq_model(m: &M) -> String {
    format!("(mkModel {} {} {} {} {} {} {})", coq_ostr(&m.desc), coq_list(&m.types, coq_mtype),
        coq_list(&m.dirs, |d| format!("(mkMDir {} {} {} {} {})", coq_str(&d.name), coq_ostr(&d.desc), coq_list(&d.args, coq_marg), coq_bool(d.repeatable), coq_strs(&d.locs))),
        coq_str(&m.query), coq_ostr(&m.mutation), coq_ostr(&m.subscription), coq_bool(m.explicit))
}

const DESCS: &[&str] = &["a description", "two\nlines", "with \"quotes\"", "back\\slash", "tick ` and ${x}", "unicode é 日本", "ends */ comment"];
const REASONS: &[&str] = &["old", "use other", "No longer supported", "", "why \"q\""];

fn rand_depr(rng: &mut Rng, p: usize) -> Depr {
    if !rng.chance(1, p) { return None; }
    if rng.chance(1, 3) { Some(None) } else { Some(Some(rng.pick(REASONS).to_string())) }
}
fn rand_desc(rng: &mut Rng, p: usize) -> Option<String> { if rng.chance(1, p) { Some(rng.pick(DESCS).to_string()) } else { None } }

/// gen.rs schema (valid by construction) -> model, enriched with what gen.rs does not generate: descriptions on
/// arguments / enum values / directives / the schema, deprecation of enum values, arguments and input fields,
/// deprecation without a reason
fn model_of(rng: &mut Rng, s: &gen::Schema, rich: bool) -> M {
    fn arg(rng: &mut Rng, a: &gen::Arg, input_field: bool, rich: bool) -> MArg {
        let optional = !a.ty.is_nonnull() || a.default.is_some();
        MArg { name: a.name.clone(), desc: if rich && !input_field { rand_desc(rng, 8) } else { a.desc.clone() }, ty: a.ty.clone(), default: a.default.clone(),
               depr: if rich && optional { rand_depr(rng, 10) } else { None } }
    }
    fn field(rng: &mut Rng, f: &gen::Field, rich: bool) -> MField {
        MField { name: f.name.clone(), desc: f.desc.clone(), args: f.args.iter().map(|a| arg(rng, a, false, rich)).collect(), ty: f.ty.clone(),
            depr: if f.deprecated { if rich { rand_depr(rng, 1) } else { Some(Some("old".into())) } } else { None } }
    }
    let mut types = vec![];
    for t in &s.types {
        let kind = match &t.kind {
            Kind::Scalar => MKind::Scalar,
            Kind::Object { implements, fields } => MKind::Object(implements.clone(), fields.iter().map(|f| field(rng, f, rich)).collect()),
            Kind::Interface { implements, fields } => MKind::Interface(implements.clone(), fields.iter().map(|f| field(rng, f, rich)).collect()),
            Kind::Union { members } => MKind::Union(members.clone()),
            Kind::Enum { values } => MKind::Enum(values.iter().map(|v| MVal { name: v.clone(), desc: if rich { rand_desc(rng, 6) } else { None }, depr: if rich { rand_depr(rng, 8) } else { None } }).collect()),
            Kind::Input { fields } => MKind::Input(fields.iter().map(|a| arg(rng, a, true, rich)).collect()),
        };
        types.push(MType { name: t.name.clone(), desc: t.desc.clone(), kind });
    }
    let mut dirs = vec![];
    for d in &s.directives {
        dirs.push(MDir { name: d.name.clone(), desc: if rich { rand_desc(rng, 3) } else { None }, args: d.args.iter().map(|a| arg(rng, a, false, rich)).collect(), repeatable: d.repeatable, locs: d.locations.clone() });
    }
    M { desc: if rich && s.explicit_schema_def { rand_desc(rng, 3) } else { None }, types, dirs, query: s.query.clone(), mutation: s.mutation.clone(), subscription: s.subscription.clone(), explicit: s.explicit_schema_def }
}

// ------------------------------------------------------------------ SDL text of a model

fn quote(s: &str) -> String {
    let mut o = String::from("\"");
    for c in s.chars() { match c { '"' => o.push_str("\\\""), '\\' => o.push_str("\\\\"), '\n' => o.push_str("\\n"), c => o.push(c) } }
    o.push('"');
    o
}
fn sdl_desc(d: &Option<String>, ind: &str, out: &mut String) { if let Some(d) = d { let _ = writeln!(out, "{ind}{}", quote(d)); } }
fn sdl_depr(d: &Depr) -> String { match d { None => String::new(), Some(None) => " @deprecated".into(), Some(Some(r)) => format!(" @deprecated(reason: {})", quote(r)) } }
fn sdl_args(args: &[MArg]) -> String {
    if args.is_empty() { return String::new(); }
    let parts: Vec<String> = args.iter().map(|a| format!("{}{}: {}{}{}", a.desc.as_ref().map(|d| format!("{} ", quote(d))).unwrap_or_default(), a.name, a.ty.render(),
        a.default.as_ref().map(|d| format!(" = {d}")).unwrap_or_default(), sdl_depr(&a.depr))).collect();
    format!("({})", parts.join(", "))
}
fn sdl_fields(fs: &[MField], out: &mut String) {
    out.push_str(" {\n");
    for f in fs { sdl_desc(&f.desc, "  ", out); let _ = writeln!(out, "  {}{}: {}{}", f.name, sdl_args(&f.args), f.ty.render(), sdl_depr(&f.depr)); }
    out.push_str("}\n");
}
/// `order`: indices into m.types
fn render_sdl(m: &M, order: &[usize]) -> String {
    let mut out = String::new();
    if m.explicit {
        sdl_desc(&m.desc, "", &mut out);
        let _ = writeln!(out, "schema {{\n  query: {}", m.query);
        if let Some(x) = &m.mutation { let _ = writeln!(out, "  mutation: {x}"); }
        if let Some(x) = &m.subscription { let _ = writeln!(out, "  subscription: {x}"); }
        out.push_str("}\n");
    }
    for d in &m.dirs {
        sdl_desc(&d.desc, "", &mut out);
        let _ = writeln!(out, "directive @{}{}{} on {}", d.name, sdl_args(&d.args), if d.repeatable { " repeatable" } else { "" }, d.locs.join(" | "));
    }
    let imp = |i: &Vec<String>| if i.is_empty() { String::new() } else { format!(" implements {}", i.join(" & ")) };
    for &i in order {
        let t = &m.types[i];
        sdl_desc(&t.desc, "", &mut out);
        match &t.kind {
            MKind::Scalar => { let _ = writeln!(out, "scalar {}", t.name); }
            MKind::Object(i, fs) => { let _ = write!(out, "type {}{}", t.name, imp(i)); sdl_fields(fs, &mut out); }
            MKind::Interface(i, fs) => { let _ = write!(out, "interface {}{}", t.name, imp(i)); sdl_fields(fs, &mut out); }
            MKind::Union(ms) => { let _ = writeln!(out, "union {} = {}", t.name, ms.join(" | ")); }
            MKind::Enum(vs) => { let _ = writeln!(out, "enum {} {{", t.name); for v in vs { sdl_desc(&v.desc, "  ", &mut out); let _ = writeln!(out, "  {}{}", v.name, sdl_depr(&v.depr)); } out.push_str("}\n"); }
            MKind::Input(fs) => {
                let _ = writeln!(out, "input {} {{", t.name);
                for f in fs { sdl_desc(&f.desc, "  ", &mut out); let _ = writeln!(out, "  {}: {}{}{}", f.name, f.ty.render(), f.default.as_ref().map(|d| format!(" = {d}")).unwrap_or_default(), sdl_depr(&f.depr)); }
                out.push_str("}\n");
            }
        }
    }
    out
}

// ------------------------------------------------------------------ introspection result of a model (independent of nitrogql)

#[derive(Clone, Copy, PartialEq, Debug)]
enum Style { Full, Minimal }
struct Intro<'a> { st: Style, all: &'a [MType] }
impl<'a> Intro<'a> {
    fn okv(&self, k: &str, v: J, out: &mut Vec<(String, J)>) { if self.st == Style::Minimal && v == J::Null { return; } out.push((k.to_string(), v)); }
    fn kind_of(&self, n: &str) -> &'static str { self.all.iter().find(|t| t.name == n).map_or("SCALAR", |t| kind_name(&t.kind)) }
    fn type_ref(&self, t: &Ty) -> J {
        let mut o = vec![];
        match t {
            Ty::Named(n) => { o.push(("kind".into(), jstr(self.kind_of(n)))); o.push(("name".into(), jstr(n))); self.okv("ofType", J::Null, &mut o); }
            Ty::List(i) => { o.push(("kind".into(), jstr("LIST"))); self.okv("name", J::Null, &mut o); o.push(("ofType".into(), self.type_ref(i))); }
            Ty::NonNull(i) => { o.push(("kind".into(), jstr("NON_NULL"))); self.okv("name", J::Null, &mut o); o.push(("ofType".into(), self.type_ref(i))); }
        }
        J::Obj(o)
    }
    fn named(&self, n: &str) -> J { self.type_ref(&Ty::Named(n.to_string())) }
    fn depr(&self, d: &Depr, o: &mut Vec<(String, J)>) {
        if self.st == Style::Minimal && d.is_none() { return; }
        o.push(("isDeprecated".into(), J::Bool(d.is_some())));
        let reason = match d { None => J::Null, Some(None) => jstr("No longer supported"), Some(Some(r)) => jstr(r) };
        self.okv("deprecationReason", reason, o);
    }
    fn input_value(&self, a: &MArg) -> J {
        let mut o = vec![("name".to_string(), jstr(&a.name))];
        self.okv("description", jopt(&a.desc), &mut o);
        o.push(("type".into(), self.type_ref(&a.ty)));
        self.okv("defaultValue", jopt(&a.default), &mut o);
        self.depr(&a.depr, &mut o);
        J::Obj(o)
    }
    fn field(&self, f: &MField) -> J {
        let mut o = vec![("name".to_string(), jstr(&f.name))];
        self.okv("description", jopt(&f.desc), &mut o);
        o.push(("args".into(), J::Arr(f.args.iter().map(|a| self.input_value(a)).collect())));
        o.push(("type".into(), self.type_ref(&f.ty)));
        self.depr(&f.depr, &mut o);
        J::Obj(o)
    }
    fn type_def(&self, t: &MType) -> J {
        let mut o = vec![("kind".to_string(), jstr(kind_name(&t.kind))), ("name".to_string(), jstr(&t.name))];
        self.okv("description", jopt(&t.desc), &mut o);
        self.okv("specifiedByURL", J::Null, &mut o);
        let (mut fields, mut input_fields, mut interfaces, mut enum_values, mut possible) = (J::Null, J::Null, J::Null, J::Null, J::Null);
        match &t.kind {
            MKind::Scalar => {}
            MKind::Object(i, fs) => { fields = J::Arr(fs.iter().map(|f| self.field(f)).collect()); interfaces = J::Arr(i.iter().map(|n| self.named(n)).collect()); }
            MKind::Interface(i, fs) => {
                fields = J::Arr(fs.iter().map(|f| self.field(f)).collect()); interfaces = J::Arr(i.iter().map(|n| self.named(n)).collect());
                possible = J::Arr(self.all.iter().filter(|o| matches!(&o.kind, MKind::Object(im, _) if im.contains(&t.name))).map(|o| self.named(&o.name)).collect());
            }
            MKind::Union(ms) => { possible = J::Arr(ms.iter().map(|n| self.named(n)).collect()); }
            MKind::Enum(vs) => { enum_values = J::Arr(vs.iter().map(|v| { let mut o = vec![("name".to_string(), jstr(&v.name))]; self.okv("description", jopt(&v.desc), &mut o); self.depr(&v.depr, &mut o); J::Obj(o) }).collect()); }
            MKind::Input(fs) => { input_fields = J::Arr(fs.iter().map(|a| self.input_value(a)).collect()); }
        }
        self.okv("fields", fields, &mut o); self.okv("inputFields", input_fields, &mut o); self.okv("interfaces", interfaces, &mut o);
        self.okv("enumValues", enum_values, &mut o); self.okv("possibleTypes", possible, &mut o);
        J::Obj(o)
    }
    fn directive(&self, d: &MDir) -> J {
        let mut o = vec![("name".to_string(), jstr(&d.name))];
        self.okv("description", jopt(&d.desc), &mut o);
        if !(self.st == Style::Minimal && !d.repeatable) { o.push(("isRepeatable".into(), J::Bool(d.repeatable))); }
        o.push(("locations".into(), J::Arr(d.locs.iter().map(|l| jstr(l)).collect())));
        o.push(("args".into(), J::Arr(d.args.iter().map(|a| self.input_value(a)).collect())));
        J::Obj(o)
    }
}
fn kind_name(k: &MKind) -> &'static str {
    match k { MKind::Scalar => "SCALAR", MKind::Object(..) => "OBJECT", MKind::Interface(..) => "INTERFACE", MKind::Union(_) => "UNION", MKind::Enum(_) => "ENUM", MKind::Input(_) => "INPUT_OBJECT" }
}
fn nn(n: &str) -> Ty { Ty::NonNull(Box::new(Ty::Named(n.into()))) }
fn gn(n: &str) -> Ty { Ty::Named(n.into()) }
fn lnn(n: &str) -> Ty { Ty::List(Box::new(nn(n))) }
fn nnl(n: &str) -> Ty { Ty::NonNull(Box::new(lnn(n))) }
fn spec_directives() -> Vec<MDir> {
    let a = |n: &str, ty: Ty, d: Option<&str>| MArg { name: n.into(), desc: None, ty, default: d.map(|s| s.to_string()), depr: None };
    let l = |xs: &[&str]| xs.iter().map(|s| s.to_string()).collect::<Vec<_>>();
    vec![
        MDir { name: "include".into(), desc: None, args: vec![a("if", nn("Boolean"), None)], repeatable: false, locs: l(&["FIELD", "FRAGMENT_SPREAD", "INLINE_FRAGMENT"]) },
        MDir { name: "skip".into(), desc: None, args: vec![a("if", nn("Boolean"), None)], repeatable: false, locs: l(&["FIELD", "FRAGMENT_SPREAD", "INLINE_FRAGMENT"]) },
        MDir { name: "deprecated".into(), desc: None, args: vec![a("reason", gn("String"), Some("\"No longer supported\""))], repeatable: false, locs: l(&["FIELD_DEFINITION", "ARGUMENT_DEFINITION", "INPUT_FIELD_DEFINITION", "ENUM_VALUE"]) },
        MDir { name: "specifiedBy".into(), desc: None, args: vec![a("url", nn("String"), None)], repeatable: false, locs: l(&["SCALAR"]) },
    ]
}
fn meta_types() -> Vec<MType> {
    let f = |n: &str, t: Ty| MField { name: n.into(), desc: None, args: vec![], ty: t, depr: None };
    let fd = |n: &str, t: Ty| MField { name: n.into(), desc: None, args: vec![MArg { name: "includeDeprecated".into(), desc: None, ty: gn("Boolean"), default: Some("false".into()), depr: None }], ty: t, depr: None };
    let en = |n: &str, vs: &[&str]| MType { name: n.into(), desc: None, kind: MKind::Enum(vs.iter().map(|v| MVal { name: v.to_string(), desc: None, depr: None }).collect()) };
    let ob = |n: &str, fs: Vec<MField>| MType { name: n.into(), desc: None, kind: MKind::Object(vec![], fs) };
    vec![
        ob("__Schema", vec![f("description", gn("String")), f("types", nnl("__Type")), f("queryType", nn("__Type")), f("mutationType", gn("__Type")), f("subscriptionType", gn("__Type")), f("directives", nnl("__Directive"))]),
        ob("__Type", vec![f("kind", nn("__TypeKind")), f("name", gn("String")), f("description", gn("String")), f("specifiedByURL", gn("String")), fd("fields", lnn("__Field")), f("interfaces", lnn("__Type")),
                          f("possibleTypes", lnn("__Type")), fd("enumValues", lnn("__EnumValue")), fd("inputFields", lnn("__InputValue")), f("ofType", gn("__Type"))]),
        en("__TypeKind", &["SCALAR", "OBJECT", "INTERFACE", "UNION", "ENUM", "INPUT_OBJECT", "LIST", "NON_NULL"]),
        ob("__Field", vec![f("name", nn("String")), f("description", gn("String")), fd("args", nnl("__InputValue")), f("type", nn("__Type")), f("isDeprecated", nn("Boolean")), f("deprecationReason", gn("String"))]),
        ob("__InputValue", vec![f("name", nn("String")), f("description", gn("String")), f("type", nn("__Type")), f("defaultValue", gn("String")), f("isDeprecated", nn("Boolean")), f("deprecationReason", gn("String"))]),
        ob("__EnumValue", vec![f("name", nn("String")), f("description", gn("String")), f("isDeprecated", nn("Boolean")), f("deprecationReason", gn("String"))]),
        ob("__Directive", vec![f("name", nn("String")), f("description", gn("String")), f("isRepeatable", nn("Boolean")), f("locations", nnl("__DirectiveLocation")), fd("args", nnl("__InputValue"))]),
        en("__DirectiveLocation", &["QUERY", "MUTATION", "SUBSCRIPTION", "FIELD", "FRAGMENT_DEFINITION", "FRAGMENT_SPREAD", "INLINE_FRAGMENT", "VARIABLE_DEFINITION", "SCHEMA", "SCALAR", "OBJECT",
                                    "FIELD_DEFINITION", "ARGUMENT_DEFINITION", "INTERFACE", "UNION", "ENUM", "ENUM_VALUE", "INPUT_OBJECT", "INPUT_FIELD_DEFINITION"]),
    ]
}
fn refs(types: &[MType], dirs: &[MDir]) -> HashSet<String> {
    let mut s = HashSet::new();
    fn args(a: &[MArg], s: &mut HashSet<String>) { for x in a { s.insert(x.ty.named().to_string()); } }
    for t in types {
        match &t.kind {
            MKind::Object(_, fs) | MKind::Interface(_, fs) => for f in fs { s.insert(f.ty.named().to_string()); args(&f.args, &mut s); },
            MKind::Input(fs) => args(fs, &mut s),
            _ => {}
        }
    }
    for d in dirs { args(&d.args, &mut s); }
    s
}
/// everything `__schema.types` lists (Spec.v listed_types)
fn listed_types(m: &M, meta: bool) -> Vec<MType> {
    let extra = if meta { meta_types() } else { vec![] };
    let mut dirs = spec_directives(); dirs.extend(m.dirs.iter().cloned());
    let mut tys = m.types.clone(); tys.extend(extra.iter().cloned());
    let used = refs(&tys, &dirs);
    let mut out = m.types.clone();
    for b in BUILTIN_SCALARS { if used.contains(*b) { out.push(MType { name: b.to_string(), desc: None, kind: MKind::Scalar }); } }
    out.extend(extra);
    out
}
fn introspect_of(st: Style, types: &[MType], m: &M) -> J {
    let it = Intro { st, all: types };
    let mut dirs = spec_directives(); dirs.extend(m.dirs.iter().cloned());
    let name_obj = |n: &String| J::Obj(vec![("name".into(), jstr(n))]);
    let mut o = vec![];
    it.okv("description", jopt(&m.desc), &mut o);
    o.push(("queryType".into(), name_obj(&m.query)));
    it.okv("mutationType", m.mutation.as_ref().map_or(J::Null, name_obj), &mut o);
    it.okv("subscriptionType", m.subscription.as_ref().map_or(J::Null, name_obj), &mut o);
    o.push(("types".into(), J::Arr(types.iter().map(|t| it.type_def(t)).collect())));
    o.push(("directives".into(), J::Arr(dirs.iter().map(|d| it.directive(d)).collect())));
    J::Obj(vec![("__schema".into(), J::Obj(o))])
}

// ------------------------------------------------------------------ Schema<Cow<str>, Pos> -> Coq term (Model.v schema)

type Sch<'a> = Schema<Cow<'a, str>, Pos>;
fn cpos(p: &Pos) -> String { ast_coq::pos(p) }
fn cnode_str(n: &Node<Cow<str>, Pos>) -> String { format!("(mkNode {} {})", coq_str(n.inner_ref()), cpos(n.original_node_ref())) }
fn copt_node(n: &Option<Node<Cow<str>, Pos>>) -> String { coq_opt(n, cnode_str) }
fn csty(t: &Type<Cow<str>, Pos>) -> String {
    match t {
        Type::Named(n) => format!("(SNamed {})", cnode_str(n)),
        Type::List(i) => format!("(SList {})", csty(i)),
        Type::NonNull(i) => format!("(SNonNull {})", csty(i)),
    }
}
fn cdepr(d: &Option<Cow<str>>) -> String { coq_opt(d, |s| coq_str(s)) }
fn cinput(i: &graphql_type_system::InputValue<Cow<str>, Pos>) -> String {
    format!("(mkSInput {} {} {} {} {})", cnode_str(&i.name), copt_node(&i.description), csty(&i.r#type), copt_node(&i.default_value), cdepr(&i.deprecation))
}
fn cfield(f: &graphql_type_system::Field<Cow<str>, Pos>) -> String {
    format!("(mkSField {} {} {} {} {})", cnode_str(&f.name), copt_node(&f.description), csty(&f.r#type), coq_list(&f.arguments, cinput), cdepr(&f.deprecation))
}
fn ctypedef(d: &TypeDefinition<Cow<str>, Pos>) -> String {
    match d {
        TypeDefinition::Scalar(d) => format!("(SDScalar {} {})", cnode_str(&d.name), copt_node(&d.description)),
        TypeDefinition::Object(d) => format!("(SDObject {} {} {} {})", cnode_str(&d.name), copt_node(&d.description), coq_list(&d.fields, cfield), coq_list(&d.interfaces, cnode_str)),
        TypeDefinition::Interface(d) => format!("(SDInterface {} {} {} {})", cnode_str(&d.name), copt_node(&d.description), coq_list(&d.fields, cfield), coq_list(&d.interfaces, cnode_str)),
        TypeDefinition::Union(d) => format!("(SDUnion {} {} {})", cnode_str(&d.name), copt_node(&d.description), coq_list(&d.possible_types, cnode_str)),
        TypeDefinition::Enum(d) => format!("(SDEnum {} {} {})", cnode_str(&d.name), copt_node(&d.description),
            coq_list(&d.members, |m| format!("(mkSMember {} {} {})", cnode_str(&m.name), copt_node(&m.description), cdepr(&m.deprecation)))),
        TypeDefinition::InputObject(d) => format!("(SDInput {} {} {})", cnode_str(&d.name), copt_node(&d.description), coq_list(&d.fields, cinput)),
    }
}
fn cschema(s: &Sch) -> String {
    let types: Vec<String> = s.iter_types().map(|(k, d)| format!("({}, mkNode {} {})", coq_str(k), ctypedef(d.inner_ref()), cpos(d.original_node_ref()))).collect();
    let dirs: Vec<String> = s.iter_directives().map(|(k, d)| {
        let dd = d.inner_ref();
        format!("({}, mkNode (mkSDirective {} {} {} {} {}) {})", coq_str(k), cnode_str(&dd.name), copt_node(&dd.description), coq_list(&dd.arguments, cinput),
            coq_list(&dd.locations, cnode_str), coq_opt(&dd.repeatable, |r| cpos(r.original_node_ref())), cpos(d.original_node_ref()))
    }).collect();
    let r = s.root_types();
    format!("(mkSchema {} [{}] [{}] (mkNode (mkSRoots {} {} {}) {}))", copt_node(s.description()), types.join("; "), dirs.join("; "),
        copt_node(&r.query_type), copt_node(&r.mutation_type), copt_node(&r.subscription_type), cpos(r.original_node_ref()))
}
/// result of the JSON route as a Coq `res schema` plus a short tag
fn json_route(text: &str) -> (String, String, Option<Sch<'_>>) {
    match catch(AssertUnwindSafe(|| schema_from_introspection_json::<Pos>(text))) {
        Err(p) => (format!("(Err (EIntro {}))", coq_str(&format!("PANIC {p}"))), "panic".into(), None),
        Ok(Ok(s)) => (format!("(Ok {})", cschema(&s)), "ok".into(), Some(s)),
        Ok(Err(e)) => {
            let msg = e.to_string();
            match msg.strip_prefix("Introspection type system error: ") {
                Some(m) => (format!("(Err (EIntro {}))", coq_str(m)), format!("intro: {m}"), None),
                None => ("(Err ESerde)".into(), "serde".into(), None),
            }
        }
    }
}

// ------------------------------------------------------------------ printing the declaration file

fn opts() -> SchemaTypePrinterOptions {
    let mut o = SchemaTypePrinterOptions::default();
    for n in ["Date", "JSON", "Url"] { o.scalar_types.insert(n.to_string(), nitrogql_config_file::ScalarTypeConfig::Single("string".into())); }
    o
}
/// rough reading of the printed text, only used to describe differences in the replay/evidence data (the
/// verdict is computed in Coq from the writer operations): (namespace, alias) -> text without comments
fn aliases(text: &str) -> BTreeMap<(String, String), String> {
    let mut out = BTreeMap::new();
    let mut ns = String::new();
    let mut cur: Option<(String, String, i32)> = None;
    let mut in_comment = false;
    for line in text.lines() {
        let t = line.trim();
        if in_comment { if t.ends_with("*/") { in_comment = false; } continue; }
        if t.starts_with("/**") { if !t.ends_with("*/") { in_comment = true; } continue; }
        if let Some((name, mut body, mut depth)) = cur.take() {
            body.push_str(t); body.push('\n');
            depth += t.matches('{').count() as i32 - t.matches('}').count() as i32;
            if depth <= 0 && t.ends_with(';') { out.insert((ns.clone(), name), body); } else { cur = Some((name, body, depth)); }
            continue;
        }
        if let Some(r) = t.strip_prefix("export declare namespace ") { ns = r.trim_end_matches(" {").to_string(); continue; }
        if t == "}" { ns = String::new(); continue; }
        if let Some(r) = t.strip_prefix("export type ") {
            let (name, rest) = r.split_once(" =").unwrap_or((r, ""));
            let depth = rest.matches('{').count() as i32 - rest.matches('}').count() as i32;
            if depth <= 0 && rest.trim_end().ends_with(';') { out.insert((ns.clone(), name.to_string()), rest.to_string()); } else { cur = Some((name.to_string(), format!("{rest}\n"), depth)); }
        }
    }
    out
}

// ------------------------------------------------------------------ JSON mutations

fn paths(j: &J, cur: &mut Vec<usize>, out: &mut Vec<Vec<usize>>) {
    out.push(cur.clone());
    match j {
        J::Arr(l) => for (i, x) in l.iter().enumerate() { cur.push(i); paths(x, cur, out); cur.pop(); },
        J::Obj(l) => for (i, (_, x)) in l.iter().enumerate() { cur.push(i); paths(x, cur, out); cur.pop(); },
        _ => {}
    }
}
fn at_mut<'a>(j: &'a mut J, p: &[usize]) -> &'a mut J {
    if p.is_empty() { return j; }
    match j { J::Arr(l) => at_mut(&mut l[p[0]], &p[1..]), J::Obj(l) => at_mut(&mut l[p[0]].1, &p[1..]), _ => unreachable!() }
}
fn at_ref<'a>(j: &'a J, p: &[usize]) -> &'a J {
    if p.is_empty() { return j; }
    match j { J::Arr(l) => at_ref(&l[p[0]], &p[1..]), J::Obj(l) => at_ref(&l[p[0]].1, &p[1..]), _ => unreachable!() }
}
/// a struct written as a sequence: values of `fields` in declaration order (null when absent)
fn to_seq(j: &J, fields: &[&str]) -> Option<J> {
    if let J::Obj(kvs) = j { Some(J::Arr(fields.iter().map(|f| kvs.iter().find(|(k, _)| k == f).map_or(J::Null, |(_, v)| v.clone())).collect())) } else { None }
}
const TYPE_FIELDS: &[&str] = &["kind", "name", "description", "fields", "interfaces", "possibleTypes", "enumValues", "inputFields", "ofType"];
const FIELD_FIELDS: &[&str] = &["name", "description", "args", "type", "isDeprecated", "deprecationReason"];
const INPUT_FIELDS: &[&str] = &["name", "description", "type", "defaultValue", "isDeprecated", "deprecationReason"];
const ENUMVAL_FIELDS: &[&str] = &["name", "description", "isDeprecated", "deprecationReason"];
const DIRECTIVE_FIELDS: &[&str] = &["name", "description", "locations", "args", "isRepeatable"];
const SCHEMA_FIELDS: &[&str] = &["description", "queryType", "mutationType", "subscriptionType", "types", "directives"];

fn objs_with(j: &J, key: &str) -> Vec<Vec<usize>> {
    let mut ps = vec![]; paths(j, &mut vec![], &mut ps);
    ps.into_iter().filter(|p| matches!(at_ref(j, p), J::Obj(l) if l.iter().any(|(k, _)| k == key))).collect()
}
fn with_key(rng: &mut Rng, j: &mut J, key: &str, f: impl FnOnce(&mut Rng, &mut J) -> bool) -> bool {
    let c = objs_with(j, key);
    if c.is_empty() { return false; }
    let p = rng.pick(&c).clone();
    if let J::Obj(l) = at_mut(j, &p) { for (k, v) in l.iter_mut() { if k == key { return f(rng, v); } } }
    false
}
/// one random mutation; returns its label
fn mutate(rng: &mut Rng, j: &mut J) -> String {
    let mut ps = vec![]; paths(j, &mut vec![], &mut ps);
    let objs: Vec<Vec<usize>> = ps.iter().filter(|p| matches!(at_ref(j, p), J::Obj(l) if !l.is_empty())).cloned().collect();
    let k = rng.below(14);
    if objs.is_empty() && matches!(k, 0 | 1 | 5 | 6) { return "none".into(); }
    match k {
        0 => { let p = rng.pick(&objs).clone(); if let J::Obj(l) = at_mut(j, &p) { let i = rng.below(l.len()); let k = l.remove(i).0; return format!("delete-key:{k}"); } }
        1 => { let p = rng.pick(&objs).clone(); if let J::Obj(l) = at_mut(j, &p) { let i = rng.below(l.len()); let kv = l[i].clone(); let at = rng.below(l.len() + 1); l.insert(at, kv.clone()); return format!("dup-key:{}", kv.0); } }
        2 => { let p = rng.pick(&ps).clone(); *at_mut(j, &p) = J::Null; return "null".into(); }
        3 => {
            let p = rng.pick(&ps).clone();
            let v = match rng.below(5) { 0 => J::Num("1".into()), 1 => J::Bool(true), 2 => jstr("x"), 3 => J::Arr(vec![]), _ => J::Obj(vec![]) };
            *at_mut(j, &p) = v; return "retype".into();
        }
        4 => { if with_key(rng, j, "kind", |rng, v| { const KS: &[&str] = &["FOO", "", "scalar", "NONNULL", "LIST", "NON_NULL", "OBJECT", "ENUM", "UNION", "INPUT_OBJECT", "SCALAR", "INTERFACE"]; *v = jstr(*rng.pick(KS)); true }) { return "kind".into(); } }
        5 => { let p = rng.pick(&objs).clone(); if let J::Obj(l) = at_mut(j, &p) { let at = rng.below(l.len() + 1); l.insert(at, ("extraKey".into(), J::Arr(vec![J::Num("1.5e3".into()), J::Obj(vec![("a".into(), J::Null)])]))); return "unknown-key".into(); } }
        6 => { let p = rng.pick(&objs).clone(); if let J::Obj(l) = at_mut(j, &p) { let i = rng.below(l.len()); let k = l[i].0.clone(); l[i].0 = format!("{k}_"); return format!("rename-key:{k}"); } }
        7 => {
            let key = *rng.pick(&["interfaces", "possibleTypes"]);
            if with_key(rng, j, key, |rng, v| { if let J::Arr(items) = v { if !items.is_empty() {
                let i = rng.below(items.len()); let inner = items[i].clone();
                items[i] = J::Obj(vec![("kind".into(), jstr(if rng.chance(1, 2) { "NON_NULL" } else { "LIST" })), ("ofType".into(), inner)]); return true; } } false }) { return format!("wrap-ref:{key}"); }
        }
        8 => {
            let cands: [(&str, &[&str]); 4] = [("type", TYPE_FIELDS), ("ofType", TYPE_FIELDS), ("queryType", &["name"]), ("__schema", SCHEMA_FIELDS)];
            let (key, fields) = *rng.pick(&cands);
            if with_key(rng, j, key, |_, v| { if let Some(sq) = to_seq(v, fields) { *v = sq; true } else { false } }) { return format!("seq:{key}"); }
        }
        9 => {
            let cands: [(&str, &[&str]); 6] = [("fields", FIELD_FIELDS), ("args", INPUT_FIELDS), ("inputFields", INPUT_FIELDS), ("enumValues", ENUMVAL_FIELDS), ("directives", DIRECTIVE_FIELDS), ("types", TYPE_FIELDS)];
            let (key, fields) = *rng.pick(&cands);
            if with_key(rng, j, key, |rng, v| { if let J::Arr(items) = v { if !items.is_empty() {
                let i = rng.below(items.len());
                if let Some(mut sq) = to_seq(&items[i], fields) {
                    if rng.chance(1, 4) { if let J::Arr(x) = &mut sq { if rng.chance(1, 2) { x.pop(); } else { x.push(J::Null); } } }
                    items[i] = sq; return true;
                } } } false }) { return format!("seq-elem:{key}"); }
        }
        10 => {
            let c = objs_with(j, "isDeprecated");
            if !c.is_empty() { let p = rng.pick(&c).clone(); if let J::Obj(l) = at_mut(j, &p) {
                let mode = rng.below(3);
                l.retain(|(k, _)| !(k == "deprecationReason" && mode == 0));
                for (k, v) in l.iter_mut() { if k == "isDeprecated" { *v = match mode { 0 => J::Bool(true), 1 => J::Bool(false), _ => J::Null }; } if k == "deprecationReason" && mode != 0 { *v = jstr("because"); } }
                return "deprecation".into();
            } }
        }
        11 => {
            if with_key(rng, j, "args", |rng, v| { if let J::Arr(items) = v {
                items.push(J::Obj(vec![("name".into(), jstr("broken")), ("type".into(), J::Obj(vec![("kind".into(), jstr(if rng.chance(1, 2) { "LIST" } else { "WEIRD" }))]))])); true } else { false } }) { return "broken-arg".into(); }
        }
        12 => {
            let c = objs_with(j, "locations");
            if !c.is_empty() { let p = rng.pick(&c).clone(); if let J::Obj(l) = at_mut(j, &p) {
                l.retain(|(k, _)| k != "isRepeatable");
                match rng.below(3) { 0 => l.push(("isRepeatable".into(), J::Bool(true))), 1 => l.push(("isRepeatable".into(), J::Null)), _ => {} }
                return "repeatable".into();
            } }
        }
        _ => {
            if with_key(rng, j, "types", |rng, v| { if let J::Arr(items) = v { if !items.is_empty() {
                let i = rng.below(items.len()); let mut dup = items[i].clone();
                if let J::Obj(d) = &mut dup { for (k, v) in d.iter_mut() { if k == "description" { *v = jstr("second definition"); } if k == "kind" && rng.chance(1, 2) { *v = jstr("SCALAR"); } } }
                let at = rng.below(items.len() + 1); items.insert(at, dup); return true; } } false }) { return "dup-type".into(); }
        }
    }
    "none".into()
}

// ------------------------------------------------------------------ small hand-written models

fn small_model(rng: &mut Rng) -> M {
    let f = |n: &str, t: Ty| MField { name: n.into(), desc: None, args: vec![], ty: t, depr: None };
    let mut types = vec![
        MType { name: "Query".into(), desc: rand_desc(rng, 3), kind: MKind::Object(vec![], vec![
            MField { name: "a".into(), desc: rand_desc(rng, 3), args: vec![MArg { name: "x".into(), desc: None, ty: gn("In"), default: None, depr: None }, MArg { name: "y".into(), desc: None, ty: nn("Int"), default: Some("3".into()), depr: rand_depr(rng, 3) }], ty: nnl("T"), depr: rand_depr(rng, 3) },
            f("u", gn("U")), f("e", gn("E")), f("n", gn("N"))]) },
        MType { name: "T".into(), desc: None, kind: MKind::Object(vec!["N".into()], vec![f("id", nn("ID")), f("s", gn("String"))]) },
        MType { name: "N".into(), desc: rand_desc(rng, 3), kind: MKind::Interface(vec![], vec![f("id", nn("ID"))]) },
        MType { name: "U".into(), desc: None, kind: MKind::Union(vec!["T".into()]) },
        MType { name: "E".into(), desc: None, kind: MKind::Enum(vec![MVal { name: "A".into(), desc: rand_desc(rng, 3), depr: rand_depr(rng, 2) }, MVal { name: "B".into(), desc: None, depr: None }]) },
        MType { name: "In".into(), desc: None, kind: MKind::Input(vec![MArg { name: "k".into(), desc: rand_desc(rng, 3), ty: gn("Boolean"), default: Some("true".into()), depr: rand_depr(rng, 3) }, MArg { name: "l".into(), desc: None, ty: lnn("Float"), default: None, depr: None }]) },
    ];
    if rng.chance(1, 2) { types.push(MType { name: "Date".into(), desc: None, kind: MKind::Scalar }); }
    M { desc: None, types, dirs: vec![], query: "Query".into(), mutation: None, subscription: None, explicit: false }
}



// ------------------------------------------------------------------ witnesses of the refutation lemmas (coq/C15/Proofs.v)

/// shadow_model: `schema { query: Query }` + a type called Mutation
fn shadow_model() -> M {
    let f = |n: &str, t: Ty| MField { name: n.into(), desc: None, args: vec![], ty: t, depr: None };
    M { desc: None, types: vec![MType { name: "Query".into(), desc: None, kind: MKind::Object(vec![], vec![f("a", gn("Int"))]) },
                               MType { name: "Mutation".into(), desc: None, kind: MKind::Object(vec![], vec![f("a", gn("Int"))]) }],
        dirs: vec![], query: "Query".into(), mutation: None, subscription: None, explicit: true }
}
/// tiny_model: `type Query { a: String }`
fn tiny_model() -> M {
    let f = |n: &str, t: Ty| MField { name: n.into(), desc: None, args: vec![], ty: t, depr: None };
    M { desc: None, types: vec![MType { name: "Query".into(), desc: None, kind: MKind::Object(vec![], vec![f("a", gn("String"))]) }],
        dirs: vec![], query: "Query".into(), mutation: None, subscription: None, explicit: false }
}

// ------------------------------------------------------------------ the real CLI on twin projects

/// runs `nitrogql-cli check generate` in `dir` (schema file `schema_file`), returns (exit ok, schema.d.ts text, stdout+stderr)
fn run_cli_project(cli: &std::path::Path, dir: &std::path::Path, schema_file: &str, schema_text: &str, docs: &[String]) -> (bool, Option<String>, String) {
    let _ = std::fs::remove_dir_all(dir);
    std::fs::create_dir_all(dir.join("ops")).unwrap();
    std::fs::write(dir.join(schema_file), schema_text).unwrap();
    for (i, d) in docs.iter().enumerate() { std::fs::write(dir.join(format!("ops/q{i}.graphql")), d).unwrap(); }
    let cfg = format!("schema: ./{schema_file}\ndocuments:\n  - ./ops/*.graphql\nextensions:\n  nitrogql:\n    generate:\n      schemaOutput: ./out/schema.d.ts\n      type:\n        scalarTypes:\n          Date: string\n          JSON: string\n          Url: string\n");
    std::fs::write(dir.join("graphql.config.yaml"), cfg).unwrap();
    let o = std::process::Command::new(cli).current_dir(dir).args(["--output-format", "json", "check", "generate"]).output().expect("cli runs");
    let text = std::fs::read_to_string(dir.join("out/schema.d.ts")).ok();
    (o.status.success(), text, format!("{}\n{}", String::from_utf8_lossy(&o.stdout), String::from_utf8_lossy(&o.stderr)))
}
/// lines without the indentation SourceWriter adds; blank lines (the CLI adds one built-in directive definition, which prints
/// as a blank line per namespace) and the sourceMappingURL trailer dropped
fn unindent(s: &str) -> String { s.lines().map(|l| l.trim_start()).filter(|l| !l.is_empty() && !l.starts_with("//# sourceMappingURL=")).collect::<Vec<_>>().join("\n") }

// ------------------------------------------------------------------ main

#[derive(Default)]
struct Stats { n_json_shuffled: usize, n_cli: usize, n_cli_exit_diff: usize, n_guard: usize, n_routes: usize, n_docs: usize, n_verdict_diff: usize, n_alias_strict: usize, n_alias_text_diff: usize, n_json: usize, json_outcomes: BTreeMap<String, usize>, mutation_kinds: BTreeMap<String, usize>,
               styles: BTreeMap<String, usize>, n_back: usize, n_strict_equiv: usize }

fn main() {
    if std::env::var("LOUD").is_err() { silence_panics(); }
    let args = parse_args();
    let mut rng = Rng::new(args.seed);
    let thorough = args.tier == "thorough";
    let cli: Option<std::path::PathBuf> = args.extra.iter().position(|a| a == "--cli").and_then(|i| args.extra.get(i + 1)).map(std::path::PathBuf::from);
    let n_cli_projects = if thorough { 40 } else { 6 };
    let mut cases = Cases::new("From V Require Import Base.Util Gql.Ast Writer.Wop C15.Model C15.Spec C15.Proofs C15.Corr.", "case", "agree", "holds", if thorough { 16 } else { 12 });
    let mut distinct: HashSet<String> = HashSet::new();
    let mut st = Stats::default();
    let mut direct_failures: Vec<serde_json::Value> = vec![];
    let mut samples: Vec<serde_json::Value> = vec![];

    // ---- stream 0: the witnesses of the refutation lemmas, replayed against the real code.  The model is referred to by its
    //      Coq name, so `agree` also checks that the Coq witness and the inputs built here are the same schema.
    let corpus_dir: Option<std::path::PathBuf> = args.extra.iter().position(|a| a == "--corpus").and_then(|i| args.extra.get(i + 1)).map(std::path::PathBuf::from);
    let dump_corpus = args.extra.iter().any(|a| a == "--dump-corpus");
    let mut n_witness = 0usize; let mut n_witness_reproduced = 0usize;
    for (coq_name, m, meta, guard, label, doc_text, class) in [
        ("shadow_model", shadow_model(), false, true, "shadow-root", "mutation { a }\n", "regression: json-root-types-implicit (repaired)"),
        ("tiny_model", tiny_model(), true, true, "unused-builtin-variable", "query Q($v: Float) { __typename }\n", "sdl-unreferenced-builtin-scalars"),
        ("tiny_model", tiny_model(), true, true, "meta-type-fragment", "query Q { ...F }\nfragment F on Query { a }\nfragment G on __Type { name }\n", "json-meta-types-are-schema-types"),
    ] {
        let order: Vec<usize> = (0..m.types.len()).collect();
        let sdl = render_sdl(&m, &order);
        let listed = listed_types(&m, meta);
        let j = introspect_of(Style::Full, &listed, &m);
        let jt = j.text();
        let tsdoc = load_schema(&sdl).expect("witness SDL loads");
        let ts_sdl = to_type_system(&tsdoc);
        let (out_json, tag, ts_json) = json_route(&jt);
        let ts_json = ts_json.expect("witness JSON loads");
        let doc = load_operation(doc_text).expect("witness document parses");
        let e1: Vec<_> = check_operation(&ts_sdl, &doc).iter().map(error_summary).collect();
        let e2: Vec<_> = check_operation(&ts_json, &doc).iter().map(error_summary).collect();
        n_witness += 1; if e1.is_empty() != e2.is_empty() { n_witness_reproduced += 1; }
        if label != "meta-type-fragment" {
            cases.push(format!("CRoutes false {} Full {} [] {} {} {} {} {} [({}, {}, {})]", coq_bool(guard), coq_bool(meta), coq_name, ast_coq::tsdoc(&tsdoc), j.coq(), cschema(&ts_sdl), out_json,
                               ast_coq::opdoc(&doc), coq_bool(e1.is_empty()), coq_bool(e2.is_empty())),
                json!({"kind": "routes", "label": if label == "shadow-root" { "shadow-root" } else { "witness" }, "witness": coq_name, "meta": meta, "sdl": sdl, "json": jt, "json_route": tag}));
        }
        cases.push(format!("CVerdict {} {} {}", coq_str(label), coq_bool(e1.is_empty()), coq_bool(e2.is_empty())),
            json!({"kind": "verdict", "label": label, "witness": coq_name, "sdl": sdl, "json": jt, "doc": doc_text, "errors_sdl": format!("{e1:?}"), "errors_json": format!("{e2:?}")}));
        if dump_corpus {
            if let Some(dir) = &corpus_dir {
                std::fs::create_dir_all(dir).unwrap();
                std::fs::write(dir.join(format!("{label}.json")), serde_json::to_string_pretty(&json!({"class": class, "coq_witness": coq_name, "sdl": sdl, "introspection": jt, "document": doc_text,
                    "observed": {"sdl_route_accepts": e1.is_empty(), "json_route_accepts": e2.is_empty(), "errors_sdl": format!("{e1:?}"), "errors_json": format!("{e2:?}")}})).unwrap()).unwrap();
            }
        }
    }
    // stored witnesses (corpus/C15/*.json): schema pair + document, replayed as verdict cases
    let mut n_corpus = 0usize;
    if let Some(dir) = &corpus_dir {
        let mut files: Vec<_> = std::fs::read_dir(dir).map(|d| d.filter_map(|e| e.ok()).map(|e| e.path()).filter(|p| p.extension().map_or(false, |x| x == "json")).collect()).unwrap_or_default();
        files.sort();
        for f in files {
            let Ok(text) = std::fs::read_to_string(&f) else { continue };
            let Ok(v) = serde_json::from_str::<serde_json::Value>(&text) else { continue };
            let (Some(sdl), Some(jt), Some(doc_text)) = (v["sdl"].as_str(), v["introspection"].as_str(), v["document"].as_str()) else { continue };
            let label = f.file_stem().unwrap().to_string_lossy().to_string();
            let Ok(tsdoc) = load_schema(sdl) else { continue };
            let ts_sdl = to_type_system(&tsdoc);
            let Ok(ts_json) = schema_from_introspection_json::<Pos>(jt) else { continue };
            let Ok(doc) = load_operation(doc_text) else { continue };
            let ok1 = check_operation(&ts_sdl, &doc).is_empty(); let ok2 = check_operation(&ts_json, &doc).is_empty();
            n_corpus += 1;
            cases.push(format!("CVerdict {} {} {}", coq_str(&label), coq_bool(ok1), coq_bool(ok2)),
                json!({"kind": "verdict", "label": label, "corpus_file": f.to_string_lossy(), "sdl": sdl, "json": jt, "doc": doc_text}));
        }
    }

    // ---- stream 1: both routes on generated models
    let n_models = if thorough { 400 } else { 64 };
    let docs_per = if thorough { 6 } else { 5 };
    for i in 0..n_models {
        let special = i % 15 == 14; // a schema definition that leaves `mutation` out while a type is called Mutation
        let gs = gen_schema(&mut rng, &SchemaCfg::default());
        let mut m = model_of(&mut rng, &gs, i % 3 != 0);
        let mut label = "gen";
        if special && m.mutation.is_none() && !m.types.iter().any(|t| t.name == "Mutation") {
            m.explicit = true;
            let fs = match &m.types.iter().find(|t| t.name == m.query).unwrap().kind { MKind::Object(_, fs) => vec![fs[0].clone()], _ => unreachable!() };
            m.types.push(MType { name: "Mutation".into(), desc: None, kind: MKind::Object(vec![], fs) });
            label = "shadow-root";
        }
        let meta = rng.chance(1, 2);
        let style = if rng.chance(1, 2) { Style::Full } else { Style::Minimal };
        *st.styles.entry(format!("{style:?}/meta={meta}")).or_default() += 1;
        let order: Vec<usize> = { let mut o: Vec<usize> = (0..m.types.len()).collect(); if rng.chance(1, 2) { rng.shuffle(&mut o); } o };
        let sdl = render_sdl(&m, &order);
        let listed0 = listed_types(&m, meta);
        // the result may list its types in any order
        let jorder: Vec<usize> = if i % 3 == 1 { let mut o: Vec<usize> = (0..listed0.len()).collect(); rng.shuffle(&mut o); o } else { vec![] };
        let listed: Vec<MType> = if jorder.is_empty() { listed0.clone() } else { jorder.iter().map(|&k| listed0[k].clone()).collect() };
        if !jorder.is_empty() { st.n_json_shuffled += 1; }
        let j = introspect_of(style, &listed, &m);
        let jt = j.text();
        distinct.insert(sdl.clone());
        // SDL route
        let tsdoc = match load_schema(&sdl) { Ok(d) => d, Err(e) => { direct_failures.push(json!({"what": format!("generated SDL does not load: {e}"), "classes": [], "sdl": sdl})); continue; } };
        let errs = check_schema(&tsdoc);
        if !errs.is_empty() { direct_failures.push(json!({"what": format!("generated SDL is rejected by check: {:?}", errs.iter().map(error_summary).collect::<Vec<_>>()), "classes": [], "sdl": sdl})); continue; }
        let ts_sdl = to_type_system(&tsdoc);
        // JSON route
        let (out_json, tag, ts_json) = json_route(&jt);
        let descr = json!({"kind": "routes", "label": label, "style": format!("{style:?}"), "meta": meta, "sdl": sdl, "json": jt, "json_route": tag});
        let term = |strict: bool, docs: &str| format!("CRoutes {} {} {:?} {} [{}]%nat {} {} {} {} {} {}", coq_bool(strict), coq_bool(true), style, coq_bool(meta), jorder.iter().map(|k| k.to_string()).collect::<Vec<_>>().join("; "), coq_model(&m), ast_coq::tsdoc(&tsdoc), j.coq(), cschema(&ts_sdl), out_json, docs);
        st.n_routes += 1;
        st.n_guard += 1;
        if samples.len() < 2 { samples.push(json!({"kind": "routes", "label": label, "style": format!("{style:?}"), "meta": meta, "sdl": sdl, "json_route": tag})); }
        let Some(ts_json) = ts_json else { cases.push(term(false, "[]"), descr.clone()); direct_failures.push(json!({"what": format!("the JSON route rejects a standard introspection result: {tag}"), "classes": [], "sdl": sdl, "json": jt})); continue; };
        // the unguarded comparison, on a few models where it is expected to differ
        let unused_builtin: Vec<&str> = BUILTIN_SCALARS.iter().filter(|b| !listed.iter().any(|t| t.name == **b)).cloned().collect();
        if (meta || !unused_builtin.is_empty()) && st.n_strict_equiv < 6 {
            st.n_strict_equiv += 1;
            let mut d = descr.clone();
            d["strict"] = json!(true); d["unused_builtin_scalars"] = json!(unused_builtin); d["shadow_root"] = json!(label == "shadow-root");
            cases.push(term(true, "[]"), d);
        }
        // what the printers see on the JSON route
        let ast = type_system_to_ast(&ts_json);
        let sc2 = ast_to_type_system(&ast);
        cases.push(format!("CBack {} {} {}", cschema(&ts_json), ast_coq::tsdoc(&ast), cschema(&sc2)), json!({"kind": "back", "json": jt}));
        st.n_back += 1;
        // printed declaration files
        let mut w1 = Rec::new();
        let r1 = SchemaTypePrinter::new(opts(), &mut w1).print_document(&tsdoc);
        let mut w2 = Rec::new();
        let r2 = SchemaTypePrinter::new(opts(), &mut w2).print_document(&ast);
        if r1.is_err() || r2.is_err() {
            direct_failures.push(json!({"what": format!("schema declaration printer fails: sdl={:?} json={:?}", r1.err().map(|e| format!("{e:?}")), r2.err().map(|e| format!("{e:?}"))), "classes": [], "sdl": sdl, "json": jt}));
        } else {
            // a union of names (an interface = its implementers in declaration order) is compared as a set
            let norm = |m: BTreeMap<(String, String), String>| -> BTreeMap<(String, String), String> { m.into_iter().map(|(k, v)| {
                let b = v.trim().trim_end_matches(';').trim();
                if !b.is_empty() && b.chars().all(|c| c.is_ascii_alphanumeric() || c == '_' || c == '|' || c == ' ') { let mut ms: Vec<&str> = b.split('|').map(|x| x.trim()).collect(); ms.sort(); (k, ms.join(" | ")) } else { let mut ls: Vec<&str> = v.lines().collect(); ls.sort(); (k, ls.join("\n")) } }).collect() };
            let (a1, a2) = (norm(aliases(&w1.text())), norm(aliases(&w2.text())));
            let mut only_sdl = vec![]; let mut only_json = vec![]; let mut differ = vec![];
            for (k, v) in &a1 { match a2.get(k) { None => only_sdl.push(format!("{}.{}", k.0, k.1)), Some(v2) => if v != v2 { differ.push(format!("{}.{}", k.0, k.1)); } } }
            for k in a2.keys() { if !a1.contains_key(k) { only_json.push(format!("{}.{}", k.0, k.1)); } }
            let any = !only_sdl.is_empty() || !only_json.is_empty() || !differ.is_empty();
            if !differ.is_empty() { st.n_alias_text_diff += 1; if std::env::var("LOUD").is_ok() { for k in &differ { let (a, b) = k.split_once('.').unwrap(); let key = (a.to_string(), b.to_string()); eprintln!("DIFF {k}\n sdl: {:?}\n json: {:?}", a1.get(&key), a2.get(&key)); } } }
            let d = json!({"kind": "alias", "sdl": sdl, "json": jt, "only_sdl": only_sdl, "only_json": only_json, "differ": differ});
            let t = |strict: bool| format!("CAlias {} {} {}", coq_bool(strict), wops_coq(&w1.0), wops_coq(&w2.0));
            if i % 2 == 0 || thorough { cases.push(t(false), d.clone()); }
            if any && st.n_alias_strict < 4 { st.n_alias_strict += 1; let mut d2 = d.clone(); d2["strict"] = json!(true); cases.push(t(true), d2); }
        }
        // verdicts of operation documents
        let mut docs: Vec<(String, String)> = vec![];
        for _ in 0..docs_per { docs.push(("gen".into(), gen_doc(&mut rng, &gs, &DocCfg::default()).render())); }
        if label == "shadow-root" {
            let f0 = match &m.types.last().unwrap().kind { MKind::Object(_, fs) => fs[0].clone(), _ => unreachable!() };
            let base = f0.ty.named().to_string();
            let sel = if gs.is_leaf(&base) { String::new() } else { " { __typename }".to_string() };
            if f0.args.iter().all(|a| !a.ty.is_nonnull() || a.default.is_some()) { docs.push(("shadow-root".into(), format!("mutation {{ {}{} }}\n", f0.name, sel))); }
        }
        // a non-repeatable built-in directive applied twice: rejected on both routes
        docs.push(("twice-skip".into(), "query T { __typename @skip(if: true) @skip(if: false) }\n".into()));
        if meta { docs.push(("meta-type-fragment".into(), "query T { __typename }\nfragment G on __Type { name }\n".into())); }
        if let Some(b) = unused_builtin.first() { docs.push(("unused-builtin-variable".into(), format!("query Q($v: {b}) {{ __typename }}\n"))); }
        let docs_for_cli: Vec<(String, String)> = docs.clone();
        let mut doc_terms: Vec<String> = vec![];
        for (dl, text) in docs {
            let doc = match load_operation(&text) { Ok(d) => d, Err(_) => continue };
            let e1: Vec<_> = check_operation(&ts_sdl, &doc).iter().map(error_summary).collect();
            let e2: Vec<_> = check_operation(&ts_json, &doc).iter().map(error_summary).collect();
            st.n_docs += 1;
            if e1.is_empty() != e2.is_empty() { st.n_verdict_diff += 1; }
            distinct.insert(format!("{sdl}\n---\n{text}"));
            doc_terms.push(format!("({}, {}, {})", ast_coq::opdoc(&doc), coq_bool(e1.is_empty()), coq_bool(e2.is_empty())));
            cases.push(format!("CVerdict {} {} {}", coq_str(&dl), coq_bool(e1.is_empty()), coq_bool(e2.is_empty())),
                json!({"kind": "verdict", "label": dl, "sdl": sdl, "json": jt, "doc": text, "errors_sdl": format!("{e1:?}"), "errors_json": format!("{e2:?}")}));
        }

        // the both-routes case, with the documents and the real verdicts (the checker model of C03 is run on both schema documents in Coq)
        cases.push(term(false, &format!("[{}]", doc_terms.join("; "))), descr.clone());

        // the real CLI on two projects that differ only in the schema file (route selection by extension,
        // resolve_loaded_schema, extend_loaded_schema, check, generate)
        if let Some(cli) = &cli {
            if st.n_cli < n_cli_projects || (label == "shadow-root" && st.n_cli < n_cli_projects + 2) {
                st.n_cli += 1;
                let root = args.out.join("cli-projects");
                // one project per document label: the generated documents together, each provoking document on its own
                let mut sets: Vec<(String, Vec<String>)> = vec![("gen".into(), docs_for_cli.iter().filter(|(l, _)| l == "gen").map(|(_, d)| d.clone()).collect())];
                for (l, d) in docs_for_cli.iter().filter(|(l, _)| l != "gen") { sets.push((l.clone(), vec![d.clone()])); }
                for (set_label, set) in sets.iter().map(|(l, s)| (l.as_str(), s)) {
                    if set.is_empty() { continue; }
                    let (ok1, t1, log1) = run_cli_project(cli, &root.join(format!("m{i}-{set_label}-sdl")), "schema.graphql", &sdl, set);
                    let (ok2, t2, log2) = run_cli_project(cli, &root.join(format!("m{i}-{set_label}-json")), "schema.json", &jt, set);
                    if ok1 != ok2 { st.n_cli_exit_diff += 1; }
                    // the in-process runs above are the CLI's: same declaration file (modulo the indentation SourceWriter adds)
                    let same1 = t1.as_ref().map_or(!ok1, |x| unindent(x) == unindent(&w1.text()));
                    let same2 = t2.as_ref().map_or(!ok2, |x| unindent(x) == unindent(&w2.text()));
                    cases.push(format!("CCli {} {} {} {} {}", coq_str(set_label), coq_bool(ok1), coq_bool(ok2), coq_bool(same1), coq_bool(same2)),
                        json!({"kind": "cli", "label": set_label, "sdl": sdl, "json": jt, "docs": set, "exit_ok_sdl": ok1, "exit_ok_json": ok2,
                               "schema_d_ts_matches_inprocess_sdl": same1, "schema_d_ts_matches_inprocess_json": same2,
                               "log_sdl": log1.chars().take(1500).collect::<String>(), "log_json": log2.chars().take(1500).collect::<String>()}));
                }
            }
        }
    }

    // ---- stream 2: mutated and malformed introspection results
    let n_json = if thorough { 5000 } else { 700 };
    for i in 0..n_json {
        let m = small_model(&mut rng);
        let style = if rng.chance(1, 2) { Style::Full } else { Style::Minimal };
        let listed = listed_types(&m, false);
        let mut j = introspect_of(style, &listed, &m);
        let mut labels = vec![];
        let n_mut = if i % 10 == 0 { 0 } else { rng.range(1, 2) };
        for _ in 0..n_mut { labels.push(mutate(&mut rng, &mut j)); }
        let label = if labels.is_empty() { "unmutated".to_string() } else { labels.join("+") };
        let jt = j.text();
        if !distinct.insert(jt.clone()) { continue; }
        let (out, tag, _) = json_route(&jt);
        if tag == "panic" { direct_failures.push(json!({"what": "schema_from_introspection_json panics", "classes": [], "json": jt})); }
        for l in &labels { *st.mutation_kinds.entry(l.split(':').next().unwrap().to_string()).or_default() += 1; }
        *st.json_outcomes.entry(tag.split(" '").next().unwrap().to_string()).or_default() += 1;
        st.n_json += 1;
        let d = json!({"kind": "json", "label": label, "json": jt, "outcome": tag});
        if samples.len() < 5 && n_mut > 0 { samples.push(json!({"kind": "json", "label": label, "outcome": tag})); }
        cases.push(format!("CJson {} {} {}", coq_str(&label), j.coq(), out), d);
    }
    for (label, j) in [("empty-object", J::Obj(vec![])), ("array", J::Arr(vec![])), ("null", J::Null), ("schema-null", J::Obj(vec![("__schema".into(), J::Null)])),
                       ("seq-root", J::Arr(vec![J::Arr(vec![J::Null, J::Arr(vec![jstr("Q")]), J::Null, J::Null, J::Arr(vec![]), J::Arr(vec![])])]))] {
        let jt = j.text();
        let (out, tag, _) = json_route(&jt);
        *st.json_outcomes.entry(tag.clone()).or_default() += 1; st.n_json += 1;
        cases.push(format!("CJson {} {} {}", coq_str(label), j.coq(), out), json!({"kind": "json", "label": label, "json": jt, "outcome": tag}));
    }

    cases.write(&args.out);
    write_meta(&args.out, &json!({
        "evaluations": cases.len(),
        "distinct_nontrivial": distinct.len(),
        "rule": "stream 1: one generated schema model (gen.rs schema, valid by construction, enriched with descriptions / deprecations on enum values, arguments, input fields, directives) = one SDL text (types in random order) + one introspection result built independently from the model (two key styles, with or without the introspection types, built-in scalars listed iff referenced); both real routes are run, both Schema values dumped, the declaration file printed on both routes, 5-6 generated operation documents checked under both. stream 2: mutated introspection results (missing / duplicated / renamed / unknown keys, wrong JSON types, unknown kinds, wrapped references, sequence-form structs, deprecation and isRepeatable variants, broken argument types, duplicated type definitions) through schema_from_introspection_json. distinct = distinct SDL texts + distinct (schema, document) pairs + distinct JSON texts",
        "samples": samples,
        "distribution": {
            "models_both_routes": st.n_routes, "models_with_shuffled_json_type_order": st.n_json_shuffled, "models_satisfying_model_ok (hypothesis of C15_routes_agree, checked in Coq per case)": st.n_guard, "styles": st.styles, "back_conversions": st.n_back,
            "refutation_witnesses_replayed": n_witness, "refutation_witnesses_still_reproducing": n_witness_reproduced, "corpus_files_replayed": n_corpus, "cli_twin_projects": st.n_cli, "cli_exit_status_differences_observed": st.n_cli_exit_diff, "operation_documents": st.n_docs, "verdict_differences_observed": st.n_verdict_diff,
            "strict_equivalence_cases": st.n_strict_equiv, "alias_strict_cases": st.n_alias_strict, "models_with_alias_text_difference": st.n_alias_text_diff,
            "json_cases": st.n_json, "json_outcomes": st.json_outcomes, "mutation_kinds": st.mutation_kinds,
        },
        "direct_failures": direct_failures,
    }));
}
