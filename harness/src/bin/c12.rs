//! C12: runs the real runtime-document printers of /repo on generated operation documents and writes the
//! case files coq/C12/Corr.v is evaluated on.
//!
//! Per document: the parsed AST (as a Coq term of Gql/Ast.v), the JSON chunks written by
//! `print_js_for_operation_document` (recording `SourceMapWriter`), the JSON chunks written by
//! `print_types_for_operation_document` with `print_values` (standalone TS mode; only for documents the real
//! `check` accepts), `verif_hooks::print_to_json_string(&document)` and
//! `verif_hooks::fragment_names_in_selection_set` per definition.  The loader's own `print_js` (SourceWriter
//! text) is compared with the recorded chunks directly here.
use nitrogql_ast::base::HasPos;
use nitrogql_ast::operation::{ExecutableDefinition, FragmentDefinition};
use nitrogql_ast::selection_set::{Selection, SelectionSet};
use nitrogql_ast::value::Arguments;
use nitrogql_ast::variable::VariablesDefinition;
use nitrogql_ast::{set_current_file_of_pos, OperationDocument};
use nitrogql_config_file::Config;
use nitrogql_printer::verif_hooks::{fragment_names_in_selection_set, print_to_json_string};
use nitrogql_printer::{
    print_js_for_operation_document, print_types_for_operation_document, OperationJSPrinterOptions,
    OperationTypePrinterOptions,
};
use nitrogql_semantics::{resolve_operation_imports, OperationExtension, OperationResolver};
use serde_json::{json, Value};
use sourcemap_writer::SourceMapWriter;
use std::collections::{BTreeMap, HashMap, HashSet};
use std::fmt::Write as _;
use std::panic::AssertUnwindSafe;
use std::path::Path;
use verif_harness::gen::*;
use verif_harness::pipeline::*;
use verif_harness::*;

/// the loader's own `print_js` (crates/graphql-loader is a bin crate; this file of it uses no `crate::` path)
#[path = "/repo/crates/graphql-loader/src/js_printer.rs"]
mod loader_js_printer;

// ------------------------------------------------------------------ recording writer

#[derive(Default)]
struct Rec(Vec<String>);
impl SourceMapWriter for Rec {
    fn write(&mut self, chunk: &str) { self.0.push(chunk.to_string()); }
    fn write_for(&mut self, chunk: &str, _node: &impl HasPos) { self.0.push(chunk.to_string()); }
    fn indent(&mut self) {}
    fn dedent(&mut self) {}
}

const DOC_PREFIX: &str = "{\"kind\":\"Document\"";

/// the chunks that are runtime documents: every chunk written by print_*_runtime is one whole
/// `print_to_json_string` of a definition list, which starts with `{"kind":"Document"`; no other chunk
/// of either printer starts with `{"` (types are written piecewise)
fn json_chunks(ops: &[String]) -> Vec<String> {
    ops.iter().filter(|c| c.starts_with(DOC_PREFIX)).cloned().collect()
}

type Outcome = Result<Vec<String>, String>;

// ---- lossless factoring of the emitted texts (decoded again by Corr.v: decode_text) ----
// A runtime document is `{"kind":"Document","definitions":[` D1 `,` D2 … `]}`; the same definition objects
// recur in many chunks of one case, so a case carries each distinct piece once (table) and every text as a
// list of indices.  The split is verified here (re-assembly must give back the exact text), otherwise the
// text is carried raw; nothing is trusted about it.
const TEXT_PREFIX: &str = "{\"kind\":\"Document\",\"definitions\":[";
const TEXT_SUFFIX: &str = "]}";
fn split_pieces(text: &str) -> Option<Vec<&str>> {
    let inner = text.strip_prefix(TEXT_PREFIX)?.strip_suffix(TEXT_SUFFIX)?;
    let mut pieces = vec![];
    let (mut depth, mut in_str, mut esc, mut start) = (0i32, false, false, 0usize);
    for (i, c) in inner.char_indices() {
        if in_str {
            if esc { esc = false; } else if c == '\\' { esc = true; } else if c == '"' { in_str = false; }
            continue;
        }
        match c {
            '"' => in_str = true,
            '{' | '[' => depth += 1,
            '}' | ']' => depth -= 1,
            ',' if depth == 0 => { pieces.push(&inner[start..i]); start = i + 1; }
            _ => {}
        }
    }
    if !inner.is_empty() { pieces.push(&inner[start..]); }
    let re = format!("{}{}{}", TEXT_PREFIX, pieces.join(","), TEXT_SUFFIX);
    if re == text { Some(pieces) } else { None }
}
/// static dictionary coding of the emitted JSON (again lossless and verified here; decoded by Corr.v:
/// expand): frequent substrings are replaced by single private-use code points U+E000+k.  A text that
/// itself contains a code point of that range is carried uncompressed.
const DICT: &[&str] = &[
    "{\"kind\":\"OperationDefinition\",\"operation\":\"", "{\"kind\":\"VariableDefinition\",\"variable\":",
    "{\"kind\":\"SelectionSet\",\"selections\":[", "{\"kind\":\"FragmentDefinition\",\"name\":",
    "{\"kind\":\"FragmentSpread\",\"name\":", "{\"kind\":\"BooleanValue\",\"value\":", "{\"kind\":\"ObjectValue\",\"fields\":[",
    "{\"kind\":\"StringValue\",\"value\":", "{\"kind\":\"ObjectField\",\"name\":", "{\"kind\":\"ListValue\",\"values\":[",
    "{\"kind\":\"FloatValue\",\"value\":", "{\"kind\":\"NonNullType\",\"type\":", "{\"kind\":\"EnumValue\",\"value\":",
    "{\"kind\":\"NamedType\",\"name\":", "{\"kind\":\"Directive\",\"name\":", "{\"kind\":\"IntValue\",\"value\":",
    "{\"kind\":\"ListType\",\"type\":", "{\"kind\":\"Argument\",\"name\":", "{\"kind\":\"Variable\",\"name\":",
    "{\"kind\":\"InlineFragment\",", "{\"kind\":\"Name\",\"value\":\"", ",\"variableDefinitions\":[", "{\"kind\":\"Field\",\"name\":",
    "{\"kind\":\"NullValue\"}", "\"typeCondition\":", ",\"selectionSet\":", ",\"defaultValue\":", ",\"directives\":[", ",\"arguments\":[",
    ",\"alias\":", ",\"value\":", ",\"name\":", ",\"type\":", "\"}}", "\"},", "]}", "}}", "],", "\"}",
];
const DICT_BASE: u32 = 0xE000;
fn dict_encode(text: &str) -> Option<String> {
    if text.chars().any(|c| (DICT_BASE..DICT_BASE + 256).contains(&(c as u32))) { return None; }
    let mut out = String::new();
    let mut rest = text;
    'outer: while !rest.is_empty() {
        for (k, d) in DICT.iter().enumerate() {
            if rest.starts_with(d) { out.push(char::from_u32(DICT_BASE + k as u32).unwrap()); rest = &rest[d.len()..]; continue 'outer; }
        }
        let c = rest.chars().next().unwrap();
        out.push(c); rest = &rest[c.len_utf8()..];
    }
    // verify
    let mut back = String::new();
    for c in out.chars() { let u = c as u32; if (DICT_BASE..DICT_BASE + DICT.len() as u32).contains(&u) { back.push_str(DICT[(u - DICT_BASE) as usize]); } else { back.push(c); } }
    if back == text { Some(out) } else { None }
}
fn coq_dict_def() -> String {
    format!("Definition dict_ : list str := {}.", coq_list(DICT, |d| coq_str(d)))
}
/// a piece as a Coq term of type `ztext`
fn coq_ztext(s: &str) -> String {
    match dict_encode(s) { Some(z) => format!("(Z_ {})", coq_text(&z)), None => format!("(R_ {})", coq_text(s)) }
}

#[derive(Default)]
struct Table { pieces: Vec<String>, index: HashMap<String, usize> }
impl Table {
    fn text(&mut self, text: &str) -> String {
        match split_pieces(text) {
            Some(ps) => {
                let idx: Vec<usize> = ps.iter().map(|p| {
                    if let Some(i) = self.index.get(*p) { *i } else { let i = self.pieces.len(); self.pieces.push(p.to_string()); self.index.insert(p.to_string(), i); i }
                }).collect();
                format!("(TPieces {})", coq_list(&idx, |i| coq_n(*i as u64)))
            }
            None => format!("(TRaw {})", coq_ztext(text)),
        }
    }
    fn outcome(&mut self, o: &Outcome) -> String {
        match o {
            Ok(ts) => { let v: Vec<String> = ts.iter().map(|t| self.text(t)).collect(); format!("(OOk {})", coq_list(&v, |s| s.clone())) }
            Err(m) => format!("(OPanic {})", coq_str(m)),
        }
    }
}
/// a long text as a Coq `str`: scalar values in chunks of 400 joined by ++ (very long list literals overflow coqc's stack)
fn coq_text(s: &str) -> String {
    let cs: Vec<u32> = s.chars().map(|c| c as u32).collect();
    if cs.len() <= 400 { return coq_str(s); }
    let parts: Vec<String> = cs.chunks(400).map(|ch| {
        let st: String = ch.iter().map(|c| char::from_u32(*c).unwrap()).collect();
        coq_str(&st)
    }).collect();
    format!("({})", parts.join(" ++ "))
}
/// positions are irrelevant to every function of C12/Model.v; they are replaced by one constant to keep case files small
fn strip_positions(term: &str) -> String {
    let mut out = String::with_capacity(term.len());
    let mut rest = term;
    while let Some(i) = rest.find("(mkPos ") {
        out.push_str(&rest[..i]);
        let j = rest[i..].find(')').unwrap();
        out.push_str("p_");
        rest = &rest[i + j + 1..];
    }
    out.push_str(rest);
    out
}

fn run_js(doc: &OperationDocument, opts: OperationJSPrinterOptions) -> Result<Vec<String>, String> {
    catch(AssertUnwindSafe(|| {
        let mut rec = Rec::default();
        print_js_for_operation_document(opts, doc, &mut rec);
        rec.0
    }))
}


// ------------------------------------------------------------------ fixed schema for synthetic documents

const SCHEMA: &str = r#"
directive @tag(name: String!) repeatable on QUERY | MUTATION | SUBSCRIPTION | FIELD | FRAGMENT_DEFINITION | FRAGMENT_SPREAD | INLINE_FRAGMENT | VARIABLE_DEFINITION
enum E { RED GREEN }
scalar Any
input In { i: Int s: String l: [In!] e: E f: Float b: Boolean id: ID any: Any }
interface Node { id: ID! }
type Query implements Node { id: ID! a: Query b: Query n: Node x: Int y(i: In, l: [Int], s: String, e: E, f: Float, id: ID, b: Boolean, ll: [[String]], any: Any): String }
type Mutation { m(i: In): Query }
type Subscription { s: Query }
"#;

// ------------------------------------------------------------------ value generators (GraphQL source text)

const STR_PIECES: &[&str] = &[
    "a", "b c", "", "\\\"", "\\\\", "\\/", "/", "\\b", "\\f", "\\n", "\\r", "\\t", "\\u0000", "\\u0001", "\\u001f",
    "\\u001F", "\\u007f", "\\u00e9", "\\u2028", "\\u2029", "\\uFFFF", "é", "日本", "😀", "\\u{1F600}", "\\u{7f}", "<\\/script>",
    "*/", "${x}", "`", "'", "\\u0008", "\\u000c", "\\u000A", "\\u0022", "\\u005C", "\u{7f}", "\u{80}", "\u{2028}",
];
const BLOCK_STRINGS: &[&str] = &[
    "\"\"\"block\"\"\"", "\"\"\"\n  two\n    lines\n  \"\"\"", "\"\"\"say \\\"\"\" ok\"\"\"", "\"\"\" \"q\" \\n \\u0041 \"\"\"", "\"\"\"\t/\r\n\"\"\"",
];

fn gen_string(rng: &mut Rng) -> String {
    if rng.chance(1, 8) { return (*rng.pick(BLOCK_STRINGS)).to_string(); }
    let n = rng.below(4);
    let mut s = String::from("\"");
    for _ in 0..n { s.push_str(*rng.pick(STR_PIECES)); }
    s.push('"');
    s
}

/// any value whatsoever (not typed); `vars` = variable names that may be referenced
fn gen_any_value(rng: &mut Rng, depth: usize, vars: &[String], allow_var: bool) -> String {
    match rng.below(if depth >= 3 { 8 } else { 11 }) {
        0 => (*rng.pick(&["0", "1", "-7", "42", "-0", "123456789012345678901234567890"])).to_string(),
        1 => (*rng.pick(&["1.5", "-0.25", "2e3", "1.0E-2", "0.0", "6.02e+23", "-1E5"])).to_string(),
        2 | 3 => gen_string(rng),
        4 => (*rng.pick(&["true", "false"])).to_string(),
        5 => "null".into(),
        6 => (*rng.pick(&["RED", "GREEN", "nullish", "trueish", "on", "fragment", "query", "E"])).to_string(),
        7 => if allow_var && !vars.is_empty() { format!("${}", rng.pick(vars)) } else { "7".into() },
        8 | 9 => {
            let n = rng.below(4);
            let items: Vec<String> = (0..n).map(|_| gen_any_value(rng, depth + 1, vars, allow_var)).collect();
            format!("[{}]", items.join(if rng.chance(1, 2) { ", " } else { " " }))
        }
        _ => {
            let n = rng.below(4);
            let keys = ["i", "s", "l", "e", "kind", "value", "name", "__proto__", "on"];
            let items: Vec<String> = (0..n).map(|_| format!("{}: {}", rng.pick(&keys), gen_any_value(rng, depth + 1, vars, allow_var))).collect();
            format!("{{{}}}", items.join(", "))
        }
    }
}

/// a value of the declared type of argument `arg` of Query.y (typed: accepted by check)
fn gen_typed_value(rng: &mut Rng, arg: &str, depth: usize) -> String {
    if rng.chance(1, 10) { return "null".into(); }
    match arg {
        "i" => {
            let mut parts = vec![];
            for f in ["i", "s", "l", "e", "f", "b", "id", "any"] {
                if rng.chance(1, 3) {
                    let v = if f == "l" {
                        if depth >= 2 { "[]".to_string() } else {
                            let n = rng.below(3);
                            format!("[{}]", (0..n).map(|_| { let mut x = gen_typed_value(rng, "i", depth + 1); if x == "null" { x = "{}".into(); } x }).collect::<Vec<_>>().join(", "))
                        }
                    } else { gen_typed_value(rng, f, depth + 1) };
                    parts.push(format!("{f}: {v}"));
                }
            }
            format!("{{{}}}", parts.join(", "))
        }
        "l" => { let n = rng.below(4); format!("[{}]", (0..n).map(|_| rng.pick(&["1", "-2", "null", "0"]).to_string()).collect::<Vec<_>>().join(", ")) }
        "s" => gen_string(rng),
        "e" => (*rng.pick(&["RED", "GREEN"])).to_string(),
        "f" => (*rng.pick(&["1.5", "-0.25", "2e3", "1.0E-2", "3"])).to_string(),
        "id" => (*rng.pick(&["\"id1\"", "5", "\"\""])).to_string(),
        "b" => (*rng.pick(&["true", "false"])).to_string(),
        "ll" => { let n = rng.below(3); format!("[{}]", (0..n).map(|_| { let m = rng.below(3); format!("[{}]", (0..m).map(|_| gen_string(rng)).collect::<Vec<_>>().join(", ")) }).collect::<Vec<_>>().join(", ")) }
        "any" => gen_any_value(rng, 1, &[], false),
        "i_int" => (*rng.pick(&["0", "1", "-7", "42"])).to_string(),
        _ => "null".into(),
    }
}

// ------------------------------------------------------------------ operation names

/// Operation names as users write them: camelCase, snake_case, a leading underscore, digits after the first
/// character, single letters, PascalCase.  (`capitalizeOperationNames`, on by default, changes the *TypeScript
/// identifiers* generated for most of these; the embedded document must keep the name as written.)
const OP_NAMES: &[&str] = &["getUser", "user_by_id", "q", "_private", "x1y2", "fooQuery", "aB", "list_all_2", "i", "mutationLike",
    "GetUser", "Op", "MyQuery", "A", "__x", "a_", "camelCaseWithDigits9"];
fn op_name(rng: &mut Rng, i: usize, unique_suffix: bool) -> String {
    let base = *rng.pick(OP_NAMES);
    if unique_suffix { format!("{base}{i}") } else { base.to_string() }
}

// ------------------------------------------------------------------ synthetic documents over SCHEMA

struct SynCfg {
    n_frags: usize,
    /// 0 = spreads only to higher-numbered fragments (acyclic), 1 = to any fragment (cycles possible)
    cyclic: bool,
    undefined: bool,   // some spreads name an undefined fragment
    duplicate: bool,   // some fragment is defined twice
    typed: bool,       // argument values follow the schema
    spread_bias: usize,
}

struct Syn<'a> { cfg: &'a SynCfg, vars: Vec<(String, String, Option<String>, Vec<String>)>, var_names: Vec<String>, alias: usize }

const Y_ARGS: &[(&str, &str)] = &[("i", "In"), ("l", "[Int]"), ("s", "String"), ("e", "E"), ("f", "Float"), ("id", "ID"), ("b", "Boolean"), ("ll", "[[String]]"), ("any", "Any")];

impl<'a> Syn<'a> {
    fn dirs(&mut self, rng: &mut Rng, allow_var: bool) -> String {
        let mut s = String::new();
        if rng.chance(1, 6) {
            let which = if rng.chance(1, 2) { "skip" } else { "include" };
            let cond = if allow_var && rng.chance(1, 2) {
                let n = format!("c{}", self.vars.len());
                self.vars.push((n.clone(), "Boolean!".into(), None, vec![]));
                format!("${n}")
            } else { (*rng.pick(&["true", "false"])).to_string() };
            let _ = write!(s, " @{which}(if: {cond})");
        }
        if rng.chance(1, 8) {
            let _ = write!(s, " @tag(name: {})", gen_string_nonblock(rng));
            if rng.chance(1, 3) { s.push_str(" @tag(name: \"u\")"); }
        }
        s
    }
    fn y_field(&mut self, rng: &mut Rng, allow_var: bool) -> String {
        let mut args = vec![];
        for (a, t) in Y_ARGS {
            if rng.chance(1, 3) {
                let v = if allow_var && rng.chance(1, 4) {
                    let n = format!("v{}", self.vars.len());
                    let default = if rng.chance(1, 2) { Some(if self.cfg.typed { gen_typed_value(rng, a, 0) } else { gen_any_value(rng, 0, &[], false) }) } else { None };
                    let dirs = if rng.chance(1, 3) { vec![format!("@tag(name: {})", gen_string_nonblock(rng))] } else { vec![] };
                    self.vars.push((n.clone(), t.to_string(), default, dirs));
                    self.var_names.push(n.clone());
                    format!("${n}")
                } else if self.cfg.typed { gen_typed_value(rng, a, 0) } else {
                    let vn = self.var_names.clone();
                    gen_any_value(rng, 0, &vn, allow_var)
                };
                args.push(format!("{a}: {v}"));
            }
        }
        self.alias += 1;
        let alias = if rng.chance(2, 3) { format!("k{}: ", self.alias) } else { String::new() };
        if args.is_empty() { format!("{alias}y") } else { format!("{alias}y({})", args.join(if rng.chance(1, 2) { ", " } else { " " })) }
    }
    /// selections on Query (or on Node when `on_node`)
    fn sels(&mut self, rng: &mut Rng, depth: usize, targets: &[String], allow_var: bool, out: &mut String) {
        out.push_str("{ ");
        let n = rng.range(1, 4);
        for _ in 0..n {
            let r = rng.below(12 + self.cfg.spread_bias);
            if r >= 12 || r == 0 {
                if targets.is_empty() { out.push_str("x "); continue; }
                let t = if self.cfg.undefined && rng.chance(1, 5) { "Missing".to_string() } else { rng.pick(targets).clone() };
                let d = self.dirs(rng, allow_var);
                let _ = write!(out, "...{t}{d} ");
            } else if r <= 2 && depth < 4 {
                let cond = match rng.below(3) { 0 => "", 1 => " on Query", _ => " on Node" };
                let d = self.dirs(rng, allow_var);
                let _ = write!(out, "...{cond}{d} ");
                if cond == " on Node" { out.push_str("{ id } "); } else { self.sels(rng, depth + 1, targets, allow_var, out); }
            } else if r <= 5 && depth < 4 {
                let f = *rng.pick(&["a", "b"]);
                self.alias += 1;
                let alias = if rng.chance(1, 4) { format!("k{}: ", self.alias) } else { String::new() };
                let d = self.dirs(rng, allow_var);
                let _ = write!(out, "{alias}{f}{d} ");
                self.sels(rng, depth + 1, targets, allow_var, out);
            } else if r <= 8 {
                let f = self.y_field(rng, allow_var);
                let d = self.dirs(rng, allow_var);
                let _ = write!(out, "{f}{d} ");
            } else {
                let _ = write!(out, "{} ", rng.pick(&["x", "id", "__typename", "t: __typename", "x2: x"]));
            }
        }
        out.push_str("} ");
    }
}

fn gen_string_nonblock(rng: &mut Rng) -> String {
    let n = rng.below(3);
    let mut s = String::from("\"");
    for _ in 0..n { s.push_str(*rng.pick(STR_PIECES)); }
    s.push('"');
    s
}

fn gen_syn_doc(rng: &mut Rng, cfg: &SynCfg) -> String {
    let names: Vec<String> = (0..cfg.n_frags).map(|i| format!("F{i}")).collect();
    let mut out = String::new();
    let n_ops = rng.below(3);
    let n_ops = if cfg.n_frags == 0 && n_ops == 0 { 1 } else { n_ops };
    let mut pieces: Vec<String> = vec![];
    for i in 0..n_ops {
        let mut g = Syn { cfg, vars: vec![], var_names: vec![], alias: 0 };
        let mut body = String::new();
        let kind = *rng.pick(&["query", "query", "mutation", "subscription"]);
        match kind {
            "mutation" => { body.push_str("{ m "); g.sels(rng, 1, &names, true, &mut body); body.push_str("} "); }
            "subscription" => { body.push_str("{ s "); g.sels(rng, 1, &names, true, &mut body); body.push_str("} "); }
            _ => g.sels(rng, 0, &names, true, &mut body),
        }
        let mut head = String::new();
        let anon = n_ops == 1 && rng.chance(1, 4);
        if anon && kind == "query" && g.vars.is_empty() && rng.chance(1, 2) {
            pieces.push(body);
            continue;
        }
        head.push_str(kind);
        if !anon { let _ = write!(head, " {}", op_name(rng, i, n_ops > 1)); }
        if !g.vars.is_empty() {
            let vs: Vec<String> = g.vars.iter().map(|(n, t, d, ds)| format!("${n}: {t}{}{}", d.as_ref().map(|d| format!(" = {d}")).unwrap_or_default(), ds.iter().map(|d| format!(" {d}")).collect::<String>())).collect();
            let _ = write!(head, "({})", vs.join(", "));
        }
        if rng.chance(1, 8) { head.push_str(" @tag(name: \"op\")"); }
        pieces.push(format!("{head} {body}"));
    }
    for i in 0..cfg.n_frags {
        let targets: Vec<String> = if cfg.cyclic { names.clone() } else { names[i + 1..].to_vec() };
        let mut g = Syn { cfg, vars: vec![], var_names: vec![], alias: 0 };
        let mut body = String::new();
        g.sels(rng, 1, &targets, false, &mut body);
        let d = if rng.chance(1, 8) { " @tag(name: \"f\")" } else { "" };
        let name = if cfg.duplicate && i > 0 && rng.chance(1, 3) { format!("F{}", rng.below(i)) } else { names[i].clone() };
        pieces.push(format!("fragment {name} on Query{d} {body}"));
    }
    if rng.chance(1, 3) { rng.shuffle(&mut pieces); }
    for p in pieces { out.push_str(&p); out.push('\n'); }
    out
}

/// every spread graph over `n` fragments F0..F(n-1) plus one query: the query and each fragment spread an
/// arbitrary subset of the fragments (self-spreads and cycles included)
fn exhaustive_graphs(n: usize) -> Vec<String> {
    let subsets = 1usize << n;
    let mut out = vec![];
    let total = subsets.pow(n as u32 + 1);
    for code in 0..total {
        let mut c = code;
        let mut s = String::new();
        let body = |mask: usize| -> String {
            let mut b = String::from("{ x ");
            for j in 0..n { if mask & (1 << j) != 0 { let _ = write!(b, "a {{ ...F{j} }} "); } }
            b.push('}');
            b
        };
        let _ = writeln!(s, "query {} {}", ["Q", "getQ", "q_1", "_q"][code % 4], body(c % subsets));
        c /= subsets;
        for i in 0..n {
            let _ = writeln!(s, "fragment F{i} on Query {}", body(c % subsets));
            c /= subsets;
        }
        out.push(s);
    }
    out
}

// ------------------------------------------------------------------ AST edits (shapes the parser never produces)

fn edit_selset(ss: &mut SelectionSet, rng: &mut Rng, n: &mut usize) {
    for s in ss.selections.iter_mut() {
        match s {
            Selection::Field(f) => {
                if f.arguments.is_none() && rng.chance(1, 6) { f.arguments = Some(Arguments { position: f.name.position, arguments: vec![] }); *n += 1; }
                for d in f.directives.iter_mut() { if d.arguments.is_none() && rng.chance(1, 3) { d.arguments = Some(Arguments { position: d.position, arguments: vec![] }); *n += 1; } }
                match &mut f.selection_set {
                    Some(sub) => {
                        if rng.chance(1, 8) { sub.selections.clear(); *n += 1; } else { edit_selset(sub, rng, n); }
                    }
                    None => if rng.chance(1, 10) { f.selection_set = Some(SelectionSet { position: f.name.position, selections: vec![] }); *n += 1; }
                }
            }
            Selection::FragmentSpread(_) => {}
            Selection::InlineFragment(i) => {
                if rng.chance(1, 8) { i.selection_set.selections.clear(); *n += 1; } else { edit_selset(&mut i.selection_set, rng, n); }
            }
        }
    }
}
fn edit_doc(doc: &mut OperationDocument, rng: &mut Rng) -> usize {
    let mut n = 0;
    for d in doc.definitions.iter_mut() {
        match d {
            ExecutableDefinition::OperationDefinition(o) => {
                if o.variables_definition.is_none() && rng.chance(1, 4) { o.variables_definition = Some(VariablesDefinition { position: o.position, definitions: vec![] }); n += 1; }
                if rng.chance(1, 10) { o.selection_set.selections.clear(); n += 1; } else { edit_selset(&mut o.selection_set, rng, &mut n); }
            }
            ExecutableDefinition::FragmentDefinition(f) => {
                if rng.chance(1, 10) { f.selection_set.selections.clear(); n += 1; } else { edit_selset(&mut f.selection_set, rng, &mut n); }
            }
        }
    }
    n
}

// ------------------------------------------------------------------ one case

fn direct_spreads<'a>(ss: &'a SelectionSet<'a>, out: &mut Vec<&'a str>) {
    for s in &ss.selections {
        match s {
            Selection::Field(f) => if let Some(sub) = &f.selection_set { direct_spreads(sub, out) },
            Selection::FragmentSpread(f) => out.push(f.fragment_name.name),
            Selection::InlineFragment(i) => direct_spreads(&i.selection_set, out),
        }
    }
}
/// is there a cycle among the fragment definitions (by name)?
fn spread_graph_cyclic(doc: &OperationDocument) -> bool {
    let mut edges: HashMap<&str, Vec<&str>> = HashMap::new();
    for d in &doc.definitions {
        if let ExecutableDefinition::FragmentDefinition(f) = d {
            let mut v = vec![]; direct_spreads(&f.selection_set, &mut v);
            edges.entry(f.name.name).or_default().extend(v);
        }
    }
    fn visit<'a>(n: &'a str, edges: &HashMap<&'a str, Vec<&'a str>>, stack: &mut Vec<&'a str>, done: &mut HashSet<&'a str>) -> bool {
        if stack.contains(&n) { return true; }
        if done.contains(n) { return false; }
        stack.push(n);
        for m in edges.get(n).map(|v| v.as_slice()).unwrap_or(&[]) { if visit(m, edges, stack, done) { return true; } }
        stack.pop(); done.insert(n);
        false
    }
    let mut done = HashSet::new();
    edges.keys().any(|k| visit(k, &edges, &mut vec![], &mut done))
}

fn leak(s: String) -> &'static str { Box::leak(s.into_boxed_str()) }

struct Ctx<'a> {
    cases: Cases,
    distinct: HashSet<String>,
    nontrivial: HashSet<String>,
    stats: BTreeMap<String, u64>,
    direct_failures: Vec<Value>,
    syn_schema: &'a graphql_type_system::Schema<std::borrow::Cow<'a, str>, nitrogql_ast::base::Pos>,
    cfg: Config,
    /// the loader driver (harness/c12-loader), every how-many-th document is run through it, and the source
    /// files of the next document pushed (root path, [(path, source)])
    loader_exe: Option<String>,
    loader_every: usize,
    loader_seen: usize,
    project: Option<(String, Vec<(String, String)>)>,
}

/// what the loader's emit_js did for one project: Ok(js text) / Err(result string); None = the child process
/// died (a panic inside an extern "C" function) ; Some(Err((stage, msg))) for a failure before emit_js
enum LoaderRun { Js(String), EmitErr(String), Earlier(String, String), Died }
fn run_loader(exe: &str, root: &str, files: &[(String, String)]) -> LoaderRun {
    use std::io::Write as _;
    use std::process::{Command, Stdio};
    let mut fm = serde_json::Map::new();
    for (p, s) in files { fm.insert(p.clone(), Value::String(s.clone())); }
    let req = json!({"root": root, "files": fm}).to_string();
    let Ok(mut child) = Command::new(exe).stdin(Stdio::piped()).stdout(Stdio::piped()).stderr(Stdio::null()).spawn() else { return LoaderRun::Died };
    { let mut si = child.stdin.take().unwrap(); let _ = si.write_all(req.as_bytes()); }
    let Ok(out) = child.wait_with_output() else { return LoaderRun::Died };
    let line = String::from_utf8_lossy(&out.stdout);
    match serde_json::from_str::<Value>(line.trim()) {
        Ok(v) if v["ok"] == true => LoaderRun::Js(v["js"].as_str().unwrap_or("").to_string()),
        Ok(v) if v["stage"] == "emit_js" => LoaderRun::EmitErr(v["error"].as_str().unwrap_or("").to_string()),
        Ok(v) => LoaderRun::Earlier(v["stage"].as_str().unwrap_or("").to_string(), v["error"].as_str().unwrap_or("").to_string()),
        Err(_) => LoaderRun::Died,
    }
}
/// the runtime documents in a module text: every definition is written as `[export ]const NAME = <json>;` on one
/// line (json-writer escapes every control character, so the JSON has no line break)
fn js_text_chunks(js: &str) -> Vec<String> {
    js.split('\n').filter_map(|l| {
        let l = l.strip_prefix("export ").unwrap_or(l);
        let r = l.strip_prefix("const ")?;
        let i = r.find(" = ")?;
        Some(r[i + 3..].strip_suffix(';')?.to_string())
    }).collect()
}

impl<'a> Ctx<'a> {
    /// at most 3 reports per kind of directly observed failure (the rest is counted)
    fn direct_failure(&mut self, v: Value) {
        let kind: String = v["what"].as_str().unwrap_or("").chars().take(48).collect();
        let seen = self.direct_failures.iter().filter(|x| x["what"].as_str().unwrap_or("").starts_with(&kind)).count();
        if seen < 3 { self.direct_failures.push(v); } else { self.bump("direct_failures_not_listed"); }
    }
    fn bump(&mut self, k: &str) { *self.stats.entry(k.to_string()).or_insert(0) += 1; }
    fn add(&mut self, k: &str, n: u64) { *self.stats.entry(k.to_string()).or_insert(0) += n; }

    /// `schema`: the type system to check / print types against (None: neither is run)
    fn push_doc(&mut self, stream: &str, text: &str, doc: &OperationDocument,
                schema: Option<&graphql_type_system::Schema<std::borrow::Cow<'_, str>, nitrogql_ast::base::Pos>>, edited: bool) {
        self.bump(&format!("stream:{stream}"));
        let accepted = match schema {
            Some(s) if !edited => match catch(AssertUnwindSafe(|| check_operation(s, doc).is_empty())) { Ok(b) => b, Err(_) => { self.bump("check_panicked"); false } },
            _ => false,
        };
        if accepted { self.bump("accepted_by_check"); }
        // 1. JS printer, recording writer
        let js_ops = run_js(doc, OperationJSPrinterOptions::from_config(&self.cfg));
        let js: Outcome = js_ops.as_ref().map(|ops| json_chunks(ops)).map_err(|e| e.clone());
        // 1b. the loader's own print_js (SourceWriter text) must be the concatenation of the recorded chunks
        let loader = catch(AssertUnwindSafe(|| loader_js_printer::print_js(doc, &self.cfg)));
        match (&js_ops, &loader) {
            (Ok(ops), Ok(text)) => {
                if &ops.concat() != text {
                    self.direct_failure(json!({"what": "graphql-loader print_js text differs from the chunks print_js_for_operation_document writes", "classes": [], "document": text}));
                }
                // the embedded documents do not depend on the printer options: default options (CLI), and every
                // combination of capitalizeOperationNames / export style / variable suffixes give the same chunks
                let mut variants = vec![OperationJSPrinterOptions::default()];
                for (cap, named, sfx) in [(false, false, "Doc"), (true, true, ""), (false, true, "_q"), (true, false, "Operation")] {
                    let mut o = OperationJSPrinterOptions::default();
                    o.base_options.capitalize_operation_names = cap;
                    o.base_options.named_export_for_operation = named;
                    o.base_options.default_export_for_operation = !named;
                    o.base_options.query_variable_suffix = sfx.to_string();
                    o.base_options.mutation_variable_suffix = format!("{sfx}M");
                    o.base_options.subscription_variable_suffix = format!("{sfx}S");
                    o.base_options.fragment_variable_suffix = sfx.to_string();
                    variants.push(o);
                }
                for o in variants {
                    let descr = format!("capitalize={} named_export={} query_suffix={:?}", o.base_options.capitalize_operation_names, o.base_options.named_export_for_operation, o.base_options.query_variable_suffix);
                    if let Ok(ops2) = run_js(doc, o) {
                        if json_chunks(&ops2) != json_chunks(ops) {
                            self.direct_failure(json!({"what": format!("the embedded runtime documents depend on printer options ({descr} differs from the default configuration)"), "classes": [], "document": text}));
                            break;
                        }
                    }
                }
                self.bump("loader_text_checked");
            }
            (Err(a), Err(b)) if a == b => {}
            _ => self.direct_failure(json!({"what": "graphql-loader print_js and print_js_for_operation_document differ in panicking", "classes": [], "document": text})),
        }
        // 2. TS printer in standalone mode (needs a schema and a document the type printer can handle).
        // The type printer recurses without a visited set: on a document with a fragment cycle it overflows the
        // stack and the process dies.  Since /repo c67e45e `check` rejects every fragment cycle (also one no
        // operation reaches), so this guard should never fire; it stays so that a regression of the checker is
        // counted here instead of killing the harness.
        let cyclic = spread_graph_cyclic(doc);
        if accepted && cyclic { self.bump("accepted_by_check_but_cyclic_fragments(ts_mode_not_run:stack_overflow)"); }
        let ts: Option<Outcome> = match schema {
            Some(s) if accepted && !cyclic => {
                let r = catch(AssertUnwindSafe(|| {
                    let mut rec = Rec::default();
                    let opts = OperationTypePrinterOptions { print_values: true, ..OperationTypePrinterOptions::default() };
                    print_types_for_operation_document(opts, s, doc, &mut rec);
                    json_chunks(&rec.0)
                }));
                if let Ok(c) = &r {
                    let r2 = catch(AssertUnwindSafe(|| {
                        let mut rec = Rec::default();
                        let mut opts = OperationTypePrinterOptions { print_values: true, ..OperationTypePrinterOptions::default() };
                        opts.base_options.capitalize_operation_names = false;
                        opts.base_options.query_variable_suffix = "Doc".to_string();
                        print_types_for_operation_document(opts, s, doc, &mut rec);
                        json_chunks(&rec.0)
                    }));
                    if let Ok(c2) = r2 { if &c2 != c {
                        self.direct_failure(json!({"what": "standalone-TS mode: the embedded runtime documents depend on capitalizeOperationNames / variable suffixes", "classes": [], "document": text}));
                    } }
                }
                match r {
                    Ok(c) => { self.bump("ts_mode_run"); Some(Ok(c)) }
                    Err(m) => {
                        if m == "fragment not found" { self.bump("ts_mode_run"); Some(Err(m)) } else { self.bump(&format!("ts_mode_other_panic:{}", m.chars().take(60).collect::<String>())); None }
                    }
                }
            }
            _ => None,
        };
        // 3. hooks
        let whole = print_to_json_string(doc);
        let frags: HashMap<&str, &FragmentDefinition> = doc.definitions.iter().filter_map(|d| match d {
            ExecutableDefinition::FragmentDefinition(f) => Some((f.name.name, f)), _ => None }).collect();
        let names: Vec<Vec<String>> = doc.definitions.iter().map(|d| {
            let ss = match d { ExecutableDefinition::OperationDefinition(o) => &o.selection_set, ExecutableDefinition::FragmentDefinition(f) => &f.selection_set };
            fragment_names_in_selection_set(ss, |n| frags.get(n).copied()).into_iter().map(|s| s.to_string()).collect()
        }).collect();
        // statistics
        for d in &doc.definitions {
            if let ExecutableDefinition::OperationDefinition(o) = d {
                match o.name {
                    None => self.bump("operation_names:anonymous"),
                    Some(n) => if nitrogql_utils::capitalize(n.name) != n.name { self.bump("operation_names:changed_by_capitalize") } else { self.bump("operation_names:unchanged_by_capitalize") },
                }
            }
        }
        let n_spreads = text.matches("...F").count() + text.matches("...Missing").count();
        let max_closure = names.iter().map(|n| n.len()).max().unwrap_or(0);
        self.add("defs_total", doc.definitions.len() as u64);
        self.add("closure_names_total", names.iter().map(|n| n.len() as u64).sum());
        self.bump(&format!("max_closure:{}", max_closure.min(6)));
        match &js { Ok(_) => self.bump("js:ok"), Err(m) => self.bump(&format!("js:panic:{m}")) }
        if self.distinct.insert(text.to_string()) && (n_spreads > 0 || text.contains('(')) { self.nontrivial.insert(text.to_string()); }
        // no known-finding class is left for C12 (the one there was, an accepted document whose unspread
        // fragment spreads an undefined fragment, was fixed in /repo c67e45e): an accepted document for which
        // the printer panics is a plain violation
        let classes: Vec<&str> = vec![];
        if accepted && js.is_err() { self.bump("ACCEPTED_DOCUMENT_PRINTER_PANIC"); }
        let emitted: usize = js.as_ref().map(|v| v.iter().map(|s| s.len()).sum()).unwrap_or(0);
        let project = self.project.take();
        if whole.len() > 24_000 || emitted > 300_000 { self.bump("skipped_too_large_for_coqc"); return; }
        let mut table = Table::default();
        let (js_t, ts_t, whole_t) = (table.outcome(&js), ts.as_ref().map(|o| table.outcome(o)), table.text(&whole));
        // 4. the loader route end to end: the real initiate_task / load_file / emit_js on the source files, in a
        //    child process (harness/c12-loader)
        let mut loader_descr = Value::Null;
        let ld_t: Option<String> = match (&self.loader_exe, project) {
            (Some(exe), Some((root, files))) if !edited && { self.loader_seen += 1; self.loader_seen % self.loader_every == 0 } => {
                match run_loader(exe, &root, &files) {
                    LoaderRun::Js(text) => {
                        self.bump("loader_emit_js:ok");
                        // the runtime documents in the module text are those print_js_for_operation_document writes for
                        // the document as this harness parsed / resolved it (the text around them may differ: the loader
                        // parses every file with file index 0, so imported fragments are exported there -- C14's subject)
                        if let Ok(ops) = &js_ops { if json_chunks(ops) != js_text_chunks(&text) {
                            self.direct_failure(json!({"what": "the runtime documents in the loader's emit_js text differ from those print_js_for_operation_document writes for the same sources", "classes": [], "document": text.chars().take(3000).collect::<String>()}));
                        } }
                        let chunks = js_text_chunks(&text);
                        loader_descr = json!({"ok": chunks});
                        let v: Vec<String> = chunks.iter().map(|c| table.text(c)).collect();
                        Some(format!("(LOk {})", coq_list(&v, |s| s.clone())))
                    }
                    LoaderRun::EmitErr(m) => { self.bump("loader_emit_js:err"); loader_descr = json!({"error": m}); Some(format!("(LErr {})", coq_str(&m))) }
                    LoaderRun::Earlier(stage, m) => { self.bump(&format!("loader_failed_before_emit_js:{stage}")); loader_descr = json!({"stage": stage, "error": m}); None }
                    LoaderRun::Died => { self.bump("LOADER_PROCESS_DIED"); loader_descr = json!({"died": true}); Some("(LPanic [])".to_string()) }
                }
            }
            _ => None,
        };
        let term = format!("CDoc {} {} dict_ {} {} {} {} {} {}", coq_bool(accepted), strip_positions(&ast_coq::opdoc(doc)),
            coq_list(&table.pieces, |p| coq_ztext(p)), js_t,
            coq_opt(&ts_t, |s| s.clone()), whole_t, coq_opt(&ld_t, |s| s.clone()), coq_list(&names, |ns| coq_list(ns, |n| coq_str(n))));
        let short = |o: &Outcome| match o { Ok(ts) => json!({"ok": ts}), Err(m) => json!({"panic": m}) };
        self.cases.push(term, json!({"stream": stream, "document": text, "ast_edited": edited, "accepted_by_check": accepted,
            "js": short(&js), "ts": ts.as_ref().map(short), "whole": whole, "loader_emit_js": loader_descr, "fragment_names": names, "classes": classes}));
    }

    fn push_text(&mut self, stream: &str, text: String, with_schema: bool) {
        let text = leak(text);
        match catch(|| load_operation(text)) {
            Ok(Ok(doc)) => {
                let s = self.syn_schema;
                self.project = Some(("/p/main.graphql".to_string(), vec![("/p/main.graphql".to_string(), text.to_string())]));
                self.push_doc(stream, text, &doc, if with_schema { Some(s) } else { None }, false);
            }
            Ok(Err(e)) => { self.bump("unparsable_generated_text"); if self.stats["unparsable_generated_text"] < 4 { eprintln!("UNPARSABLE {e}\n{text}"); } }
            Err(p) => { self.bump(&format!("parser_panic:{p}")); }
        }
    }
}

// ------------------------------------------------------------------ imported fragments

struct Parsed { doc: OperationDocument<'static>, ext: OperationExtension<'static> }
struct Resolver<'a>(&'a [(String, Parsed)]);
impl<'a> OperationResolver<'static> for Resolver<'a> {
    fn resolve(&self, path: &Path) -> Option<(&OperationDocument<'static>, &OperationExtension<'static>)> {
        let p = path.to_str().unwrap();
        self.0.iter().find(|(n, _)| n == p).map(|(_, x)| (&x.doc, &x.ext))
    }
}
fn parse_file(src: &'static str, idx: usize) -> Option<Parsed> {
    set_current_file_of_pos(idx);
    let r = nitrogql_parser::parse_operation_document(src).ok().and_then(|d| nitrogql_semantics::resolve_operation_extensions(d).ok());
    set_current_file_of_pos(0);
    r.map(|(doc, ext)| Parsed { doc, ext })
}

fn main() {
    silence_panics();
    let args = parse_args();
    let mut rng = Rng::new(args.seed);
    let thorough = args.tier == "thorough";
    let syn_tsdoc = load_schema(SCHEMA).expect("fixed schema loads");
    assert!(check_schema(&syn_tsdoc).is_empty(), "fixed schema is valid");
    let syn_schema = to_type_system(&syn_tsdoc);
    let mut cx = Ctx {
        cases: Cases::new(&format!("From V Require Import Base.Util Gql.Ast C12.Model C12.Spec C12.Corr.\n{}", coq_dict_def()), "case", "agree", "holds", 20),
        distinct: HashSet::new(), nontrivial: HashSet::new(), stats: BTreeMap::new(), direct_failures: vec![],
        syn_schema: &syn_schema, cfg: Config::default(),
        loader_exe: args.extra.iter().position(|a| a == "--loader").and_then(|i| args.extra.get(i + 1)).cloned(),
        loader_every: if thorough { 3 } else { 1 }, loader_seen: 0, project: None,
    };

    // replay of one document (./verify C12 --replay <file>): only that document
    if let Some(i) = args.extra.iter().position(|a| a == "--doc") {
        let text = std::fs::read_to_string(&args.extra[i + 1]).expect("replay document readable");
        cx.push_text("replay", text.clone(), true);
        cx.cases.write(&args.out);
        write_meta(&args.out, &json!({"evaluations": cx.cases.len(), "distinct_nontrivial": cx.nontrivial.len(),
            "rule": "replay of one stored document", "samples": [text], "distribution": cx.stats, "direct_failures": cx.direct_failures}));
        return;
    }

    // 0. corpus: witnesses of known findings and past disagreements
    let corpus: &[(&str, &str)] = &[
        ("unspread-undefined", "query Q { x }\nfragment U on Query { x ...Missing }\n"),
        ("op-spreads-undefined", "query Q { x ...Missing }\n"),
        ("cycle", "query Q { ...A }\nfragment A on Query { a { ...B } }\nfragment B on Query { b { ...A } x }\n"),
        ("self", "fragment A on Query { a { ...A } }\n"),
        ("diamond", "query Q { ...A ...B }\nfragment D on Query { x }\nfragment B on Query { ...D id }\nfragment A on Query { ...D x }\nfragment Unused on Query { ...A }\n"),
        ("dup-frag", "query Q { ...A }\nfragment A on Query { x }\nfragment A on Query { id ...B }\nfragment B on Query { x }\n"),
        ("lower-case-names", "query getUser { x ...A }\nmutation user_by_id { m { x } }\nsubscription _s1 { s { x } }\nfragment A on Query { id }\n"),
        ("vardef", "query q($a: Int = 3 @tag(name: \"v\"), $b: [In!]! = [{i: 1, l: []}], $c: Boolean! = true) { y(i: {i: $a, l: $b}, b: $c) }\n"),
        ("values", "{ y(s: \"q\\\"\\\\\\/\\b\\f\\n\\r\\t\\u0001\\u001f\\u007f/😀\\u{1F600}\", f: -1.0E-2, l: [1, null], e: RED, b: false, id: null, ll: [[\"\"\"b\n l\"\"\"]], any: {kind: \"Name\", __proto__: [$v]}) }\n"),
        ("inline", "query { ... on Query @include(if: true) { x } ... @skip(if: false) { id } n { ... on Query { x } } }\n"),
    ];
    for (_, t) in corpus { cx.push_text("corpus", t.to_string(), true); }

    // 1. every spread graph over n fragments
    let n_ex = if thorough { 3 } else { 2 };
    for t in exhaustive_graphs(n_ex) { cx.push_text(&format!("exhaustive-graphs-{n_ex}"), t, true); }
    if thorough { for t in exhaustive_graphs(2) { cx.push_text("exhaustive-graphs-2", t, true); } }

    // 2. documents from the shared generators (spec-valid, accepted by check), all value kinds and directives
    let n_schemas = if thorough { 200 } else { 30 };
    let per_schema = if thorough { 8 } else { 4 };
    for _ in 0..n_schemas {
        let s = gen_schema(&mut rng, &SchemaCfg::default());
        let sdl = leak(s.render());
        let Ok(tsdoc) = load_schema(sdl) else { cx.bump("gen_schema_rejected"); continue; };
        if !check_schema(&tsdoc).is_empty() { cx.bump("gen_schema_rejected"); continue; }
        let tsdoc: &'static _ = Box::leak(Box::new(tsdoc));
        let ts = to_type_system(tsdoc);
        for _ in 0..per_schema {
            let cfg = DocCfg { coercions: rng.chance(1, 2), shorthand: rng.chance(1, 3), ..DocCfg::default() };
            let mut d = gen_doc(&mut rng, &s, &cfg);
            let n_named = d.ops.iter().filter(|o| o.name.is_some()).count();
            for (i, o) in d.ops.iter_mut().enumerate() { if o.name.is_some() { o.name = Some(op_name(&mut rng, i, n_named > 1)); } }
            let text = leak(d.render());
            match catch(|| load_operation(text)) {
                Ok(Ok(doc)) => {
                    cx.project = Some(("/p/main.graphql".to_string(), vec![("/p/main.graphql".to_string(), text.to_string())]));
                    cx.push_doc("gen.rs", text, &doc, Some(&ts), false)
                }
                _ => cx.bump("unparsable_generated_text"),
            }
        }
    }

    // 3. synthetic spread graphs with rich values over the fixed schema
    let n_syn = if thorough { 4000 } else { 320 };
    for i in 0..n_syn {
        let cfg = SynCfg {
            n_frags: rng.range(0, 6),
            cyclic: i % 4 == 1,
            undefined: i % 8 == 3,
            duplicate: i % 8 == 5,
            typed: i % 2 == 0,
            spread_bias: rng.range(0, 6),
        };
        let stream = format!("synthetic{}{}{}{}", if cfg.cyclic { "-cyclic" } else { "" }, if cfg.undefined { "-undefined" } else { "" },
            if cfg.duplicate { "-duplicate" } else { "" }, if cfg.typed { "-typed" } else { "-anyvalues" });
        let t = gen_syn_doc(&mut rng, &cfg);
        cx.push_text(&stream, t, true);
    }

    // 3b. documents that `check` accepts, plus one fragment that no operation spreads and that (a) spreads an
    //     undefined fragment, (b) spreads itself: since /repo c67e45e both must be rejected by `check`
    //     (before it they were accepted and the printers panicked / overflowed the stack).  If one is accepted
    //     again the case goes through like any other and `holds` fails on it.
    let n_unspread = if thorough { 600 } else { 60 };
    for i in 0..n_unspread {
        let cfg = SynCfg { n_frags: rng.range(0, 3), cyclic: false, undefined: false, duplicate: false, typed: true, spread_bias: 3 };
        let base = gen_syn_doc(&mut rng, &cfg);
        let base_ok = {
            let text = leak(base.clone());
            match catch(|| load_operation(text)) { Ok(Ok(doc)) => catch(AssertUnwindSafe(|| check_operation(&syn_schema, &doc).is_empty())).unwrap_or(false), _ => false }
        };
        if !base_ok { cx.bump("unspread:base_not_accepted"); continue; }
        let (stream, extra) = if i % 2 == 0 { ("unspread-undefined", "fragment U9 on Query { x a { ...Missing } }\n") } else { ("unspread-cycle", "fragment C9 on Query { a { ...C8 } }\nfragment C8 on Query { x ...C9 }\n") };
        let before = cx.stats.get("accepted_by_check").copied().unwrap_or(0);
        cx.push_text(stream, format!("{base}{extra}"), true);
        let after = cx.stats.get("accepted_by_check").copied().unwrap_or(0);
        cx.bump(&format!("{stream}:{}", if after > before { "ACCEPTED_BY_CHECK" } else { "rejected_by_check" }));
    }

    // 4. AST shapes the parser never produces (empty selection sets, Some(empty arguments), Some(empty variables))
    let n_edit = if thorough { 1000 } else { 100 };
    let mut n_edits = 0u64;
    for _ in 0..n_edit {
        let cfg = SynCfg { n_frags: rng.range(0, 4), cyclic: false, undefined: false, duplicate: false, typed: true, spread_bias: 2 };
        let text = leak(gen_syn_doc(&mut rng, &cfg));
        if let Ok(Ok(mut doc)) = catch(|| load_operation(text)) {
            let n = edit_doc(&mut doc, &mut rng);
            n_edits += n as u64;
            cx.push_doc("ast-edited", text, &doc, None, true);
        }
    }
    cx.add("ast_edits_applied", n_edits);

    // 5. imported fragments: main file + a library file, resolved by the real resolve_operation_imports
    let n_imp = if thorough { 400 } else { 40 };
    for _ in 0..n_imp {
        let cfg = SynCfg { n_frags: rng.range(1, 4), cyclic: false, undefined: false, duplicate: false, typed: true, spread_bias: 4 };
        // library: fragments F0..; main: query spreading some of them + a local fragment L spreading an imported one
        let lib_text = {
            let names: Vec<String> = (0..cfg.n_frags).map(|i| format!("F{i}")).collect();
            let mut out = String::new();
            for i in 0..cfg.n_frags {
                let mut g = Syn { cfg: &cfg, vars: vec![], var_names: vec![], alias: 0 };
                let mut body = String::new();
                g.sels(&mut rng, 1, &names[i + 1..].to_vec(), false, &mut body);
                let _ = writeln!(out, "fragment F{i} on Query {body}");
            }
            out
        };
        let wildcard = rng.chance(1, 2);
        let k = rng.range(1, cfg.n_frags);
        let imported: Vec<String> = (0..k).map(|i| format!("F{i}")).collect();
        let mut main_text = if wildcard { "#import * from \"./lib.graphql\"\n".to_string() } else { format!("#import {} from \"./lib.graphql\"\n", imported.join(", ")) };
        let _ = writeln!(main_text, "query mainQuery_1 {{ x {} a {{ ...L }} }}", imported.iter().map(|n| format!("...{n} ")).collect::<String>());
        let _ = writeln!(main_text, "fragment L on Query {{ id ...{} }}", imported[rng.below(imported.len())]);
        let (lib_text, main_text) = (leak(lib_text), leak(main_text));
        let (Some(lib), Some(main)) = (parse_file(lib_text, 1), parse_file(main_text, 0)) else { cx.bump("unparsable_generated_text"); continue; };
        let files = vec![("/p/lib.graphql".to_string(), lib)];
        let r = catch(AssertUnwindSafe(|| resolve_operation_imports((Path::new("/p/main.graphql"), &main.doc, &main.ext), &Resolver(&files))));
        match r {
            Ok(Ok(doc)) => {
                let text = format!("# file /p/main.graphql\n{main_text}# file /p/lib.graphql\n{lib_text}");
                cx.project = Some(("/p/main.graphql".to_string(), vec![("/p/main.graphql".to_string(), main_text.to_string()), ("/p/lib.graphql".to_string(), lib_text.to_string())]));
                cx.push_doc("imported", leak(text), &doc, Some(&syn_schema), false);
            }
            _ => cx.bump("import_resolution_failed"),
        }
    }

    cx.cases.write(&args.out);
    let n = cx.cases.len();
    let samples: Vec<_> = [0usize, 9, n / 3, n / 2, n - 1].iter().map(|i| {
        let d = &cx.cases.descr[*i];
        json!({"stream": d["stream"], "document": d["document"], "accepted_by_check": d["accepted_by_check"], "fragment_names": d["fragment_names"],
               "js_first_chunk_prefix": d["js"]["ok"].get(0).and_then(|s| s.as_str()).map(|s| s.chars().take(160).collect::<String>())})
    }).collect();
    write_meta(&args.out, &json!({
        "evaluations": n,
        "distinct_nontrivial": cx.nontrivial.len(),
        "rule": "distinct = distinct document texts; non-trivial = the document contains at least one named fragment spread or at least one argument/variable list (so either the fragment closure or the value printer is exercised); every case runs print_js_for_operation_document, graphql-loader's print_js, print_to_json_string and fragment_names_in_selection_set of /repo, accepted documents also print_types_for_operation_document in standalone-ts mode",
        "samples": samples,
        "distribution": cx.stats,
        "direct_failures": cx.direct_failures,
    }));
}
