//! C05: valid-by-construction schema models (all seven kinds, extensions over several files, a legal
//! directive on every type-system location, interfaces implementing interfaces with covariant fields,
//! arguments with defaults), single-fault mutations labelled by rule, rendered to SDL and run through the
//! real pipeline of /repo (parse each file -> merge -> + built-ins as the CLI does -> resolve_schema_extensions
//! -> check_type_system_document).  Every case carries the resolved document as a Coq term and the exact
//! diagnostics (constructor + payload, position, additional info) in order.
use nitrogql_ast::set_current_file_of_pos;
use nitrogql_ast::type_system::TypeSystemOrExtensionDocument;
use nitrogql_checker::{check_type_system_document, CheckError, CheckErrorMessage as M};
use nitrogql_parser::parse_type_system_document;
use nitrogql_semantics::resolve_schema_extensions;
use serde_json::json;
use std::collections::{BTreeMap, HashSet};
use verif_harness::ast_coq;
use verif_harness::*;

#[allow(dead_code)]
#[path = "/repo/crates/cli/src/builtins.rs"]
mod cli_builtins;

// ------------------------------------------------------------------ schema models

const TS_LOCS: [&str; 11] = ["SCHEMA", "SCALAR", "OBJECT", "FIELD_DEFINITION", "ARGUMENT_DEFINITION", "INTERFACE", "UNION",
                             "ENUM", "ENUM_VALUE", "INPUT_OBJECT", "INPUT_FIELD_DEFINITION"];
const EX_LOCS: [&str; 8] = ["QUERY", "MUTATION", "SUBSCRIPTION", "FIELD", "FRAGMENT_DEFINITION", "FRAGMENT_SPREAD",
                            "INLINE_FRAGMENT", "VARIABLE_DEFINITION"];
const BUILTIN_SCALARS: [&str; 5] = ["Int", "Float", "String", "Boolean", "ID"];

#[derive(Clone, Debug, PartialEq)]
enum Ty { Named(String), List(Box<Ty>), NonNull(Box<Ty>) }
impl Ty {
    fn n(s: &str) -> Ty { Ty::Named(s.to_string()) }
    fn nn(t: Ty) -> Ty { Ty::NonNull(Box::new(t)) }
    fn l(t: Ty) -> Ty { Ty::List(Box::new(t)) }
    fn base(&self) -> &str { match self { Ty::Named(n) => n, Ty::List(t) | Ty::NonNull(t) => t.base() } }
    fn set_base(&mut self, s: &str) { match self { Ty::Named(n) => *n = s.to_string(), Ty::List(t) | Ty::NonNull(t) => t.set_base(s) } }
    fn render(&self) -> String {
        match self { Ty::Named(n) => n.clone(), Ty::List(t) => format!("[{}]", t.render()), Ty::NonNull(t) => format!("{}!", t.render()) }
    }
    fn is_nonnull(&self) -> bool { matches!(self, Ty::NonNull(_)) }
}

/// a directive application; args None = no parentheses
#[derive(Clone, Debug)]
struct App { name: String, args: Option<Vec<(String, String)>> }
#[derive(Clone, Debug)]
struct Arg { name: String, ty: Ty, default: Option<String>, dirs: Vec<App>, desc: Option<String> }
#[derive(Clone, Debug)]
struct Field { name: String, args: Vec<Arg>, ty: Ty, dirs: Vec<App>, desc: Option<String>, root: Option<(String, String)> }
#[derive(Clone, Debug)]
struct EnumVal { name: String, dirs: Vec<App> }
#[derive(Clone, Debug)]
enum Kind {
    Scalar,
    Object { implements: Vec<String>, fields: Vec<Field> },
    Interface { implements: Vec<String>, fields: Vec<Field> },
    Union { members: Vec<String> },
    Enum { values: Vec<EnumVal> },
    Input { fields: Vec<Arg> },
}
#[derive(Clone, Debug)]
struct TypeDef { name: String, kind: Kind, dirs: Vec<App>, desc: Option<String>, is_ext: bool }
#[derive(Clone, Debug)]
struct DirDef { name: String, args: Vec<Arg>, repeatable: bool, locations: Vec<String>, desc: Option<String> }
#[derive(Clone, Debug)]
struct SchemaDef { dirs: Vec<App>, ops: Vec<(String, String)>, is_ext: bool }
#[derive(Clone, Debug)]
enum Item { T(TypeDef), D(DirDef), S(SchemaDef) }
#[derive(Clone, Debug)]
struct Model { items: Vec<Item>, features: Vec<String>, n_files: usize,
               /// whole files appended verbatim after the rendered ones (layouts the renderer must not disturb)
               extra_files: Vec<String> }

impl Model {
    fn types(&self) -> impl Iterator<Item = &TypeDef> { self.items.iter().filter_map(|i| if let Item::T(t) = i { Some(t) } else { None }) }
    fn dirs(&self) -> impl Iterator<Item = &DirDef> { self.items.iter().filter_map(|i| if let Item::D(d) = i { Some(d) } else { None }) }
    fn get(&self, name: &str) -> Option<&TypeDef> { self.types().find(|t| t.name == name && !t.is_ext) }
    fn get_dir(&self, name: &str) -> Option<DirDef> {
        if let Some(d) = self.dirs().find(|d| d.name == name) { return Some(d.clone()); }
        builtin_dirs().into_iter().find(|d| d.name == name)
    }
    fn names_of(&self, f: impl Fn(&Kind) -> bool) -> Vec<String> { self.types().filter(|t| !t.is_ext && f(&t.kind)).map(|t| t.name.clone()).collect() }
    fn kind_tag(&self, name: &str) -> &'static str {
        if BUILTIN_SCALARS.contains(&name) { return "scalar"; }
        match self.get(name).map(|t| &t.kind) {
            Some(Kind::Scalar) => "scalar", Some(Kind::Object { .. }) => "object", Some(Kind::Interface { .. }) => "interface",
            Some(Kind::Union { .. }) => "union", Some(Kind::Enum { .. }) => "enum", Some(Kind::Input { .. }) => "input", None => "none",
        }
    }
}

fn builtin_dirs() -> Vec<DirDef> {
    let a = |n: &str, t: Ty, d: Option<&str>| Arg { name: n.into(), ty: t, default: d.map(|x| x.to_string()), dirs: vec![], desc: None };
    let s = |xs: &[&str]| xs.iter().map(|x| x.to_string()).collect::<Vec<_>>();
    vec![
        DirDef { name: "skip".into(), args: vec![a("if", Ty::nn(Ty::n("Boolean")), None)], repeatable: false, locations: s(&["FIELD", "FRAGMENT_SPREAD", "INLINE_FRAGMENT"]), desc: None },
        DirDef { name: "include".into(), args: vec![a("if", Ty::nn(Ty::n("Boolean")), None)], repeatable: false, locations: s(&["FIELD", "FRAGMENT_SPREAD", "INLINE_FRAGMENT"]), desc: None },
        DirDef { name: "deprecated".into(), args: vec![a("reason", Ty::n("String"), Some("\"No longer supported\""))], repeatable: false,
                 locations: s(&["FIELD_DEFINITION", "ARGUMENT_DEFINITION", "INPUT_FIELD_DEFINITION", "ENUM_VALUE"]), desc: None },
        DirDef { name: "specifiedBy".into(), args: vec![a("url", Ty::nn(Ty::n("String")), None)], repeatable: false, locations: s(&["SCALAR"]), desc: None },
        DirDef { name: "nitrogql_ts_type".into(), args: ["resolverInput", "resolverOutput", "operationInput", "operationOutput"].iter()
                    .map(|n| a(n, Ty::nn(Ty::n("String")), None)).collect(), repeatable: false, locations: s(&["SCALAR"]), desc: None },
    ]
}

// ------------------------------------------------------------------ rendering (layout choices from `lay`)

fn r_app(a: &App) -> String {
    match &a.args {
        None => format!("@{}", a.name),
        Some(xs) => format!("@{}({})", a.name, xs.iter().map(|(k, v)| format!("{k}: {v}")).collect::<Vec<_>>().join(", ")),
    }
}
fn r_apps(ds: &[App]) -> String { ds.iter().map(|d| format!(" {}", r_app(d))).collect::<String>() }
fn r_desc(d: &Option<String>, ind: &str) -> String {
    match d {
        None => String::new(),
        Some(x) if x.contains('\n') => format!("{ind}\"\"\"\n{ind}{}\n{ind}\"\"\"\n", x.replace('\n', &format!("\n{ind}"))),
        Some(x) => format!("{ind}\"{}\"\n", x.replace('\\', "\\\\").replace('"', "\\\"")),
    }
}
fn r_arg(a: &Arg) -> String {
    format!("{}{}: {}{}{}", match &a.desc { Some(d) => format!("\"{}\" ", d), None => String::new() }, a.name, a.ty.render(),
            a.default.as_ref().map(|d| format!(" = {d}")).unwrap_or_default(), r_apps(&a.dirs))
}
fn r_args(args: &[Arg], lay: &mut Rng) -> String {
    if args.is_empty() { return String::new(); }
    let sep = if lay.chance(1, 4) { "\n    " } else if lay.chance(1, 3) { " " } else { ", " };
    format!("({})", args.iter().map(r_arg).collect::<Vec<_>>().join(sep))
}
fn r_field(f: &Field, lay: &mut Rng) -> String {
    format!("{}  {}{}: {}{}\n", r_desc(&f.desc, "  "), f.name, r_args(&f.args, lay), f.ty.render(), r_apps(&f.dirs))
}
fn r_impl(xs: &[String], lay: &mut Rng) -> String {
    if xs.is_empty() { String::new() } else { format!(" implements {}{}", if lay.chance(1, 5) { "& " } else { "" }, xs.join(" & ")) }
}

/// One SDL chunk per item part; a type may be split into its definition and `extend` blocks that are emitted
/// later and possibly into another file.  Split points are suffixes, so the merged definition keeps the order.
fn render_model(m: &Model, lay: &mut Rng) -> Vec<String> {
    let nf = m.n_files.max(1);
    let mut files: Vec<String> = vec![String::new(); nf];
    let mut later: Vec<(usize, String)> = vec![];
    let lead = |lay: &mut Rng| -> String { match lay.below(6) { 0 => "\n".into(), 1 => "# c\n".into(), 2 => "  ".into(), _ => String::new() } };
    for it in &m.items {
        let file = lay.below(nf);
        let mut out = lead(lay);
        match it {
            Item::S(s) => {
                let kw = if s.is_ext { "extend schema" } else { "schema" };
                if s.ops.is_empty() { out += &format!("{kw}{}\n", r_apps(&s.dirs)); }
                else {
                    let (mut d0, mut o0) = (s.dirs.clone(), s.ops.clone());
                    if !s.is_ext && lay.chance(1, 3) && (d0.len() > 0 || o0.len() > 1) {
                        // split off an `extend schema`
                        let dk = if d0.is_empty() { 0 } else { lay.below(d0.len() + 1) };
                        let ok = if o0.len() > 1 { lay.range(1, o0.len()) } else { o0.len() };
                        let (d1, o1) = (d0.split_off(dk), o0.split_off(ok));
                        if !d1.is_empty() || !o1.is_empty() {
                            let body = if o1.is_empty() { String::new() } else { format!(" {{ {} }}", o1.iter().map(|(a, b)| format!("{a}: {b}")).collect::<Vec<_>>().join(" ")) };
                            later.push((lay.below(nf), format!("extend schema{}{}\n", r_apps(&d1), body)));
                        }
                    }
                    out += &format!("{kw}{} {{\n{}}}\n", r_apps(&d0), o0.iter().map(|(a, b)| format!("  {a}: {b}\n")).collect::<String>());
                }
            }
            Item::D(d) => {
                out += &r_desc(&d.desc, "");
                out += &format!("directive @{}{}{} on {}{}\n", d.name, r_args(&d.args, lay), if d.repeatable { " repeatable" } else { "" },
                                if lay.chance(1, 5) { "| " } else { "" }, d.locations.join(" | "));
            }
            Item::T(t) => {
                let ext = if t.is_ext { "extend " } else { "" };
                let split = !t.is_ext && lay.chance(1, 3);
                out += &if t.is_ext { String::new() } else { r_desc(&t.desc, "") };
                let mut dirs = t.dirs.clone();
                let dirs1 = if split && !dirs.is_empty() && lay.chance(1, 2) { dirs.split_off(lay.below(dirs.len() + 1)) } else { vec![] };
                match &t.kind {
                    Kind::Scalar => {
                        out += &format!("{ext}scalar {}{}\n", t.name, r_apps(&dirs));
                        if !dirs1.is_empty() { later.push((lay.below(nf), format!("extend scalar {}{}\n", t.name, r_apps(&dirs1)))); }
                    }
                    Kind::Object { implements, fields } | Kind::Interface { implements, fields } => {
                        let kw = if matches!(t.kind, Kind::Object { .. }) { "type" } else { "interface" };
                        let (mut i0, mut f0) = (implements.clone(), fields.clone());
                        let i1 = if split && !i0.is_empty() && lay.chance(1, 2) { i0.split_off(lay.below(i0.len() + 1)) } else { vec![] };
                        let f1 = if split && f0.len() > 1 { f0.split_off(lay.range(1, f0.len())) } else { vec![] };
                        let body = |fs: &[Field], lay: &mut Rng| if fs.is_empty() { String::new() } else { format!(" {{\n{}}}", fs.iter().map(|f| r_field(f, lay)).collect::<String>()) };
                        out += &format!("{ext}{kw} {}{}{}{}\n", t.name, r_impl(&i0, lay), r_apps(&dirs), body(&f0, lay));
                        if !i1.is_empty() || !f1.is_empty() || !dirs1.is_empty() {
                            if lay.chance(1, 2) && !f1.is_empty() && (!i1.is_empty() || !dirs1.is_empty()) {
                                // two extensions
                                later.push((lay.below(nf), format!("extend {kw} {}{}{}\n", t.name, r_impl(&i1, lay), r_apps(&dirs1))));
                                later.push((lay.below(nf), format!("extend {kw} {}{}\n", t.name, body(&f1, lay))));
                            } else {
                                later.push((lay.below(nf), format!("extend {kw} {}{}{}{}\n", t.name, r_impl(&i1, lay), r_apps(&dirs1), body(&f1, lay))));
                            }
                        }
                    }
                    Kind::Union { members } => {
                        let mut m0 = members.clone();
                        let m1 = if split && m0.len() > 1 { m0.split_off(lay.range(1, m0.len())) } else { vec![] };
                        let ms = |xs: &[String], lay: &mut Rng| if xs.is_empty() { String::new() } else { format!(" = {}{}", if lay.chance(1, 4) { "| " } else { "" }, xs.join(" | ")) };
                        out += &format!("{ext}union {}{}{}\n", t.name, r_apps(&dirs), ms(&m0, lay));
                        if !m1.is_empty() || !dirs1.is_empty() { later.push((lay.below(nf), format!("extend union {}{}{}\n", t.name, r_apps(&dirs1), ms(&m1, lay)))); }
                    }
                    Kind::Enum { values } => {
                        let mut v0 = values.clone();
                        let v1 = if split && v0.len() > 1 { v0.split_off(lay.range(1, v0.len())) } else { vec![] };
                        let body = |vs: &[EnumVal]| if vs.is_empty() { String::new() } else { format!(" {{\n{}}}", vs.iter().map(|v| format!("  {}{}\n", v.name, r_apps(&v.dirs))).collect::<String>()) };
                        out += &format!("{ext}enum {}{}{}\n", t.name, r_apps(&dirs), body(&v0));
                        if !v1.is_empty() || !dirs1.is_empty() { later.push((lay.below(nf), format!("extend enum {}{}{}\n", t.name, r_apps(&dirs1), body(&v1)))); }
                    }
                    Kind::Input { fields } => {
                        let mut f0 = fields.clone();
                        let f1 = if split && f0.len() > 1 { f0.split_off(lay.range(1, f0.len())) } else { vec![] };
                        let body = |fs: &[Arg]| if fs.is_empty() { String::new() } else { format!(" {{\n{}}}", fs.iter().map(|f| format!("  {}\n", r_arg(f))).collect::<String>()) };
                        out += &format!("{ext}input {}{}{}\n", t.name, r_apps(&dirs), body(&f0));
                        if !f1.is_empty() || !dirs1.is_empty() { later.push((lay.below(nf), format!("extend input {}{}{}\n", t.name, r_apps(&dirs1), body(&f1)))); }
                    }
                }
            }
        }
        files[file] += &out;
        // sometimes flush pending extensions early (an extension may precede other definitions, never its own original
        // in the same file order problem: the resolver is order-insensitive, so any placement after generation is fine)
        if lay.chance(1, 4) { for (f, t) in later.drain(..) { files[f] += &t; } }
    }
    for (f, t) in later.drain(..) { files[f] += &t; }
    // every file must hold at least one definition (the grammar needs one)
    let files: Vec<String> = files.into_iter()
        .filter(|f| f.lines().any(|l| !l.trim_start().starts_with('#') && l.contains(|c: char| c.is_ascii_alphabetic()))).collect();
    let mut files = if files.is_empty() { vec!["scalar Lonely\n".to_string()] } else { files };
    files.extend(m.extra_files.iter().cloned());
    files
}

// ------------------------------------------------------------------ valid-by-construction generator

struct GenCfg { big: bool }

fn wrap(rng: &mut Rng, base: &str) -> Ty {
    let mut t = Ty::n(base);
    if rng.chance(1, 2) { t = Ty::nn(t); }
    let lists = match rng.below(10) { 0..=5 => 0, 6..=8 => 1, _ => 2 };
    for _ in 0..lists { t = Ty::l(t); if rng.chance(1, 2) { t = Ty::nn(t); } }
    t
}

/// a literal the specification accepts for `ty` (const value: no variables)
fn lit(rng: &mut Rng, types: &[TypeDef], ty: &Ty, depth: usize) -> String {
    match ty {
        Ty::NonNull(t) => lit_nn(rng, types, t, depth),
        t => if rng.chance(1, 8) { "null".into() } else { lit_nn(rng, types, t, depth) },
    }
}
fn lit_nn(rng: &mut Rng, types: &[TypeDef], ty: &Ty, depth: usize) -> String {
    match ty {
        Ty::NonNull(t) => lit_nn(rng, types, t, depth),
        Ty::List(t) => {
            if rng.chance(1, 5) {
                // a single value is coerced to a list of one -- but a list literal is never "a single value"
                let inner = lit_nn(rng, types, t, depth);
                if inner.starts_with('[') { format!("[{inner}]") } else { inner }
            }
            else { let n = if depth > 2 { 0 } else { rng.below(3) }; format!("[{}]", (0..n).map(|_| lit(rng, types, t, depth + 1)).collect::<Vec<_>>().join(", ")) }
        }
        Ty::Named(n) => match n.as_str() {
            "Int" => (*rng.pick(&["0", "3", "-7", "2147483647"])).to_string(),
            "Float" => (*rng.pick(&["1.5", "2", "-0.25", "1e3", "6.0E-2"])).to_string(),
            "String" => (*rng.pick(&["\"x\"", "\"\"", "\"a b\"", "\"\"\"block\"\"\"", "\"q\\\"uote\""])).to_string(),
            "Boolean" => (*rng.pick(&["true", "false"])).to_string(),
            "ID" => (*rng.pick(&["\"id1\"", "4"])).to_string(),
            _ => match types.iter().find(|t| &t.name == n).map(|t| &t.kind) {
                Some(Kind::Enum { values }) => rng.pick(values).name.clone(),
                Some(Kind::Input { fields }) => {
                    let mut parts = vec![];
                    for f in fields {
                        let required = f.ty.is_nonnull() && f.default.is_none();
                        if required || (depth < 2 && rng.chance(1, 2)) { parts.push(format!("{}: {}", f.name, lit(rng, types, &f.ty, depth + 1))); }
                    }
                    rng.shuffle(&mut parts);
                    format!("{{{}}}", parts.join(", "))
                }
                // custom scalar: any literal
                _ => (*rng.pick(&["1", "\"s\"", "true", "2.5", "ANY", "[1, \"a\"]", "{k: 1}"])).to_string(),
            },
        }
    }
}

fn gen_app(rng: &mut Rng, d: &DirDef, types: &[TypeDef]) -> App {
    let mut args = vec![];
    for a in &d.args {
        let required = a.ty.is_nonnull() && a.default.is_none();
        if required || rng.chance(1, 2) { args.push((a.name.clone(), lit(rng, types, &a.ty, 0))); }
    }
    if rng.chance(1, 3) { rng.shuffle(&mut args); }
    App { name: d.name.clone(), args: if args.is_empty() { None } else { Some(args) } }
}
/// 0-2 legal applications for location `loc` out of `pool`
fn pick_apps(rng: &mut Rng, loc: &str, pool: &[DirDef], types: &[TypeDef], p_num: usize) -> Vec<App> {
    let mut out: Vec<App> = vec![];
    if !rng.chance(p_num, 10) { return out; }
    let ok: Vec<&DirDef> = pool.iter().filter(|d| d.locations.iter().any(|l| l == loc)).collect();
    if ok.is_empty() { return out; }
    for _ in 0..rng.range(1, 2) {
        let d = *rng.pick(&ok);
        if !d.repeatable && out.iter().any(|a| a.name == d.name) { continue; }
        out.push(gen_app(rng, d, types));
    }
    out
}
fn gen_desc(rng: &mut Rng) -> Option<String> {
    if !rng.chance(1, 6) { return None; }
    Some((*rng.pick(&["a description", "multi\nline", "with \"quotes\"", "unicode é 日本"])).to_string())
}

fn refine(rng: &mut Rng, t: &Ty, sub: &dyn Fn(&str) -> Vec<String>, allow_nn: bool) -> Ty {
    match t {
        Ty::NonNull(x) => Ty::nn(refine(rng, x, sub, false)),
        Ty::List(x) => { let r = Ty::l(refine(rng, x, sub, true)); if allow_nn && rng.chance(1, 3) { Ty::nn(r) } else { r } }
        Ty::Named(n) => {
            let subs = sub(n);
            let b = if !subs.is_empty() && rng.chance(1, 2) { rng.pick(&subs).clone() } else { n.clone() };
            if allow_nn && rng.chance(1, 3) { Ty::nn(Ty::Named(b)) } else { Ty::Named(b) }
        }
    }
}

fn gen_model(rng: &mut Rng, cfg: &GenCfg) -> Model {
    let k = if cfg.big { 2 } else { 1 };
    let mut features: Vec<String> = vec![];
    let mut leaf_types: Vec<TypeDef> = vec![];
    // --- scalars, enums, inputs (no directive applications yet)
    let sc_names = ["Date", "JSON", "_Url", "a__b"];
    let n_scalar = rng.below(2 * k + 1).min(4);
    for i in 0..n_scalar { leaf_types.push(TypeDef { name: sc_names[i].into(), kind: Kind::Scalar, dirs: vec![], desc: gen_desc(rng), is_ext: false }); }
    let n_enum = rng.range(1, 2 * k);
    for i in 0..n_enum {
        let n = rng.range(1, 4);
        leaf_types.push(TypeDef { name: format!("E{i}"), kind: Kind::Enum { values: (0..n).map(|j| EnumVal { name: format!("V{i}{j}"), dirs: vec![] }).collect() },
                                  dirs: vec![], desc: gen_desc(rng), is_ext: false });
    }
    let leafs: Vec<String> = BUILTIN_SCALARS.iter().map(|s| s.to_string()).chain(leaf_types.iter().map(|t| t.name.clone())).collect();
    let n_input = rng.range(1, 2 * k + 1);
    let in_names: Vec<String> = (0..n_input).map(|i| format!("In{i}")).collect();
    for i in 0..n_input {
        let nf = rng.range(1, 4);
        let mut fields = vec![];
        for j in 0..nf {
            let (ty, default) = if rng.chance(1, 4) {
                let target = rng.pick(&in_names).clone();
                (if rng.chance(1, 2) { Ty::n(&target) } else { Ty::l(Ty::nn(Ty::n(&target))) }, None)
            } else {
                let base = rng.pick(&leafs).clone();
                let ty = wrap(rng, &base);
                let default = if rng.chance(1, 4) { Some(lit(rng, &leaf_types, &ty, 1)) } else { None };
                (ty, default)
            };
            fields.push(Arg { name: format!("i{j}"), ty, default, dirs: vec![], desc: gen_desc(rng).filter(|d| !d.contains('\n') && !d.contains('"')) });
        }
        leaf_types.push(TypeDef { name: format!("In{i}"), kind: Kind::Input { fields }, dirs: vec![], desc: gen_desc(rng), is_ext: false });
    }
    let in_types: Vec<String> = leafs.iter().cloned().chain(in_names.iter().cloned()).collect();
    // --- directive definitions: leaf (arguments of built-in scalar types, no applications) and upper
    let mut ddefs: Vec<DirDef> = vec![];
    let all_ts: Vec<String> = TS_LOCS.iter().map(|s| s.to_string()).collect();
    let n_leaf = rng.range(1, 2);
    for i in 0..n_leaf {
        let mut locations = if i == 0 { all_ts.clone() } else { TS_LOCS.iter().filter(|_| rng.chance(1, 2)).map(|s| s.to_string()).collect() };
        for l in EX_LOCS.iter() { if rng.chance(1, 5) { locations.push(l.to_string()); } }
        if locations.is_empty() { locations.push("OBJECT".into()); }
        rng.shuffle(&mut locations);
        let na = rng.below(3);
        let args = (0..na).map(|j| {
            let base = *rng.pick(&BUILTIN_SCALARS);
            let ty = wrap(rng, base);
            let default = if rng.chance(1, 3) { Some(lit(rng, &leaf_types, &ty, 1)) } else { None };
            Arg { name: format!("p{j}"), ty, default, dirs: vec![], desc: None }
        }).collect();
        ddefs.push(DirDef { name: format!("l{i}"), args, repeatable: rng.chance(1, 2), locations, desc: gen_desc(rng) });
    }
    let leaf_pool: Vec<DirDef> = ddefs.iter().cloned().chain(builtin_dirs().into_iter().filter(|d| d.name == "deprecated" || d.name == "specifiedBy")).collect();
    let n_upper = rng.below(2 * k + 1);
    for i in 0..n_upper {
        let mut locations: Vec<String> = TS_LOCS.iter().chain(EX_LOCS.iter()).filter(|_| rng.chance(1, 3)).map(|s| s.to_string()).collect();
        if locations.is_empty() { locations.push("FIELD_DEFINITION".into()); }
        let na = rng.range(0, 3);
        let pool_now: Vec<DirDef> = ddefs.clone();
        let args = (0..na).map(|j| {
            let base = rng.pick(&in_types).clone();
            let ty = wrap(rng, &base);
            let default = if rng.chance(1, 3) { Some(lit(rng, &leaf_types, &ty, 1)) } else { None };
            let dirs = pick_apps(rng, "ARGUMENT_DEFINITION", &pool_now.iter().cloned().chain(leaf_pool.iter().filter(|d| d.name == "deprecated").cloned()).collect::<Vec<_>>(), &leaf_types, 4);
            Arg { name: format!("q{j}"), ty, default, dirs, desc: None }
        }).collect();
        ddefs.push(DirDef { name: format!("u{i}"), args, repeatable: rng.chance(1, 3), locations, desc: gen_desc(rng) });
    }
    let full_pool: Vec<DirDef> = ddefs.iter().cloned().chain(builtin_dirs().into_iter().filter(|d| d.name == "deprecated" || d.name == "specifiedBy")).collect();
    // --- applications on scalars / enums / inputs: leaf pool only (keeps directive definitions acyclic)
    let snapshot = leaf_types.clone();
    for t in leaf_types.iter_mut() {
        match &mut t.kind {
            Kind::Scalar => { t.dirs = pick_apps(rng, "SCALAR", &leaf_pool, &snapshot, 5); }
            Kind::Enum { values } => {
                t.dirs = pick_apps(rng, "ENUM", &leaf_pool, &snapshot, 4);
                for v in values.iter_mut() { v.dirs = pick_apps(rng, "ENUM_VALUE", &leaf_pool, &snapshot, 4); }
            }
            Kind::Input { fields } => {
                t.dirs = pick_apps(rng, "INPUT_OBJECT", &leaf_pool, &snapshot, 4);
                for f in fields.iter_mut() { f.dirs = pick_apps(rng, "INPUT_FIELD_DEFINITION", &leaf_pool, &snapshot, 4); }
            }
            _ => {}
        }
    }
    // --- headers of composite types
    let n_iface = rng.below(2 * k + 2);
    let n_obj = rng.range(2, 2 * k + 2);
    let n_union = rng.below(k + 2);
    let explicit_schema = rng.chance(1, 2);
    struct Hdr { name: String, is_obj: bool, implements: Vec<String>, depth: usize }
    let mut hdrs: Vec<Hdr> = vec![];
    let close = |hdrs: &Vec<Hdr>, picked: Vec<String>| -> Vec<String> {
        let mut out: Vec<String> = vec![];
        for p in picked { for q in hdrs.iter().find(|h| h.name == p).map(|h| h.implements.clone()).unwrap_or_default().into_iter().chain(std::iter::once(p.clone())) {
            if !out.contains(&q) { out.push(q); } } }
        out
    };
    for i in 0..n_iface {
        let picked: Vec<String> = hdrs.iter().filter(|_| rng.chance(1, 2)).map(|h| h.name.clone()).collect();
        let mut implements = close(&hdrs, picked);
        if rng.chance(1, 3) { rng.shuffle(&mut implements); }
        let depth = implements.iter().map(|j| hdrs.iter().find(|h| &h.name == j).unwrap().depth + 1).max().unwrap_or(0);
        hdrs.push(Hdr { name: if i == 0 && rng.chance(1, 3) { "Node".into() } else { format!("I{i}") }, is_obj: false, implements, depth });
    }
    let iface_hdr_n = hdrs.len();
    for i in 0..n_obj {
        let picked: Vec<String> = hdrs[..iface_hdr_n].iter().filter(|_| rng.chance(2, 5)).map(|h| h.name.clone()).collect();
        let mut implements = close(&hdrs, picked);
        if rng.chance(1, 3) { rng.shuffle(&mut implements); }
        let depth = implements.iter().map(|j| hdrs.iter().find(|h| &h.name == j).unwrap().depth + 1).max().unwrap_or(0);
        let name = if i == 0 && !explicit_schema { "Query".to_string() } else if i == 0 { "RootQ".to_string() } else { format!("O{i}") };
        hdrs.push(Hdr { name, is_obj: true, implements, depth });
    }
    let obj_names: Vec<String> = hdrs.iter().filter(|h| h.is_obj).map(|h| h.name.clone()).collect();
    let mut unions: Vec<(String, Vec<String>)> = vec![];
    for i in 0..n_union {
        let mut ms: Vec<String> = obj_names.iter().filter(|_| rng.chance(1, 2)).cloned().collect();
        if ms.is_empty() { ms.push(rng.pick(&obj_names).clone()); }
        rng.shuffle(&mut ms);
        unions.push((format!("U{i}"), ms));
    }
    let out_types: Vec<String> = leafs.iter().cloned().chain(hdrs.iter().map(|h| h.name.clone())).chain(unions.iter().map(|u| u.0.clone())).collect();
    let sub = |n: &str| -> Vec<String> {
        if let Some(u) = unions.iter().find(|u| u.0 == n) { return u.1.clone(); }
        hdrs.iter().filter(|h| h.implements.iter().any(|j| j == n)).map(|h| h.name.clone()).collect()
    };
    let maxd = hdrs.iter().map(|h| h.depth).max().unwrap_or(0);
    // --- own (root) fields of every interface / object: name, args, refinement chain indexed by depth
    struct Root { owner: String, name: String, args: Vec<Arg>, chain: Vec<Ty>, desc: Option<String> }
    let mut roots: Vec<Root> = vec![];
    let mut gen_args = |rng: &mut Rng, prefix: &str, n: usize| -> Vec<Arg> {
        (0..n).map(|j| {
            let base = rng.pick(&in_types).clone();
            let ty = wrap(rng, &base);
            let default = if rng.chance(1, 3) { Some(lit(rng, &leaf_types, &ty, 1)) } else { None };
            let dirs = pick_apps(rng, "ARGUMENT_DEFINITION", &full_pool, &leaf_types, 3);
            Arg { name: format!("{prefix}{j}"), ty, default, dirs, desc: gen_desc(rng).filter(|d| !d.contains('\n') && !d.contains('"')) }
        }).collect()
    };
    for (hi, h) in hdrs.iter().enumerate() {
        let n_own = if h.implements.is_empty() { rng.range(1, 3) } else { rng.below(3) };
        for j in 0..n_own {
            let base = if rng.chance(1, 2) { rng.pick(&out_types).clone() } else { rng.pick(&leafs).clone() };
            let t0 = wrap(rng, &base);
            let mut chain = vec![t0];
            for _ in 0..=maxd { let last = chain.last().unwrap().clone(); chain.push(if rng.chance(1, 2) { refine(rng, &last, &sub, true) } else { last }); }
            let na = match rng.below(4) { 0 | 1 => 0, 2 => 1, _ => 2 };
            roots.push(Root { owner: h.name.clone(), name: format!("f{hi}_{j}"), args: gen_args(rng, "a", na), chain, desc: gen_desc(rng) });
        }
    }
    // --- assemble composite types
    let mut comp: Vec<TypeDef> = vec![];
    let mut extras: Vec<(String, String, Arg)> = vec![];
    for h in hdrs.iter() {
        let mut fields: Vec<Field> = vec![];
        for r in roots.iter().filter(|r| r.owner == h.name || h.implements.contains(&r.owner)) {
            let own = r.owner == h.name;
            // the chain starts at the owner's depth
            let od = hdrs.iter().find(|x| x.name == r.owner).unwrap().depth;
            let ty = r.chain[h.depth - od].clone();
            let mut args = r.args.clone();
            if !own {
                // additional arguments introduced by implemented interfaces are inherited like any other argument
                for a in args.iter_mut() { if rng.chance(1, 2) { a.default = None; } }
                for (holder, rn, a) in extras.iter() { if rn == &r.name && h.implements.contains(holder) { args.push(a.clone()); } }
                for a in args.iter_mut() { a.dirs = pick_apps(rng, "ARGUMENT_DEFINITION", &full_pool, &leaf_types, 2); }
                if rng.chance(1, 4) {
                    // an additional argument must not be required
                    let base = rng.pick(&in_types).clone();
                    let mut ty = wrap(rng, &base);
                    let mut default = None;
                    if ty.is_nonnull() {
                        if rng.chance(1, 12) { default = Some(lit(rng, &leaf_types, &ty, 1)); features.push("extra_nonnull_arg_with_default".into()); }
                        else if let Ty::NonNull(inner) = ty { ty = *inner; }
                    }
                    let a = Arg { name: format!("x{}", hdrs.iter().position(|x| x.name == h.name).unwrap()), ty, default, dirs: vec![], desc: None };
                    extras.push((h.name.clone(), r.name.clone(), a.clone()));
                    args.push(a);
                }
                if rng.chance(1, 5) { rng.shuffle(&mut args); }
            }
            fields.push(Field { name: r.name.clone(), args, ty, dirs: pick_apps(rng, "FIELD_DEFINITION", &full_pool, &leaf_types, 3),
                                desc: if own { r.desc.clone() } else { None }, root: Some((r.owner.clone(), r.name.clone())) });
        }
        if fields.is_empty() {
            fields.push(Field { name: "only".into(), args: vec![], ty: wrap(rng, "Int"), dirs: vec![], desc: None, root: None });
        }
        if rng.chance(1, 4) { rng.shuffle(&mut fields); }
        let dirs = pick_apps(rng, if h.is_obj { "OBJECT" } else { "INTERFACE" }, &full_pool, &leaf_types, 4);
        let kind = if h.is_obj { Kind::Object { implements: h.implements.clone(), fields } } else { Kind::Interface { implements: h.implements.clone(), fields } };
        comp.push(TypeDef { name: h.name.clone(), kind, dirs, desc: gen_desc(rng), is_ext: false });
    }
    for (n, ms) in &unions {
        comp.push(TypeDef { name: n.clone(), kind: Kind::Union { members: ms.clone() }, dirs: pick_apps(rng, "UNION", &full_pool, &leaf_types, 4), desc: gen_desc(rng), is_ext: false });
    }
    // --- items in a random order
    let mut items: Vec<Item> = vec![];
    for t in leaf_types.iter().cloned().chain(comp.into_iter()) { items.push(Item::T(t)); }
    for d in ddefs { items.push(Item::D(d)); }
    if explicit_schema {
        let mut ops = vec![("query".to_string(), "RootQ".to_string())];
        if obj_names.len() > 1 && rng.chance(1, 2) { ops.push(("mutation".into(), obj_names[1].clone())); }
        if obj_names.len() > 2 && rng.chance(1, 3) { ops.push(("subscription".into(), obj_names[2].clone())); }
        items.push(Item::S(SchemaDef { dirs: pick_apps(rng, "SCHEMA", &full_pool, &leaf_types, 5), ops, is_ext: false }));
    }
    rng.shuffle(&mut items);
    features.sort(); features.dedup();
    Model { items, features, n_files: if rng.chance(1, 2) { 1 } else { rng.range(2, 3) }, extra_files: vec![] }
}

// ------------------------------------------------------------------ single-fault mutations, labelled by rule

/// where a list of directive applications lives
#[derive(Clone, Debug)]
enum Site { Schema(usize), Type(usize), Field(usize, usize), FieldArg(usize, usize, usize), EnumVal(usize, usize), InputField(usize, usize), DirArg(usize, usize) }

fn sites(m: &Model) -> Vec<(Site, &'static str, &'static str)> {
    let mut out = vec![];
    for (i, it) in m.items.iter().enumerate() {
        match it {
            Item::S(_) => out.push((Site::Schema(i), "SCHEMA", "schema")),
            Item::D(d) => for k in 0..d.args.len() { out.push((Site::DirArg(i, k), "ARGUMENT_DEFINITION", "directive_arg")); },
            Item::T(t) => match &t.kind {
                Kind::Scalar => out.push((Site::Type(i), "SCALAR", "scalar")),
                Kind::Object { fields, .. } => {
                    out.push((Site::Type(i), "OBJECT", "object"));
                    for (j, f) in fields.iter().enumerate() {
                        out.push((Site::Field(i, j), "FIELD_DEFINITION", "object_field"));
                        for k in 0..f.args.len() { out.push((Site::FieldArg(i, j, k), "ARGUMENT_DEFINITION", "object_field_arg")); }
                    }
                }
                Kind::Interface { fields, .. } => {
                    out.push((Site::Type(i), "INTERFACE", "interface"));
                    for (j, f) in fields.iter().enumerate() {
                        out.push((Site::Field(i, j), "FIELD_DEFINITION", "interface_field"));
                        for k in 0..f.args.len() { out.push((Site::FieldArg(i, j, k), "ARGUMENT_DEFINITION", "interface_field_arg")); }
                    }
                }
                Kind::Union { .. } => out.push((Site::Type(i), "UNION", "union")),
                Kind::Enum { values } => {
                    out.push((Site::Type(i), "ENUM", "enum"));
                    for j in 0..values.len() { out.push((Site::EnumVal(i, j), "ENUM_VALUE", "enum_value")); }
                }
                Kind::Input { fields } => {
                    out.push((Site::Type(i), "INPUT_OBJECT", "input"));
                    for j in 0..fields.len() { out.push((Site::InputField(i, j), "INPUT_FIELD_DEFINITION", "input_field")); }
                }
            },
        }
    }
    out
}
fn site_dirs<'a>(m: &'a mut Model, s: &Site) -> &'a mut Vec<App> {
    match *s {
        Site::Schema(i) => if let Item::S(x) = &mut m.items[i] { &mut x.dirs } else { unreachable!() },
        Site::Type(i) => if let Item::T(x) = &mut m.items[i] { &mut x.dirs } else { unreachable!() },
        Site::DirArg(i, k) => if let Item::D(x) = &mut m.items[i] { &mut x.args[k].dirs } else { unreachable!() },
        Site::Field(i, j) => match &mut m.items[i] { Item::T(TypeDef { kind: Kind::Object { fields, .. } | Kind::Interface { fields, .. }, .. }) => &mut fields[j].dirs, _ => unreachable!() },
        Site::FieldArg(i, j, k) => match &mut m.items[i] { Item::T(TypeDef { kind: Kind::Object { fields, .. } | Kind::Interface { fields, .. }, .. }) => &mut fields[j].args[k].dirs, _ => unreachable!() },
        Site::EnumVal(i, j) => match &mut m.items[i] { Item::T(TypeDef { kind: Kind::Enum { values }, .. }) => &mut values[j].dirs, _ => unreachable!() },
        Site::InputField(i, j) => match &mut m.items[i] { Item::T(TypeDef { kind: Kind::Input { fields }, .. }) => &mut fields[j].dirs, _ => unreachable!() },
    }
}
fn type_idx(m: &Model, f: impl Fn(&Kind) -> bool) -> Vec<usize> {
    m.items.iter().enumerate().filter_map(|(i, it)| if let Item::T(t) = it { if f(&t.kind) { Some(i) } else { None } } else { None }).collect()
}
fn fields_mut(m: &mut Model, i: usize) -> (&'static str, &mut Vec<Field>) {
    match &mut m.items[i] {
        Item::T(TypeDef { kind: Kind::Object { fields, .. }, .. }) => ("object", fields),
        Item::T(TypeDef { kind: Kind::Interface { fields, .. }, .. }) => ("interface", fields),
        _ => unreachable!(),
    }
}
fn implements_mut(m: &mut Model, i: usize) -> (&'static str, &mut Vec<String>) {
    match &mut m.items[i] {
        Item::T(TypeDef { kind: Kind::Object { implements, .. }, .. }) => ("object", implements),
        Item::T(TypeDef { kind: Kind::Interface { implements, .. }, .. }) => ("interface", implements),
        _ => unreachable!(),
    }
}
fn is_comp(k: &Kind) -> bool { matches!(k, Kind::Object { .. } | Kind::Interface { .. }) }
fn is_comp_nonempty(k: &Kind) -> bool { match k { Kind::Object { fields, .. } | Kind::Interface { fields, .. } => !fields.is_empty(), _ => false } }
fn tname(m: &Model, i: usize) -> String { if let Item::T(t) = &m.items[i] { t.name.clone() } else { String::new() } }
fn all_types_snapshot(m: &Model) -> Vec<TypeDef> { m.types().cloned().collect() }

fn mutation_kinds() -> Vec<&'static str> {
    vec!["reserved_type", "reserved_field", "reserved_arg", "reserved_input_field", "reserved_directive", "reserved_directive_arg",
         "dup_field", "dup_field_same_pos_other_file", "dup_arg", "dup_directive_arg", "dup_enum_value", "dup_union_member", "dup_input_field", "dup_type",
         "unknown_field_type", "unknown_arg_type", "unknown_directive_arg_type", "unknown_input_field_type", "unknown_implements", "unknown_union_member",
         "input_in_output", "output_in_arg", "output_in_directive_arg", "output_in_input_field",
         "not_interface", "implements_self", "missing_transitive", "iface_implements_cycle",
         "iface_field_missing", "iface_field_type", "iface_arg_missing", "iface_arg_type", "iface_extra_required_arg",
         "iface_null_weaken", "iface_null_strengthen", "iface_list_depth", "iface_null_weaken",
         "union_member_not_object",
         "directive_unknown", "directive_misplaced", "directive_repeated",
         "dirarg_wrong_literal", "dirarg_missing_required", "dirarg_unknown", "dirarg_not_needed", "dirarg_null", "dirarg_enum_member",
         "dirarg_input_field", "dirarg_variable", "dirarg_dup_ill_typed", "dirarg_nested_variable", "x_dup_literal_field", "dirarg_dup_literal_field_ill_typed",
         "directive_recursive_self", "directive_recursive_mutual", "directive_recursive_type", "directive_cycle_with_entry", "directive_recursive_type", "directive_recursive_type",
         // spec-invalid or odd documents outside the implemented rules: correspondence only (label x_*)
         "x_cross_kind_dup", "x_dup_directive_def", "x_builtin_redefined", "x_ext_without_original", "x_dup_dirarg_in_app", "x_int_out_of_range", "x_nested_type_recursion", "x_empty_object", "x_empty_union"]
}

/// a literal the specification rejects for `ty` (and nitrogql's rules as well)
fn bad_lit(rng: &mut Rng, types: &[TypeDef], ty: &Ty) -> Option<String> {
    match ty {
        // null is wrong for a non-null type (and only there)
        Ty::NonNull(t) => Some(bad_lit(rng, types, t).unwrap_or_else(|| "null".to_string())),
        // a wrong element; as a single (coerced) value only if it is not `null` or a list itself
        Ty::List(t) => bad_lit(rng, types, t).map(|b| if b == "null" || b.starts_with('[') || rng.chance(1, 2) { format!("[{b}]") } else { b }),
        Ty::Named(n) => match n.as_str() {
            "Int" => Some((*rng.pick(&["\"1\"", "1.5", "true", "X", "{a: 1}"])).to_string()),
            "Float" => Some((*rng.pick(&["\"1\"", "true", "X"])).to_string()),
            "String" => Some((*rng.pick(&["1", "true", "X", "1.5"])).to_string()),
            "Boolean" => Some((*rng.pick(&["1", "\"true\"", "X"])).to_string()),
            "ID" => Some((*rng.pick(&["1.5", "true", "X"])).to_string()),
            _ => match types.iter().find(|t| &t.name == n).map(|t| &t.kind) {
                Some(Kind::Enum { .. }) => Some((*rng.pick(&["\"V00\"", "1", "true", "{a: 1}"])).to_string()),
                Some(Kind::Input { .. }) => Some((*rng.pick(&["1", "\"s\"", "X", "true"])).to_string()),
                _ => None,
            },
        },
    }
}

/// all applications (site, index in the list) of directives that declare at least one argument etc.
fn apps_where(m: &Model, f: &dyn Fn(&App, &DirDef) -> bool) -> Vec<(Site, &'static str, usize)> {
    let mut out = vec![];
    let mut mm = m.clone();
    for (s, _, tag) in sites(m) {
        let ds = site_dirs(&mut mm, &s).clone();
        for (k, a) in ds.iter().enumerate() { if let Some(d) = m.get_dir(&a.name) { if f(a, &d) { out.push((s.clone(), tag, k)); } } }
    }
    out
}

fn mutate(rng: &mut Rng, m: &mut Model, kind: &str) -> Option<(String, String)> {
    let snapshot = all_types_snapshot(m);
    let ok = |label: &str, site: &str| Some((label.to_string(), site.to_string()));
    match kind {
        "reserved_type" => {
            // renaming every reference too keeps the fault single
            let idx = type_idx(m, |_| true); if idx.is_empty() { return None; }
            let i = *rng.pick(&idx); let old = tname(m, i); let new = format!("__{}", old);
            let tag = m.kind_tag(&old);
            rename_type(m, &old, &new);
            ok("reserved_name", &format!("type_{tag}"))
        }
        "reserved_field" => {
            let idx = type_idx(m, is_comp_nonempty); let i = *rng.pick(&idx);
            let (tag, fs) = fields_mut(m, i);
            let cands: Vec<usize> = (0..fs.len()).filter(|j| fs[*j].root.is_none() || true).collect();
            let j = *rng.pick(&cands);
            let (old, root) = (fs[j].name.clone(), fs[j].root.clone());
            let new = format!("__{}", old);
            // rename the field in every type of its inheritance family so that only the reserved-name rule breaks
            rename_field(m, &old, &root, &new);
            ok("reserved_name", &format!("{tag}_field"))
        }
        "reserved_arg" => {
            let idx = type_idx(m, is_comp); let i = *rng.pick(&idx);
            let (tag, fs) = fields_mut(m, i);
            let cands: Vec<usize> = (0..fs.len()).filter(|j| !fs[*j].args.is_empty()).collect(); if cands.is_empty() { return None; }
            let j = *rng.pick(&cands); let k = rng.below(fs[j].args.len());
            let (fname, root, old) = (fs[j].name.clone(), fs[j].root.clone(), fs[j].args[k].name.clone());
            rename_arg(m, &fname, &root, &old, &format!("__{}", old));
            ok("reserved_name", &format!("{tag}_field_arg"))
        }
        "reserved_input_field" => {
            let idx = type_idx(m, |k| matches!(k, Kind::Input { .. })); if idx.is_empty() { return None; }
            let i = *rng.pick(&idx);
            // only fields no literal mentions (literals would become unknown fields): rename, then drop literals of that type by nulling nothing; choose a type unused in literals is hard, so fix the literals textually
            let text = snapshot_model_text(&snapshot, m);
            if let Item::T(TypeDef { kind: Kind::Input { fields }, .. }) = &mut m.items[i] {
                let j = rng.below(fields.len());
                if fields[j].ty.is_nonnull() && fields[j].default.is_none() { return None; }   // required fields appear in literals
                let old = fields[j].name.clone();
                if literal_mentions(&text, &format!("{}:", old)) { return None; }
                fields[j].name = format!("__{}", old);
            }
            ok("reserved_name", "input_field")
        }
        "reserved_directive" => {
            let idx: Vec<usize> = m.items.iter().enumerate().filter_map(|(i, it)| if matches!(it, Item::D(_)) { Some(i) } else { None }).collect();
            if idx.is_empty() { return None; }
            let i = *rng.pick(&idx);
            let old = if let Item::D(d) = &m.items[i] { d.name.clone() } else { unreachable!() };
            let new = format!("__{}", old);
            if let Item::D(d) = &mut m.items[i] { d.name = new.clone(); }
            for (s, _, _) in sites(&m.clone()) { for a in site_dirs(m, &s).iter_mut() { if a.name == old { a.name = new.clone(); } } }
            ok("reserved_name", "directive")
        }
        "reserved_directive_arg" => {
            let idx: Vec<usize> = m.items.iter().enumerate().filter_map(|(i, it)| if let Item::D(d) = it { if !d.args.is_empty() { Some(i) } else { None } } else { None }).collect();
            if idx.is_empty() { return None; }
            let i = *rng.pick(&idx);
            let (dn, old, new);
            if let Item::D(d) = &mut m.items[i] { let k = rng.below(d.args.len()); dn = d.name.clone(); old = d.args[k].name.clone(); new = format!("__{}", old); d.args[k].name = new.clone(); } else { unreachable!() }
            for (s, _, _) in sites(&m.clone()) { for a in site_dirs(m, &s).iter_mut() { if a.name == dn { if let Some(xs) = &mut a.args { for x in xs.iter_mut() { if x.0 == old { x.0 = new.clone(); } } } } } }
            ok("reserved_name", "directive_arg")
        }
        "dup_field" => {
            let idx = type_idx(m, is_comp_nonempty); let i = *rng.pick(&idx);
            let (tag, fs) = fields_mut(m, i);
            let j = rng.below(fs.len()); let mut c = fs[j].clone(); c.dirs.clear();
            let at = rng.range(j + 1, fs.len()); fs.insert(at, c);
            ok("dup_field", tag)
        }
        "dup_field_same_pos_other_file" => {
            // the same field in a definition and in an `extend` (or in two extensions) placed in DIFFERENT files at exactly
            // the same line and column: positions that differ only in their file index
            let iface = rng.chance(1, 2);
            let (kw, name) = if iface { ("interface", "DupPosI") } else { ("type", "DupPosO") };
            let two_ext = rng.chance(1, 2);
            let fld = *rng.pick(&["id: ID!", "id(a: Int): [String]", "name: String @deprecated"]);
            if two_ext {
                m.extra_files.push(format!("{kw} {name} {{\n  other: Int\n}}\n"));
                m.extra_files.push(format!("extend {kw} {name} {{\n  {fld}\n}}\n"));
                m.extra_files.push(format!("extend {kw} {name} {{\n  {fld}\n}}\n"));
            } else {
                // `extend type X {` is longer than `type X {` on line 0 only; the field sits at 1:2 in both files
                m.extra_files.push(format!("{kw} {name} {{\n  {fld}\n}}\n"));
                m.extra_files.push(format!("extend {kw} {name} {{\n  {fld}\n}}\n"));
            }
            ok("dup_field", &format!("same_position_other_file:{}{}", if iface { "interface" } else { "object" }, if two_ext { ":two_extensions" } else { "" }))
        }
        "dup_arg" => {
            let idx = type_idx(m, is_comp); let i = *rng.pick(&idx);
            let (tag, fs) = fields_mut(m, i);
            let cands: Vec<usize> = (0..fs.len()).filter(|j| !fs[*j].args.is_empty()).collect(); if cands.is_empty() { return None; }
            let j = *rng.pick(&cands); let k = rng.below(fs[j].args.len()); let mut c = fs[j].args[k].clone(); c.dirs.clear(); fs[j].args.push(c);
            ok("dup_arg", &format!("{tag}_field"))
        }
        "dup_directive_arg" => {
            let idx: Vec<usize> = m.items.iter().enumerate().filter_map(|(i, it)| if let Item::D(d) = it { if !d.args.is_empty() { Some(i) } else { None } } else { None }).collect();
            if idx.is_empty() { return None; }
            let i = *rng.pick(&idx);
            if let Item::D(d) = &mut m.items[i] { let k = rng.below(d.args.len()); let mut c = d.args[k].clone(); c.dirs.clear(); d.args.push(c); }
            ok("dup_arg", "directive")
        }
        "dup_enum_value" => {
            let idx = type_idx(m, |k| matches!(k, Kind::Enum { .. })); if idx.is_empty() { return None; }
            let i = *rng.pick(&idx);
            if let Item::T(TypeDef { kind: Kind::Enum { values }, .. }) = &mut m.items[i] { let j = rng.below(values.len()); let mut c = values[j].clone(); c.dirs.clear(); values.push(c); }
            ok("dup_enum_value", "enum")
        }
        "dup_union_member" => {
            let idx = type_idx(m, |k| matches!(k, Kind::Union { .. })); if idx.is_empty() { return None; }
            let i = *rng.pick(&idx);
            if let Item::T(TypeDef { kind: Kind::Union { members }, .. }) = &mut m.items[i] { let j = rng.below(members.len()); let c = members[j].clone(); members.push(c); }
            ok("dup_union_member", "union")
        }
        "dup_input_field" => {
            let idx = type_idx(m, |k| matches!(k, Kind::Input { .. })); if idx.is_empty() { return None; }
            let i = *rng.pick(&idx);
            if let Item::T(TypeDef { kind: Kind::Input { fields }, .. }) = &mut m.items[i] { let j = rng.below(fields.len()); let mut c = fields[j].clone(); c.dirs.clear(); fields.push(c); }
            ok("dup_input_field", "input")
        }
        "dup_type" => {
            let idx = type_idx(m, |_| true); let i = *rng.pick(&idx);
            let c = m.items[i].clone(); let tag = m.kind_tag(&tname(m, i));
            let at = rng.below(m.items.len() + 1); m.items.insert(at, c);
            ok("dup_type", tag)
        }
        "unknown_field_type" | "input_in_output" => {
            let idx = type_idx(m, is_comp); let i = *rng.pick(&idx);
            let repl = if kind == "unknown_field_type" { "Nowhere".to_string() } else { let ins = m.names_of(|k| matches!(k, Kind::Input { .. })); if ins.is_empty() { return None; } rng.pick(&ins).clone() };
            let (tag, fs) = fields_mut(m, i);
            // an own field nobody inherits, so that covariance of implementers is not disturbed: add a fresh field
            let ty = { let mut t = wrap(rng, "Int"); t.set_base(&repl); t };
            let at = rng.below(fs.len() + 1);
            fs.insert(at, Field { name: "zz".into(), args: vec![], ty, dirs: vec![], desc: None, root: None });
            ok(if kind == "unknown_field_type" { "unknown_type" } else { "input_in_output" }, &format!("{tag}_field"))
        }
        "unknown_arg_type" | "output_in_arg" => {
            let idx = type_idx(m, is_comp); let i = *rng.pick(&idx);
            let repl = if kind == "unknown_arg_type" { "Nowhere".to_string() } else { let outs = m.names_of(|k| matches!(k, Kind::Object { .. } | Kind::Interface { .. } | Kind::Union { .. })); rng.pick(&outs).clone() };
            let (tag, fs) = fields_mut(m, i);
            let ty = { let mut t = wrap(rng, "Int"); if let Ty::NonNull(x) = t { t = *x; } t.set_base(&repl); t };
            let at = rng.below(fs.len() + 1);
            fs.insert(at, Field { name: "zz".into(), args: vec![Arg { name: "za".into(), ty, default: None, dirs: vec![], desc: None }], ty: Ty::n("Int"), dirs: vec![], desc: None, root: None });
            ok(if kind == "unknown_arg_type" { "unknown_type" } else { "output_in_input" }, &format!("{tag}_field_arg"))
        }
        "unknown_directive_arg_type" | "output_in_directive_arg" => {
            let idx: Vec<usize> = m.items.iter().enumerate().filter_map(|(i, it)| if matches!(it, Item::D(_)) { Some(i) } else { None }).collect();
            if idx.is_empty() { return None; }
            let i = *rng.pick(&idx);
            let repl = if kind == "unknown_directive_arg_type" { "Nowhere".to_string() } else { let outs = m.names_of(|k| matches!(k, Kind::Object { .. } | Kind::Interface { .. } | Kind::Union { .. })); rng.pick(&outs).clone() };
            let ty = { let mut t = wrap(rng, "Int"); if let Ty::NonNull(x) = t { t = *x; } t.set_base(&repl); t };
            if let Item::D(d) = &mut m.items[i] { d.args.push(Arg { name: "za".into(), ty, default: None, dirs: vec![], desc: None }); }
            ok(if kind == "unknown_directive_arg_type" { "unknown_type" } else { "output_in_input" }, "directive_arg")
        }
        "unknown_input_field_type" | "output_in_input_field" => {
            let idx = type_idx(m, |k| matches!(k, Kind::Input { .. })); if idx.is_empty() { return None; }
            let i = *rng.pick(&idx);
            let repl = if kind == "unknown_input_field_type" { "Nowhere".to_string() } else { let outs = m.names_of(|k| matches!(k, Kind::Object { .. } | Kind::Interface { .. } | Kind::Union { .. })); rng.pick(&outs).clone() };
            let ty = { let mut t = wrap(rng, "Int"); if let Ty::NonNull(x) = t { t = *x; } t.set_base(&repl); t };
            if let Item::T(TypeDef { kind: Kind::Input { fields }, .. }) = &mut m.items[i] { fields.push(Arg { name: "zz".into(), ty, default: None, dirs: vec![], desc: None }); }
            ok(if kind == "unknown_input_field_type" { "unknown_type" } else { "output_in_input" }, "input_field")
        }
        "unknown_implements" | "not_interface" => {
            let idx = type_idx(m, is_comp); let i = *rng.pick(&idx);
            let me = tname(m, i);
            let repl = if kind == "unknown_implements" { "Nowhere".to_string() } else {
                let c: Vec<String> = m.types().filter(|t| !matches!(t.kind, Kind::Interface { .. }) && t.name != me).map(|t| t.name.clone()).chain(std::iter::once("Int".to_string())).collect();
                rng.pick(&c).clone() };
            let (tag, im) = implements_mut(m, i);
            let at = rng.below(im.len() + 1); im.insert(at, repl);
            ok(if kind == "unknown_implements" { "unknown_type" } else { "not_interface" }, &format!("{tag}_implements"))
        }
        "unknown_union_member" | "union_member_not_object" => {
            let idx = type_idx(m, |k| matches!(k, Kind::Union { .. })); if idx.is_empty() { return None; }
            let i = *rng.pick(&idx); let me = tname(m, i);
            let repl = if kind == "unknown_union_member" { "Nowhere".to_string() } else {
                let c: Vec<String> = m.types().filter(|t| !matches!(t.kind, Kind::Object { .. }) && (t.name != me || rng.chance(1, 3))).map(|t| t.name.clone()).chain(std::iter::once("String".to_string())).collect();
                rng.pick(&c).clone() };
            let tag = m.kind_tag(&repl);
            if let Item::T(TypeDef { kind: Kind::Union { members }, .. }) = &mut m.items[i] { let at = rng.below(members.len() + 1); members.insert(at, repl); }
            if kind == "unknown_union_member" { ok("unknown_type", "union_member") } else { ok("union_member_not_object", tag) }
        }
        "implements_self" => {
            let idx = type_idx(m, |k| matches!(k, Kind::Interface { .. })); if idx.is_empty() { return None; }
            let i = *rng.pick(&idx); let me = tname(m, i);
            let (_, im) = implements_mut(m, i); let at = rng.below(im.len() + 1); im.insert(at, me);
            ok("implements_self", "interface")
        }
        "iface_implements_cycle" => {
            // fresh interfaces implementing each other in a 2- or 3-cycle, every member listing all the others and
            // defining the common field; optionally an object implementing all of them (spec 3.7: no cyclic `implements`)
            let n = rng.range(2, 3);
            let names: Vec<String> = (0..n).map(|k| format!("Cyc{k}")).collect();
            let fld = || Field { name: "id".into(), args: vec![], ty: Ty::nn(Ty::n("ID")), dirs: vec![], desc: None, root: None };
            for (k, me) in names.iter().enumerate() {
                let mut others: Vec<String> = names.iter().filter(|x| *x != me).cloned().collect();
                if rng.chance(1, 2) { rng.shuffle(&mut others); }
                let at = rng.below(m.items.len() + 1);
                let _ = k;
                m.items.insert(at, Item::T(TypeDef { name: me.clone(), kind: Kind::Interface { implements: others, fields: vec![fld()] }, dirs: vec![], desc: None, is_ext: false }));
            }
            let with_obj = rng.chance(1, 2);
            if with_obj {
                let at = rng.below(m.items.len() + 1);
                m.items.insert(at, Item::T(TypeDef { name: "CycObj".into(), kind: Kind::Object { implements: names.clone(), fields: vec![fld()] }, dirs: vec![], desc: None, is_ext: false }));
            }
            ok("missing_transitive", &format!("implements_cycle:{n}{}", if with_obj { ":object" } else { "" }))
        }
        "missing_transitive" => {
            // X implements J, J implements K: drop K from X
            let mut cands = vec![];
            for i in type_idx(m, is_comp) {
                let im = match &m.items[i] { Item::T(TypeDef { kind: Kind::Object { implements, .. } | Kind::Interface { implements, .. }, .. }) => implements.clone(), _ => vec![] };
                for j in &im { if let Some(TypeDef { kind: Kind::Interface { implements: ji, .. }, .. }) = m.get(j) { for k in ji { if im.contains(k) { cands.push((i, k.clone())); } } } }
            }
            if cands.is_empty() { return None; }
            let (i, k) = rng.pick(&cands).clone();
            let (tag, im) = implements_mut(m, i); im.retain(|x| x != &k);
            ok("missing_transitive", tag)
        }
        "iface_null_weaken" | "iface_null_strengthen" | "iface_list_depth" => {
            // inherited fields of objects and of interfaces implementing interfaces: (item, field, holder name)
            let mut cands = vec![];
            for i in type_idx(m, is_comp) {
                let me = tname(m, i);
                if let Item::T(TypeDef { kind: Kind::Object { fields, .. } | Kind::Interface { fields, .. }, .. }) = &m.items[i] {
                    for (j, f) in fields.iter().enumerate() { if let Some((owner, _)) = &f.root { if owner != &me { cands.push((i, j)); } } }
                }
            }
            if cands.is_empty() { return None; }
            rng.shuffle(&mut cands);
            for (i, j) in cands {
                let me = tname(m, i);
                let (my_impls, f) = match &m.items[i] { Item::T(TypeDef { kind: Kind::Object { implements, fields } | Kind::Interface { implements, fields }, .. }) => (implements.clone(), fields[j].clone()), _ => unreachable!() };
                let tag = if matches!(&m.items[i], Item::T(TypeDef { kind: Kind::Object { .. }, .. })) { "object" } else { "interface" };
                let (mut flags, base) = ty_levels(&f.ty);
                // the same field in the interfaces this type implements, and in the types that implement this type
                let same = |t: &TypeDef| -> Option<Ty> { match &t.kind { Kind::Object { fields, .. } | Kind::Interface { fields, .. } => fields.iter().find(|x| x.root == f.root && x.name == f.name).map(|x| x.ty.clone()), _ => None } };
                let above: Vec<Vec<bool>> = m.types().filter(|t| my_impls.contains(&t.name)).filter_map(|t| same(t)).map(|t| ty_levels(&t).0).collect();
                let below: Vec<Vec<bool>> = m.types().filter(|t| match &t.kind { Kind::Object { implements, .. } | Kind::Interface { implements, .. } => implements.contains(&me), _ => false })
                    .filter_map(|t| same(t)).map(|t| ty_levels(&t).0).collect();
                let n = flags.len();
                let site;
                match kind {
                    "iface_null_weaken" => {
                        // drop a `!` the interface insists on; list levels (k < n-1) first when there are any
                        let mut ks: Vec<usize> = (0..n).filter(|k| flags[*k] && above.iter().any(|a| a.len() == n && a[*k])).collect();
                        if ks.is_empty() { continue; }
                        let on_list: Vec<usize> = ks.iter().copied().filter(|k| *k + 1 < n).collect();
                        if !on_list.is_empty() && rng.chance(2, 3) { ks = on_list; }
                        let k = *rng.pick(&ks); flags[k] = false;
                        site = format!("null_weaken:{}:{}", if k + 1 < n { "list_level" } else { "named" }, tag);
                    }
                    "iface_null_strengthen" => {
                        // add a `!`: stays a valid implementation; types implementing this one must already have it
                        let ks: Vec<usize> = (0..n).filter(|k| !flags[*k] && below.iter().all(|b| b.len() == n && b[*k])).collect();
                        if ks.is_empty() { continue; }
                        let k = *rng.pick(&ks); flags[k] = true;
                        site = format!("null_strengthen:{}:{}", if k + 1 < n { "list_level" } else { "named" }, tag);
                    }
                    _ => {
                        // one list level more or less, at a random depth
                        if n > 1 && rng.chance(1, 2) { let k = rng.below(n - 1); flags.remove(k); site = format!("list_depth:minus:{tag}"); }
                        else { let k = rng.below(n); flags.insert(k, rng.chance(1, 2)); site = format!("list_depth:plus:{tag}"); }
                    }
                }
                let newty = ty_build(&flags, &base);
                let (_, fs) = fields_mut(m, i); fs[j].ty = newty;
                return if kind == "iface_null_strengthen" { ok("valid", &site) } else { ok("iface_field_type", &site) };
            }
            None
        }
        "iface_field_missing" | "iface_field_type" | "iface_arg_missing" | "iface_arg_type" | "iface_extra_required_arg" => {
            // (implementer index, field index) of inherited fields
            let mut cands = vec![];
            for i in type_idx(m, is_comp) {
                let me = tname(m, i);
                if let Item::T(TypeDef { kind: Kind::Object { fields, .. } | Kind::Interface { fields, .. }, .. }) = &m.items[i] {
                    for (j, f) in fields.iter().enumerate() { if let Some((owner, _)) = &f.root { if owner != &me { cands.push((i, j)); } } }
                }
            }
            if cands.is_empty() { return None; }
            let (i, j) = *rng.pick(&cands);
            // the type the owning (root) interface declares for this field: the least refined one
            let owner_nonnull = {
                let f = match &m.items[i] { Item::T(TypeDef { kind: Kind::Object { fields, .. } | Kind::Interface { fields, .. }, .. }) => fields[j].clone(), _ => unreachable!() };
                let (owner, fname) = f.root.clone().unwrap();
                match m.get(&owner).map(|t| &t.kind) {
                    Some(Kind::Interface { fields, .. }) => fields.iter().find(|x| x.name == fname).map_or(false, |x| x.ty.is_nonnull()),
                    _ => false,
                }
            };
            // types further down that inherit through this one would break too (still the same rule); fine: >= 1 diagnostic is all that is asked
            let (tag, fs) = fields_mut(m, i);
            match kind {
                "iface_field_missing" => { if fs.len() < 2 { return None; } fs.remove(j); ok("iface_field_missing", tag) }
                "iface_field_type" => {
                    let old = fs[j].ty.clone();
                    let new = match rng.below(4) {
                        0 => { let mut t = old.clone(); t.set_base(if old.base() == "Float" { "Boolean" } else { "Float" }); t }
                        // dropping `!` breaks covariance only where the interface itself says `!`
                        1 => if let (Ty::NonNull(x), true) = (&old, owner_nonnull) { (**x).clone() } else { Ty::l(old.clone()) },
                        2 => Ty::l(old.clone()),
                        _ => match &old { Ty::List(x) => (**x).clone(), Ty::NonNull(x) => match &**x { Ty::List(y) => (**y).clone(), _ => Ty::l(old.clone()) }, _ => Ty::l(old.clone()) },
                    };
                    fs[j].ty = new; ok("iface_field_type", tag)
                }
                "iface_arg_missing" => {
                    let inherited: Vec<usize> = (0..fs[j].args.len()).filter(|k| !fs[j].args[*k].name.starts_with('x')).collect(); if inherited.is_empty() { return None; }
                    let k = *rng.pick(&inherited); fs[j].args.remove(k); ok("iface_arg_missing", tag)
                }
                "iface_arg_type" => {
                    let inherited: Vec<usize> = (0..fs[j].args.len()).filter(|k| !fs[j].args[*k].name.starts_with('x')).collect(); if inherited.is_empty() { return None; }
                    let k = *rng.pick(&inherited);
                    let old = fs[j].args[k].ty.clone();
                    fs[j].args[k].default = None;
                    fs[j].args[k].ty = match rng.below(3) { 0 => if let Ty::NonNull(x) = &old { (**x).clone() } else { Ty::nn(old.clone()) }, 1 => Ty::l(old.clone()),
                        _ => { let mut t = old.clone(); t.set_base(if old.base() == "Int" { "String" } else { "Int" }); t } };
                    ok("iface_arg_type", tag)
                }
                _ => { fs[j].args.push(Arg { name: "zreq".into(), ty: Ty::nn(Ty::n("Int")), default: None, dirs: vec![], desc: None }); ok("iface_extra_required_arg", tag) }
            }
        }
        "directive_unknown" | "directive_misplaced" => {
            let ss = sites(m); let (s, loc, tag) = rng.pick(&ss).clone();
            let app = if kind == "directive_unknown" { App { name: "nope".into(), args: if rng.chance(1, 2) { Some(vec![("a".into(), "1".into())]) } else { None } } } else {
                let pool: Vec<DirDef> = m.dirs().cloned().chain(builtin_dirs()).filter(|d| !d.locations.iter().any(|l| l == loc)).collect();
                if pool.is_empty() { return None; }
                // do not create a recursion by accident: on directive arguments use built-in directives only
                let pool: Vec<DirDef> = if matches!(s, Site::DirArg(..)) || true { let b: Vec<DirDef> = pool.iter().filter(|d| ["skip", "include", "deprecated", "specifiedBy", "nitrogql_ts_type"].contains(&d.name.as_str()) || d.name.starts_with('l')).cloned().collect(); if b.is_empty() { return None; } b } else { pool };
                gen_app(rng, rng.clone().pick(&pool), &snapshot) };
            let ds = site_dirs(m, &s);
            if ds.iter().any(|a| a.name == app.name) { return None; }
            let at = rng.below(ds.len() + 1); ds.insert(at, app);
            ok(kind, tag)
        }
        "directive_repeated" => {
            let c = apps_where(m, &|_, d| !d.repeatable); if c.is_empty() { return None; }
            let (s, tag, k) = rng.pick(&c).clone();
            let ds = site_dirs(m, &s); let a = ds[k].clone(); ds.push(a);
            ok("directive_repeated", tag)
        }
        "dirarg_wrong_literal" | "dirarg_null" | "dirarg_enum_member" | "dirarg_input_field" | "dirarg_variable" | "x_int_out_of_range" => {
            let c = apps_where(m, &|a, _| a.args.as_ref().map_or(false, |x| !x.is_empty())); if c.is_empty() { return None; }
            let (s, tag, k) = rng.pick(&c).clone();
            let app = site_dirs(m, &s)[k].clone(); let d = m.get_dir(&app.name)?;
            let mut args = app.args.clone().unwrap();
            let mut order: Vec<usize> = (0..args.len()).collect(); rng.shuffle(&mut order);
            let mut done = false;
            for x in order {
                let Some(def) = d.args.iter().find(|a| a.name == args[x].0) else { continue };
                let new = match kind {
                    "dirarg_wrong_literal" => bad_lit(rng, &snapshot, &def.ty),
                    "dirarg_null" => if def.ty.is_nonnull() { Some("null".to_string()) } else { None },
                    "dirarg_variable" => Some("$v".to_string()),
                    "x_int_out_of_range" => if def.ty.base() == "Int" { Some(match &def.ty { Ty::List(_) => "[2147483648]".to_string(), _ => "2147483648".to_string() }) } else { None },
                    "dirarg_enum_member" => match snapshot.iter().find(|t| t.name == def.ty.base()).map(|t| &t.kind) { Some(Kind::Enum { .. }) => Some("NOT_A_MEMBER".to_string()), _ => None },
                    _ => match snapshot.iter().find(|t| t.name == def.ty.base()).map(|t| &t.kind) {
                        Some(Kind::Input { fields }) => {
                            let req: Vec<&Arg> = fields.iter().filter(|f| f.ty.is_nonnull() && f.default.is_none()).collect();
                            if !req.is_empty() && rng.chance(1, 2) { Some("{}".to_string()) }
                            else { let mut parts: Vec<String> = req.iter().map(|f| format!("{}: {}", f.name, lit_nn(rng, &snapshot, &f.ty, 2))).collect(); parts.push("zzunknown: 1".into()); Some(format!("{{{}}}", parts.join(", "))) }
                        }
                        _ => None },
                };
                if let Some(n) = new { args[x].1 = n; done = true; break; }
            }
            if !done { return None; }
            site_dirs(m, &s)[k].args = Some(args);
            ok("directive_args", &format!("{}:{}", &kind[if kind.starts_with("x_") { 2 } else { 7 }..], tag))
        }
        "dirarg_missing_required" => {
            let c = apps_where(m, &|a, d| a.args.as_ref().map_or(false, |xs| xs.iter().any(|x| d.args.iter().any(|da| da.name == x.0 && da.ty.is_nonnull() && da.default.is_none()))));
            if c.is_empty() { return None; }
            let (s, tag, k) = rng.pick(&c).clone();
            let app = site_dirs(m, &s)[k].clone(); let d = m.get_dir(&app.name)?;
            let mut args = app.args.unwrap();
            let x = (0..args.len()).find(|x| d.args.iter().any(|da| da.name == args[*x].0 && da.ty.is_nonnull() && da.default.is_none()))?;
            args.remove(x);
            site_dirs(m, &s)[k].args = if args.is_empty() { None } else { Some(args) };
            ok("directive_args", &format!("missing_required:{tag}"))
        }
        "dirarg_unknown" | "x_dup_dirarg_in_app" => {
            let c = apps_where(m, &|a, d| !d.args.is_empty() && (kind == "dirarg_unknown" || a.args.as_ref().map_or(false, |x| !x.is_empty()))); if c.is_empty() { return None; }
            let (s, tag, k) = rng.pick(&c).clone();
            let ds = site_dirs(m, &s);
            let mut args = ds[k].args.clone().unwrap_or_default();
            if kind == "dirarg_unknown" { let at = rng.below(args.len() + 1); args.insert(at, ("zzunknown".into(), "1".into())); }
            else { let x = rng.below(args.len()); let c = args[x].clone(); args.push(c); }
            ds[k].args = Some(args);
            if kind == "dirarg_unknown" { ok("directive_args", &format!("unknown_arg:{tag}")) } else { ok("x_dup_dirarg_in_app", tag) }
        }
        "dirarg_dup_ill_typed" | "dirarg_nested_variable" | "x_dup_literal_field" | "dirarg_dup_literal_field_ill_typed" => {
            // a fresh directive with an Int, a custom-scalar and an input-object argument, applied at a random site
            m.items.push(Item::D(DirDef { name: "dupd".into(), args: vec![
                    Arg { name: "x".into(), ty: Ty::n("Int"), default: None, dirs: vec![], desc: None },
                    Arg { name: "c".into(), ty: Ty::n("DupScalar"), default: None, dirs: vec![], desc: None },
                    Arg { name: "i".into(), ty: Ty::n("DupIn"), default: None, dirs: vec![], desc: None }],
                repeatable: true, locations: TS_LOCS.iter().map(|s| s.to_string()).collect(), desc: None }));
            m.items.push(Item::T(TypeDef { name: "DupScalar".into(), kind: Kind::Scalar, dirs: vec![], desc: None, is_ext: false }));
            m.items.push(Item::T(TypeDef { name: "DupIn".into(), kind: Kind::Input { fields: vec![
                    Arg { name: "a".into(), ty: Ty::n("Int"), default: None, dirs: vec![], desc: None },
                    Arg { name: "n".into(), ty: Ty::n("DupIn"), default: None, dirs: vec![], desc: None }] }, dirs: vec![], desc: None, is_ext: false }));
            let ss = sites(m); let (st, _, tag) = rng.pick(&ss).clone();
            let (args, label): (Vec<(&str, &str)>, &str) = match kind {
                // every occurrence of an argument given twice is type-checked (7d19234)
                "dirarg_dup_ill_typed" => (if rng.chance(1, 2) { vec![("x", "1"), ("x", "\"s\"")] } else { vec![("x", "true"), ("c", "1"), ("x", "2")] }, "directive_args"),
                // variables nested in a literal given for a custom scalar (49e8e28)
                "dirarg_nested_variable" => (vec![("c", *rng.pick(&["[1, $v]", "{k: $v}", "[[{k: [$a, 2]}], $b]"]))], "directive_args"),
                // the same field twice in an input-object literal: well-typed both times (accepted; field uniqueness is not implemented) ...
                "x_dup_literal_field" => (vec![("i", *rng.pick(&["{a: 1, a: 2}", "{n: {a: 1, a: 1}}"]))], "x_dup_literal_field"),
                // ... or ill-typed the second time (reported since 7d19234)
                _ => (vec![("i", *rng.pick(&["{a: 1, a: \"s\"}", "{n: {a: 1, a: true}}"]))], "directive_args"),
            };
            site_dirs(m, &st).push(App { name: "dupd".into(), args: Some(args.into_iter().map(|(k, v)| (k.to_string(), v.to_string())).collect()) });
            ok(label, &format!("{}:{tag}", &kind[if kind.starts_with("x_") { 2 } else { 7 }..]))
        }
        "dirarg_not_needed" => {
            let c = apps_where(m, &|_, d| d.args.is_empty());
            if c.is_empty() {
                // no argument-less directive in this model: add one and apply it
                m.items.push(Item::D(DirDef { name: "noargs".into(), args: vec![], repeatable: false, locations: TS_LOCS.iter().map(|s| s.to_string()).collect(), desc: None }));
                let ss = sites(m); let (s, _, tag) = rng.pick(&ss).clone();
                site_dirs(m, &s).push(App { name: "noargs".into(), args: Some(vec![("a".into(), "1".into())]) });
                return ok("directive_args", &format!("not_needed:{tag}"));
            }
            let (s, tag, k) = rng.pick(&c).clone();
            site_dirs(m, &s)[k].args = Some(vec![("a".into(), "1".into())]);
            ok("directive_args", &format!("not_needed:{tag}"))
        }
        "directive_cycle_with_entry" => {
            // a 2- or 3-cycle of fresh directives plus an entry directive outside the cycle that leads into it; the entry is
            // declared first (before every member), last, or in the middle.  Edges go through directives on arguments or
            // through directives on a field of the argument's input type.  One file, so that declaration order is source order.
            let loc = |xs: &[&str]| xs.iter().map(|s| s.to_string()).collect::<Vec<_>>();
            let arg = |n: &str, t: Ty, dirs: Vec<App>| Arg { name: n.into(), ty: t, default: None, dirs, desc: None };
            let app = |n: &str| App { name: n.into(), args: None };
            let n = rng.range(2, 3);
            let via_type = rng.chance(1, 2);
            let mut members: Vec<Item> = vec![];
            let mut extra_types: Vec<Item> = vec![];
            for k in 0..n {
                let me = format!("cyc{k}"); let next = format!("cyc{}", (k + 1) % n);
                if via_type && k == 0 {
                    // cyc0 -> (input CycIn, field directive) -> cyc1
                    extra_types.push(Item::T(TypeDef { name: "CycIn".into(), kind: Kind::Input { fields: vec![arg("f", Ty::n("Int"), vec![app(&next)])] }, dirs: vec![], desc: None, is_ext: false }));
                    members.push(Item::D(DirDef { name: me, args: vec![arg("y", wrap(rng, "CycIn"), vec![])], repeatable: false, locations: loc(&["ARGUMENT_DEFINITION", "INPUT_FIELD_DEFINITION"]), desc: None }));
                } else {
                    members.push(Item::D(DirDef { name: me, args: vec![arg("y", Ty::n("Int"), vec![app(&next)])], repeatable: false, locations: loc(&["ARGUMENT_DEFINITION", "INPUT_FIELD_DEFINITION"]), desc: None }));
                }
            }
            if rng.chance(1, 2) { members.reverse(); }
            let entry = Item::D(DirDef { name: "cyce".into(), args: vec![arg("x", Ty::n("Int"), vec![app(&format!("cyc{}", rng.below(n)))])], repeatable: false, locations: loc(&["FIELD"]), desc: None });
            m.n_files = 1;
            let order = *rng.pick(&["first", "first", "last", "middle"]);
            match order {
                "first" => {
                    for it in members { let at = rng.range(0, m.items.len()); m.items.insert(at, it); }
                    m.items.insert(0, entry);
                }
                "last" => {
                    for it in members { let at = rng.range(0, m.items.len()); m.items.insert(at, it); }
                    m.items.push(entry);
                }
                _ => {
                    let mut it = members.into_iter();
                    m.items.insert(0, it.next().unwrap());
                    m.items.insert(1, entry);
                    for x in it { let at = rng.range(2, m.items.len()); m.items.insert(at, x); }
                }
            }
            for t in extra_types { let at = rng.range(0, m.items.len()); m.items.insert(at, t); }
            ok("directive_recursive", &format!("cycle_with_entry:{order}:{}:{n}", if via_type { "type" } else { "args" }))
        }
        "directive_recursive_self" | "directive_recursive_mutual" | "directive_recursive_type" | "x_nested_type_recursion" => {
            // fresh directives, so the only fault is the recursion
            let loc = |xs: &[&str]| xs.iter().map(|s| s.to_string()).collect::<Vec<_>>();
            let arg = |n: &str, t: Ty, dirs: Vec<App>| Arg { name: n.into(), ty: t, default: None, dirs, desc: None };
            let app = |n: &str| App { name: n.into(), args: None };
            let at = rng.below(m.items.len() + 1);
            match kind {
                "directive_recursive_self" => {
                    m.items.insert(at, Item::D(DirDef { name: "rec".into(), args: vec![arg("a", Ty::n("Int"), vec![]), arg("b", Ty::n("Int"), vec![app("rec")])], repeatable: false, locations: loc(&["ARGUMENT_DEFINITION", "OBJECT"]), desc: None }));
                    ok("directive_recursive", "self")
                }
                "directive_recursive_mutual" => {
                    m.items.insert(at, Item::D(DirDef { name: "reca".into(), args: vec![arg("a", Ty::n("Int"), vec![app("recb")])], repeatable: false, locations: loc(&["ARGUMENT_DEFINITION"]), desc: None }));
                    let at2 = rng.below(m.items.len() + 1);
                    m.items.insert(at2, Item::D(DirDef { name: "recb".into(), args: vec![arg("b", Ty::n("String"), vec![app("reca")])], repeatable: false, locations: loc(&["ARGUMENT_DEFINITION"]), desc: None }));
                    ok("directive_recursive", "mutual")
                }
                "directive_recursive_type" => {
                    // @rect(a: T) where the definition of T -- at every kind of position directives_in_type walks, in the
                    // definition or in an `extend` -- applies @rect.  The argument is nullable, so `@rect` alone is a legal application.
                    let ev = |n: &str, d: Vec<App>| EnumVal { name: n.into(), dirs: d };
                    let fd = |n: &str, d: Vec<App>| Field { name: n.into(), args: vec![], ty: Ty::n("Int"), dirs: d, desc: None, root: None };
                    let td = |n: &str, k: Kind, d: Vec<App>, ext: bool| TypeDef { name: n.into(), kind: k, dirs: d, desc: None, is_ext: ext };
                    let r = || vec![app("rect")];
                    // rotate through the positions so that every one of them occurs in every run
                    static NEXT_POS: std::sync::atomic::AtomicUsize = std::sync::atomic::AtomicUsize::new(0);
                    let which = NEXT_POS.fetch_add(1, std::sync::atomic::Ordering::Relaxed) % 13;
                    let (tname_, defs, site): (&str, Vec<TypeDef>, &str) = match which {
                        0 => ("RecS", vec![td("RecS", Kind::Scalar, r(), false)], "via_scalar"),
                        1 => ("RecS", vec![td("RecS", Kind::Scalar, vec![], false), td("RecS", Kind::Scalar, r(), true)], "via_scalar_extension"),
                        2 => ("RecE", vec![td("RecE", Kind::Enum { values: vec![ev("RV", vec![])] }, r(), false)], "via_enum"),
                        3 => ("RecE", vec![td("RecE", Kind::Enum { values: vec![ev("RV", vec![]), ev("RW", r())] }, vec![], false)], "via_enum_value"),
                        4 => ("RecE", vec![td("RecE", Kind::Enum { values: vec![ev("RV", vec![])] }, vec![], false), td("RecE", Kind::Enum { values: vec![ev("RX", r())] }, vec![], true)], "via_enum_value_extension"),
                        5 => ("RecE", vec![td("RecE", Kind::Enum { values: vec![ev("RV", vec![])] }, vec![], false), td("RecE", Kind::Enum { values: vec![] }, r(), true)], "via_enum_extension"),
                        6 => ("RecIn", vec![td("RecIn", Kind::Input { fields: vec![arg("x", Ty::n("Int"), vec![])] }, r(), false)], "via_input"),
                        7 => ("RecIn", vec![td("RecIn", Kind::Input { fields: vec![arg("x", Ty::n("Int"), vec![]), arg("y", Ty::n("Int"), r())] }, vec![], false)], "via_input_field"),
                        8 => ("RecIn", vec![td("RecIn", Kind::Input { fields: vec![arg("x", Ty::n("Int"), vec![])] }, vec![], false), td("RecIn", Kind::Input { fields: vec![arg("z", Ty::n("Int"), r())] }, vec![], true)], "via_input_field_extension"),
                        // output types cannot be argument types (NoOutputType is reported as well); the search walks them all the same
                        9 => ("RecO", vec![td("RecO", Kind::Object { implements: vec![], fields: vec![fd("x", vec![])] }, r(), false)], "via_object"),
                        10 => ("RecO", vec![td("RecO", Kind::Object { implements: vec![], fields: vec![fd("x", vec![]), fd("y", r())] }, vec![], false)], "via_object_field"),
                        11 => ("RecI", vec![td("RecI", Kind::Interface { implements: vec![], fields: vec![fd("x", r())] }, vec![], false)], "via_interface_field"),
                        _ => ("RecU", vec![td("RecU", Kind::Union { members: m.names_of(|k| matches!(k, Kind::Object { .. })).into_iter().take(1).collect() }, r(), false)], "via_union"),
                    };
                    let aty = { let t = wrap(rng, tname_); if let Ty::NonNull(x) = t { *x } else { t } };
                    m.items.insert(at, Item::D(DirDef { name: "rect".into(), args: vec![arg("a", aty, vec![])], repeatable: false,
                                                         locations: TS_LOCS.iter().map(|s| s.to_string()).collect(), desc: None }));
                    for t in defs { let at2 = rng.below(m.items.len() + 1); m.items.insert(at2, Item::T(t)); }
                    ok("directive_recursive", site)
                }
                _ => {
                    // recursion through nested input types (followed since 2bc0346): @recn(a: N0); input N0 { f: N1 } ... the last one
                    // applies @recn; 2 or 3 levels; optionally the input types form a cycle (N_last.back: N0); control without
                    // the directive on the way (label `valid`: an input-object cycle alone is no directive recursion)
                    static NEXT_VARIANT: std::sync::atomic::AtomicUsize = std::sync::atomic::AtomicUsize::new(0);
                    let v = NEXT_VARIANT.fetch_add(1, std::sync::atomic::Ordering::Relaxed) % 6;
                    let levels = if v % 2 == 0 { 2 } else { 3 };
                    let cyclic = v >= 2;
                    let with_dir = v < 4;
                    m.items.insert(at, Item::D(DirDef { name: "recn".into(), args: vec![arg("a", { let t = wrap(rng, "RecN0"); if let Ty::NonNull(x) = t { *x } else { t } }, vec![])],
                                                         repeatable: false, locations: loc(&["INPUT_FIELD_DEFINITION", "INPUT_OBJECT"]), desc: None }));
                    for l in 0..levels {
                        let last = l + 1 == levels;
                        let mut fields = vec![];
                        if !last { fields.push(arg("f", { let t = wrap(rng, &format!("RecN{}", l + 1)); if let Ty::NonNull(x) = t { *x } else { t } }, vec![])); }
                        if last { fields.push(arg("g", Ty::n("Int"), if with_dir { vec![app("recn")] } else { vec![] })); }
                        if last && cyclic { fields.push(arg("back", Ty::l(Ty::nn(Ty::n("RecN0"))), vec![])); }
                        if !last && cyclic && rng.chance(1, 2) { fields.push(arg("selfref", Ty::n(&format!("RecN{l}")), vec![])); }
                        let at2 = rng.below(m.items.len() + 1);
                        m.items.insert(at2, Item::T(TypeDef { name: format!("RecN{l}"), kind: Kind::Input { fields }, dirs: vec![], desc: None, is_ext: false }));
                    }
                    if with_dir { ok("directive_recursive", &format!("nested_input:{levels}{}", if cyclic { ":cyclic" } else { "" })) }
                    else { ok("valid", &format!("nested_input_cycle_without_directive:{levels}")) }
                }
            }
        }
        "x_empty_object" | "x_empty_union" => {
            // `type A` / `union U` without a body parse since 530788b / 3814a72; the specification asks for >= 1 field / member
            let at = rng.below(m.items.len() + 1);
            let dirs = if rng.chance(1, 2) { vec![] } else { vec![App { name: "l0".into(), args: None }] };
            let dirs = if m.get_dir("l0").map_or(false, |d| d.args.iter().all(|a| !(a.ty.is_nonnull() && a.default.is_none()))) { dirs } else { vec![] };
            if kind == "x_empty_object" {
                m.items.insert(at, Item::T(TypeDef { name: "EmptyObj".into(), kind: Kind::Object { implements: vec![], fields: vec![] }, dirs, desc: None, is_ext: false }));
                // sometimes use it, so that it is not merely an unused definition
                if rng.chance(1, 2) { if let Some(i) = type_idx(m, |k| matches!(k, Kind::Union { .. })).first().copied() { if let Item::T(TypeDef { kind: Kind::Union { members }, .. }) = &mut m.items[i] { members.push("EmptyObj".into()); } } }
                ok("x_empty_object", "object")
            } else {
                m.items.insert(at, Item::T(TypeDef { name: "EmptyUnion".into(), kind: Kind::Union { members: vec![] }, dirs, desc: None, is_ext: false }));
                ok("x_empty_union", "union")
            }
        }
        "x_cross_kind_dup" => {
            // a second definition of another kind with an existing name: exercises first-wins / last-wins lookups
            let idx = type_idx(m, |_| true); let i = *rng.pick(&idx); let name = tname(m, i);
            let kinds: Vec<Kind> = vec![Kind::Scalar, Kind::Enum { values: vec![EnumVal { name: "XV".into(), dirs: vec![] }] },
                Kind::Object { implements: vec![], fields: vec![Field { name: "xf".into(), args: vec![], ty: Ty::n("Int"), dirs: vec![], desc: None, root: None }] },
                Kind::Interface { implements: vec![], fields: vec![Field { name: "xf".into(), args: vec![], ty: Ty::n("Int"), dirs: vec![], desc: None, root: None }] },
                Kind::Input { fields: vec![Arg { name: "xi".into(), ty: Ty::n("Int"), default: None, dirs: vec![], desc: None }] },
                Kind::Union { members: m.names_of(|k| matches!(k, Kind::Object { .. })).into_iter().take(1).collect() }];
            let cur = std::mem::discriminant(if let Item::T(t) = &m.items[i] { &t.kind } else { unreachable!() });
            let c: Vec<Kind> = kinds.into_iter().filter(|k| std::mem::discriminant(k) != cur).collect();
            let k = rng.pick(&c).clone();
            let at = rng.below(m.items.len() + 1);
            m.items.insert(at, Item::T(TypeDef { name, kind: k, dirs: vec![], desc: None, is_ext: false }));
            ok("x_cross_kind_dup", "type")
        }
        "x_dup_directive_def" | "x_builtin_redefined" => {
            if kind == "x_builtin_redefined" {
                // legal for nitrogql: the schema defines a directive named like a built-in one (not recorded, not reported)
                let (name, loc) = *rng.pick(&[("deprecated", "OBJECT"), ("skip", "FIELD_DEFINITION"), ("specifiedBy", "SCALAR"), ("include", "ENUM")]);
                let at = rng.below(m.items.len() + 1);
                m.items.insert(at, Item::D(DirDef { name: name.into(), args: vec![Arg { name: "why".into(), ty: Ty::n("Int"), default: None, dirs: vec![], desc: None }],
                                                     repeatable: false, locations: vec![loc.to_string()], desc: None }));
                return ok("x_builtin_redefined", name);
            }
            // a directive of the schema defined a second time (451006c: DuplicatedName at the second name): identical, or with other
            // locations / arguments / repeatable, before or after the first definition, possibly in another file
            let idx: Vec<usize> = m.items.iter().enumerate().filter_map(|(i, it)| if matches!(it, Item::D(_)) { Some(i) } else { None }).collect();
            if idx.is_empty() { return None; }
            let i = *rng.pick(&idx);
            let mut c = if let Item::D(d) = &m.items[i] { d.clone() } else { unreachable!() };
            let how = match rng.below(4) { 0 => { c.locations = vec!["QUERY".into()]; "other_locations" } 1 => { c.args.clear(); "no_arguments" } 2 => { c.repeatable = !c.repeatable; "other_repeatable" } _ => "identical" };
            for a in c.args.iter_mut() { a.dirs.clear(); }
            let before = rng.chance(1, 2);
            let at = if before { rng.below(i + 1) } else { rng.range(i + 1, m.items.len()) };
            m.items.insert(at, Item::D(c));
            ok("directive_defined_twice", &format!("{how}:{}", if before { "before" } else { "after" }))
        }
        "x_ext_without_original" => {
            let k = match rng.below(4) { 0 => Kind::Scalar, 1 => Kind::Enum { values: vec![EnumVal { name: "XV".into(), dirs: vec![] }] },
                2 => Kind::Object { implements: vec![], fields: vec![Field { name: "xf".into(), args: vec![], ty: Ty::n("Int"), dirs: vec![], desc: None, root: None }] },
                _ => Kind::Input { fields: vec![Arg { name: "xi".into(), ty: Ty::n("Int"), default: None, dirs: vec![], desc: None }] } };
            let dirs = if matches!(k, Kind::Scalar) { vec![App { name: "l0".into(), args: None }] } else { vec![] };
            // either a name nobody defines, or the name of a type of another kind
            let name = if rng.chance(1, 2) { "Orphan".to_string() } else { let c: Vec<String> = m.types().filter(|t| std::mem::discriminant(&t.kind) != std::mem::discriminant(&k)).map(|t| t.name.clone()).collect(); rng.pick(&c).clone() };
            m.items.push(Item::T(TypeDef { name, kind: k, dirs, desc: None, is_ext: true }));
            ok("x_ext_without_original", "type")
        }
        _ => None,
    }
}

/// non-null flags per list depth (outermost first; the last entry is the named type's) and the base name
fn ty_levels(t: &Ty) -> (Vec<bool>, String) {
    let mut flags = vec![]; let mut cur = t;
    loop {
        let (nn, inner) = match cur { Ty::NonNull(x) => (true, &**x), x => (false, x) };
        flags.push(nn);
        match inner { Ty::List(x) => { cur = x; } Ty::Named(n) => return (flags, n.clone()), Ty::NonNull(_) => unreachable!() }
    }
}
fn ty_build(flags: &[bool], base: &str) -> Ty {
    let mut t = Ty::n(base);
    for (k, nn) in flags.iter().enumerate().rev() {
        if k + 1 < flags.len() { t = Ty::l(t); }
        if *nn { t = Ty::nn(t); }
    }
    t
}
fn map_types(m: &mut Model, f: &dyn Fn(&mut Ty)) {
    for it in m.items.iter_mut() {
        match it {
            Item::D(d) => for a in d.args.iter_mut() { f(&mut a.ty); },
            Item::T(t) => match &mut t.kind {
                Kind::Object { fields, .. } | Kind::Interface { fields, .. } => for fl in fields.iter_mut() { f(&mut fl.ty); for a in fl.args.iter_mut() { f(&mut a.ty); } },
                Kind::Input { fields } => for a in fields.iter_mut() { f(&mut a.ty); },
                _ => {}
            },
            Item::S(_) => {}
        }
    }
}
fn rename_type(m: &mut Model, old: &str, new: &str) {
    map_types(m, &|t: &mut Ty| if t.base() == old { t.set_base(new) });
    for it in m.items.iter_mut() {
        match it {
            Item::T(t) => {
                if t.name == old { t.name = new.to_string(); }
                match &mut t.kind {
                    Kind::Object { implements, fields } | Kind::Interface { implements, fields } => {
                        for i in implements.iter_mut() { if i == old { *i = new.to_string(); } }
                        for f in fields.iter_mut() { if let Some((o, _)) = &mut f.root { if o == old { *o = new.to_string(); } } }
                    }
                    Kind::Union { members } => for i in members.iter_mut() { if i == old { *i = new.to_string(); } },
                    _ => {}
                }
            }
            Item::S(s) => for o in s.ops.iter_mut() { if o.1 == old { o.1 = new.to_string(); } },
            Item::D(_) => {}
        }
    }
}
fn rename_field(m: &mut Model, old: &str, root: &Option<(String, String)>, new: &str) {
    for it in m.items.iter_mut() {
        if let Item::T(TypeDef { kind: Kind::Object { fields, .. } | Kind::Interface { fields, .. }, .. }) = it {
            for f in fields.iter_mut() { if f.name == old && &f.root == root { f.name = new.to_string(); } }
        }
    }
}
fn rename_arg(m: &mut Model, fname: &str, root: &Option<(String, String)>, old: &str, new: &str) {
    for it in m.items.iter_mut() {
        if let Item::T(TypeDef { kind: Kind::Object { fields, .. } | Kind::Interface { fields, .. }, .. }) = it {
            for f in fields.iter_mut() { if f.name == fname && &f.root == root { for a in f.args.iter_mut() { if a.name == old { a.name = new.to_string(); } } } }
        }
    }
}
fn snapshot_model_text(_types: &[TypeDef], m: &Model) -> String { render_model(m, &mut Rng::new(7)).join("\n") }
fn literal_mentions(text: &str, needle: &str) -> bool {
    // `name:` inside a `{ ... }` literal after `(`: conservative — any occurrence preceded by `{` or `, ` on a line containing '@' or '='
    text.lines().any(|l| (l.contains('@') || l.contains(" = ")) && (l.contains(&format!("{{{}", needle)) || l.contains(&format!(", {}", needle))))
}

// ------------------------------------------------------------------ hand-written corpus (label, site, SDL)

fn corpus() -> Vec<(&'static str, &'static str, &'static str)> {
    vec![
        ("valid", "corpus:deprecated_on_interface_field", "type Query { n: Node }\ninterface Node { id: ID! @deprecated }\n"),
        ("unknown_type", "corpus:interface_field", "type Query { n: Node }\ninterface Node { id: Nope }\n"),
        ("valid", "corpus:directive_reached_twice", "directive @a(x: Int @c, y: Int @c) on FIELD\ndirective @c on ARGUMENT_DEFINITION\ntype Query { a: Int }\n"),
        ("directive_recursive", "corpus:self", "directive @a(x: Int @a) on ARGUMENT_DEFINITION\ntype Query { a: Int }\n"),
        ("directive_recursive", "corpus:three_cycle", "directive @a(x: Int @b) on ARGUMENT_DEFINITION\ndirective @b(x: Int @c) on ARGUMENT_DEFINITION\ndirective @c(x: Int @a) on ARGUMENT_DEFINITION\ntype Query { a: Int }\n"),
        ("valid", "corpus:diamond_no_cycle", "directive @a(x: Int @b @c) on FIELD\ndirective @b(x: Int @d) on ARGUMENT_DEFINITION\ndirective @c(x: Int @d) on ARGUMENT_DEFINITION\ndirective @d on ARGUMENT_DEFINITION\ntype Query { a: Int }\n"),
        ("directive_recursive", "corpus:nested", "directive @r(a: Outer) on INPUT_FIELD_DEFINITION\ninput Outer { f: Inner }\ninput Inner { g: Int @r }\ntype Query { a: Int }\n"),
        ("valid", "corpus:extra_arg", "interface I { f: Int }\ntype Query implements I { f(extra: Int! = 3): Int }\n"),
        ("x_cross_kind_dup", "corpus:first_last", "type A { x: Int }\nscalar A\nunion U = A\ntype Query { a: A, u: U }\ninput In { a: A }\n"),
        ("x_cross_kind_dup", "corpus:last_first", "scalar A\ntype A { x: Int }\nunion U = A\ntype Query { a: A, u: U }\ninput In { a: A }\n"),
        ("x_dup_dirarg_in_app", "corpus:dup_arg", "directive @d(x: Int) on OBJECT\ntype Query @d(x: 1, x: 2) { a: Int }\n"),
        ("x_dup_literal_field", "corpus:dup_input_field_literal", "directive @d(x: In) on OBJECT\ninput In { a: Int }\ntype Query @d(x: {a: 1, a: 2}) { a: Int }\n"),
        ("valid", "corpus:list_coercion", "directive @d(x: [[Int]], y: [Int!]!, z: In) on OBJECT\ninput In { a: [In!], b: Float = 1 }\ntype Query @d(x: 1, y: [1, 2], z: {a: {a: [], b: 2}}) { a: Int }\n"),
        ("directive_args", "corpus:nested_errors", "directive @d(z: In!) on OBJECT\nenum E { A }\ninput In { a: [In!], e: E!, r: Int! }\ntype Query @d(z: {a: [{e: B, r: \"x\"}], e: A, q: 1}) { a: Int }\n"),
        ("directive_args", "corpus:int_range", "directive @d(x: Int) on OBJECT\ntype Query @d(x: 2147483648) { a: Int }\n"),
        // appended after the witnesses above (coq/C05/Witness.v was printed from the cases above, keep their order)
        ("directive_args", "corpus:dup_arg_shadows_ill_typed", "directive @d(x: Int) on OBJECT\ntype Query @d(x: 1, x: \"s\") { a: Int }\n"),
        ("valid", "corpus:interfaces", "interface A { f(a: Int): [A] }\ninterface B implements A { f(a: Int, b: String): [B!] g: U }\ntype Query implements B & A { f(a: Int, b: String, c: ID = 1): [Query!]! g: Query }\nunion U = Query\n"),
        ("directive_args", "corpus:variables_inside_literals", "directive @d(x: [Int], y: In) on OBJECT\ninput In { a: Int, b: [In] }\ntype Query @d(x: [1, $v], y: {a: $w, b: [{a: $z}]}) { a: Int }\n"),
        ("unknown_type", "corpus:value_for_unknown_type", "directive @d(x: Nope, y: [Nope!]) on OBJECT\ntype Query @d(x: 1, y: [2]) { a: Int }\n"),
        ("output_in_input", "corpus:value_for_output_type", "directive @d(x: Query, u: U, i: I) on OBJECT\ninterface I { a: Int }\nunion U = Query\ntype Query @d(x: null, u: 1, i: {a: 1}) { a: Int }\n"),
        ("directive_defined_twice", "corpus:other_locations_and_arguments", "directive @d(x: Int) on FIELD_DEFINITION\ndirective @d(y: String) on OBJECT\ntype Query { a: Int @d(x: 1) }\n"),
        ("directive_defined_twice", "corpus:other_locations_and_arguments_reversed", "directive @d(y: String) on OBJECT\ndirective @d(x: Int) on FIELD_DEFINITION\ntype Query @d(y: \"s\") { a: Int }\n"),
        ("directive_defined_twice", "corpus:identical_three_times", "directive @d on OBJECT\ndirective @d on OBJECT\ntype Query @d { a: Int }\ndirective @d on OBJECT\n"),
        ("x_builtin_redefined", "corpus:user_redefines_builtin_directive", "directive @deprecated(why: Int!) on OBJECT\ntype Query @deprecated(why: 1) { a: Int @deprecated(reason: \"x\") }\n"),
        ("x_cross_kind_dup", "corpus:type_named_like_builtin_scalar", "type Int { a: String }\ntype Query { a: Int, b(x: Int): Float }\n"),
        ("dup_type", "corpus:scalar_named_like_builtin_scalar", "scalar String\ntype Query { a: Int }\n"),
        ("x_multi_schema", "corpus:two_schema_definitions", "schema { query: Query }\nschema { query: Query }\ntype Query { a: Int }\n"),
        ("directive_repeated", "corpus:repeat_across_extension", "directive @once on OBJECT\ndirective @many repeatable on OBJECT\ntype Query @once @many @many { a: Int }\nextend type Query @once\n"),
        ("valid", "corpus:enum_and_input_literals", "directive @d(e: [E!]! = [A], i: In!, s: Sc, f: Float, id: ID) on FIELD_DEFINITION\nenum E { A B }\nscalar Sc\ninput In { e: E = B, n: [In!], req: Boolean! }\ntype Query { a: Int @d(e: B, i: {req: true, n: [{req: false, e: null}]}, s: {any: [1, \"x\"]}, f: 3, id: 7) }\n"),
        ("x_empty_object", "corpus:object_without_fields", "type A\ntype Query { a: A }\n"),
        ("x_empty_union", "corpus:union_without_members", "union U\ntype Query { u: U }\n"),
        ("iface_field_missing", "corpus:object_without_fields_implements", "interface I { f: Int }\ntype A implements I\ntype Query { a: A }\n"),
        ("directive_recursive", "corpus:nested_3_levels", "directive @r(a: [A!]) on INPUT_FIELD_DEFINITION\ninput A { f: B }\ninput B { f: [C] }\ninput C { g: Int @r }\ntype Query { a: Int }\n"),
        ("directive_recursive", "corpus:nested_input_cycle_with_directive", "directive @r(a: A) on INPUT_FIELD_DEFINITION\ninput A { f: B, self: A }\ninput B { back: A, g: Int @r }\ntype Query { a: Int }\n"),
        ("valid", "corpus:nested_input_cycle_without_directive", "directive @r(a: A) on INPUT_FIELD_DEFINITION\ninput A { f: B, self: A }\ninput B { back: A, g: Int }\ntype Query { a: Int }\n"),
        ("directive_recursive", "corpus:nested_via_second_argument_after_shared_type", "directive @r(a: A, b: B) on INPUT_FIELD_DEFINITION\ninput A { f: C }\ninput B { f: C, g: D }\ninput C { x: Int }\ninput D { y: Int @r }\ntype Query { a: Int }\n"),
        ("directive_args", "corpus:nested_variables_in_custom_scalar_literal", "directive @d(s: Sc, t: [Sc!]) on OBJECT\nscalar Sc\ntype Query @d(s: {k: [$a, 1]}, t: [[$b], 2]) { a: Int }\n"),
        ("directive_args", "corpus:dup_literal_field_ill_typed", "directive @d(x: In) on OBJECT\ninput In { a: Int }\ntype Query @d(x: {a: 1, a: \"s\"}) { a: Int }\n"),
        ("directive_args", "corpus:variable_for_nonnull_with_default", "directive @d(x: Int! = 1, i: In) on OBJECT\ninput In { a: Int! = 2 }\ntype Query @d(x: $v, i: {a: $w}) { a: Int }\n"),
        ("directive_recursive", "corpus:via_enum_value", "directive @tag(level: Level) on ENUM_VALUE\nenum Level { LOW @tag(level: HIGH) HIGH }\ntype Query { a: Int }\n"),
        ("directive_recursive", "corpus:via_enum_value_in_extension", "directive @tag(level: Level) on ENUM_VALUE\nenum Level { LOW HIGH }\nextend enum Level { MID @tag(level: LOW) }\ntype Query { a: Int }\n"),
        ("directive_recursive", "corpus:via_enum_type", "directive @tag(level: [Level!]) on ENUM\nenum Level @tag { LOW }\ntype Query { a: Int }\n"),
        ("directive_recursive", "corpus:via_scalar_extension", "directive @tag(s: Sc) on SCALAR\nscalar Sc\nextend scalar Sc @tag(s: 1)\ntype Query { a: Int }\n"),
        ("directive_recursive", "corpus:via_input_type", "directive @tag(i: In) on INPUT_OBJECT\ninput In @tag { x: Int }\ntype Query { a: Int }\n"),
        ("directive_recursive", "corpus:via_input_field_in_extension", "directive @tag(i: In) on INPUT_FIELD_DEFINITION\ninput In { x: Int }\nextend input In { y: Int @tag(i: {x: 1}) }\ntype Query { a: Int }\n"),
        ("directive_recursive", "corpus:cycle_with_entry_first", "directive @entry(x: Int @ping) on FIELD\ndirective @ping(y: Int @pong) on ARGUMENT_DEFINITION\ndirective @pong(z: Int @ping) on ARGUMENT_DEFINITION\ntype Query { a: Int }\n"),
        ("directive_recursive", "corpus:cycle_with_entry_last", "directive @ping(y: Int @pong) on ARGUMENT_DEFINITION\ndirective @pong(z: Int @ping) on ARGUMENT_DEFINITION\ndirective @entry(x: Int @ping) on FIELD\ntype Query { a: Int }\n"),
        ("directive_recursive", "corpus:cycle3_with_entry_first", "directive @entry(x: Int @b) on FIELD\ndirective @a(y: Int @b) on ARGUMENT_DEFINITION\ndirective @b(y: Int @c) on ARGUMENT_DEFINITION\ndirective @c(y: Int @a) on ARGUMENT_DEFINITION\ntype Query { a: Int }\n"),
        ("directive_recursive", "corpus:cycle_via_type_with_entry_first", "directive @entry(x: Int @ping) on FIELD\ndirective @ping(y: [In!]) on ARGUMENT_DEFINITION\ninput In { f: Int @pong }\ndirective @pong(z: Int @ping) on INPUT_FIELD_DEFINITION\ntype Query { a: Int }\n"),
        ("directive_recursive", "corpus:two_entries_first", "directive @e1(x: Int @ping) on FIELD\ndirective @e2(x: Int @e1 @pong) on FIELD | ARGUMENT_DEFINITION\ndirective @ping(y: Int @pong) on ARGUMENT_DEFINITION\ndirective @pong(z: Int @ping) on ARGUMENT_DEFINITION\ntype Query { a: Int }\n"),
        ("dup_field", "corpus:same_position_in_extension_of_other_file", "type User {\n  id: ID!\n}\ntype Query { u: User }\n\u{1}extend type User {\n  id: ID!\n}\n"),
        ("dup_field", "corpus:same_position_in_two_extensions_of_other_files", "interface Node {\n  x: Int\n}\ntype Query { a: Int }\n\u{1}extend interface Node {\n  id: ID!\n}\n\u{1}extend interface Node {\n  id: ID!\n}\n"),
        ("dup_arg", "corpus:same_position_argument_in_other_file", "type User {\n  f(\n    a: Int\n  ): Int\n}\ntype Query { u: User }\n\u{1}extend type User {\n  g(\n    a: Int\n    a: Int\n  ): Int\n}\n"),
        ("dup_enum_value", "corpus:same_position_enum_value_in_other_file", "enum E {\n  A\n}\ntype Query { e: E }\n\u{1}extend enum E {\n  A\n}\n"),
        ("dup_input_field", "corpus:same_position_input_field_in_other_file", "input In {\n  a: Int\n}\ntype Query { f(i: In): Int }\n\u{1}extend input In {\n  a: Int\n}\n"),
        ("dup_union_member", "corpus:same_position_union_member_in_other_file", "type A { x: Int }\nunion U =\n  A\ntype Query { u: U }\n\u{1}type B { y: Int }\nextend union U =\n  A\n"),
        ("missing_transitive", "corpus:implements_cycle_2", "interface A implements B { id: ID! }\ninterface B implements A { id: ID! }\ntype Query { a: Int }\n"),
        ("missing_transitive", "corpus:implements_cycle_3", "interface A implements B & C { id: ID! }\ninterface B implements C & A { id: ID! }\ninterface C implements A & B { id: ID! }\ntype Query { a: Int }\n"),
        ("missing_transitive", "corpus:implements_cycle_2_with_object", "interface A implements B { id: ID! }\ninterface B implements A { id: ID! }\ntype Query implements A & B { id: ID! }\n"),
        ("missing_transitive", "corpus:implements_cycle_3_chain", "interface A implements B { id: ID! }\ninterface B implements C { id: ID! }\ninterface C implements A { id: ID! }\ntype Query { a: Int }\n"),
        ("implements_self", "corpus:implements_cycle_listing_itself", "interface A implements B & A { id: ID! }\ninterface B implements A & B { id: ID! }\ntype Query { a: Int }\n"),
        ("iface_field_type", "corpus:list_nullable_for_nonnull_list", "type T { a: Int }\ninterface I { f: [T]! }\ntype Query implements I { f: [T] }\n"),
        ("iface_field_type", "corpus:inner_list_nullable_for_nonnull", "type T { a: Int }\ninterface I { f: [[T]!] }\ntype Query implements I { f: [[T]] }\n"),
        ("iface_field_type", "corpus:list_of_nonnull_nullable_for_nonnull", "type Item { a: Int }\ninterface I { f: [Item!]! }\ntype Query implements I { f: [Item!] }\n"),
        ("iface_field_type", "corpus:interface_implements_interface_list_nullable", "type T { a: Int }\ninterface I { f: [[T!]!]! }\ninterface J implements I { f: [[T!]]! }\ntype Query implements J & I { f: [[T!]!]! }\n"),
        ("valid", "corpus:nullability_strengthened_everywhere", "type T implements N { a: Int }\ninterface N { a: Int }\ninterface I { f: [[N]] g: [N] }\ninterface J implements I { f: [[N]!] g: [N!] }\ntype Query implements J & I { f: [[T!]!]! g: [T!]! }\n"),
        ("iface_field_type", "corpus:list_depth", "interface I { f: [Int] g: [[Int]] }\ntype Query implements I { f: [[Int]] g: [Int] }\n"),
        ("iface_field_type", "corpus:nullable_for_nonnull", "interface A { f: Int! }\ntype Query implements A { f: Int }\n"),
        ("valid", "corpus:all_locations", "directive @y(n: Int) repeatable on SCHEMA | SCALAR | OBJECT | FIELD_DEFINITION | ARGUMENT_DEFINITION | INTERFACE | UNION | ENUM | ENUM_VALUE | INPUT_OBJECT | INPUT_FIELD_DEFINITION\ndirective @x(a: E = V, i: In = {r: 1} @y) repeatable on SCHEMA | SCALAR | OBJECT | FIELD_DEFINITION | ARGUMENT_DEFINITION | INTERFACE | UNION | ENUM | ENUM_VALUE | INPUT_OBJECT | INPUT_FIELD_DEFINITION\nenum E @y { V @y @deprecated }\ninput In @y { r: Int! @y, o: [In] @y(n: 2) }\nscalar S @x @specifiedBy(url: \"u\")\ninterface I @x { f(a: Int @x): S @x }\ntype Query implements I @x @x(a: V, i: {r: 2, o: [{r: 3}]}) { f(a: Int @x @deprecated): S @x }\nunion U @x = Query\nschema @x { query: Query }\n"),
    ]
}

// ------------------------------------------------------------------ printing diagnostics as Coq terms

fn emsg(m: &M) -> String {
    let q = |x: &str| coq_str(x);
    match m {
        M::UnknownDirective { name } => format!("(UnknownDirective {})", q(name)),
        M::DirectiveLocationNotAllowed { name } => format!("(DirectiveLocationNotAllowed {})", q(name)),
        M::RepeatedDirective { name } => format!("(RepeatedDirective {})", q(name)),
        M::ArgumentsNotNeeded { kind } => format!("(ArgumentsNotNeeded {})", q(kind)),
        M::RequiredArgumentNotSpecified { name } => format!("(RequiredArgumentNotSpecified {})", q(name)),
        M::TypeMismatch { r#type } => format!("(TypeMismatch {})", q(r#type)),
        M::UnknownVariable { name } => format!("(UnknownVariable {})", q(name)),
        M::UnknownEnumMember { member, r#enum } => format!("(UnknownEnumMember {} {})", q(member), q(r#enum)),
        M::UnknownArgument { name } => format!("(UnknownArgument {})", q(name)),
        M::RequiredFieldNotSpecified { name } => format!("(RequiredFieldNotSpecified {})", q(name)),
        M::UnknownField { name } => format!("(UnknownField {})", q(name)),
        M::UnscoUnsco => "UnscoUnsco".into(),
        M::DuplicatedName { name } => format!("(DuplicatedName {})", q(name)),
        M::UnknownType { name } => format!("(UnknownType {})", q(name)),
        M::RecursingDirective { name } => format!("(RecursingDirective {})", q(name)),
        M::NoOutputType { name } => format!("(NoOutputType {})", q(name)),
        M::NoInputType { name } => format!("(NoInputType {})", q(name)),
        M::NotInterface { name } => format!("(NotInterface {})", q(name)),
        M::InterfaceNotImplemented { name } => format!("(InterfaceNotImplemented {})", q(name)),
        M::NoImplementSelf => "NoImplementSelf".into(),
        M::InterfaceFieldNotImplemented { field_name, interface_name } =>
            format!("(InterfaceFieldNotImplemented {} {})", q(field_name), q(interface_name)),
        M::FieldTypeMisMatchWithInterface { interface_name } => format!("(FieldTypeMisMatchWithInterface {})", q(interface_name)),
        M::InterfaceArgumentNotImplemented { argument_name, interface_name } =>
            format!("(InterfaceArgumentNotImplemented {} {})", q(argument_name), q(interface_name)),
        M::ArgumentTypeMisMatchWithInterface { interface_name } => format!("(ArgumentTypeMisMatchWithInterface {})", q(interface_name)),
        M::ArgumentTypeNonNullAgainstInterface { interface_name } => format!("(ArgumentTypeNonNullAgainstInterface {})", q(interface_name)),
        M::NonObjectTypeUnionMember { member_name } => format!("(NonObjectTypeUnionMember {})", q(member_name)),
        M::TypeSystemError => "TypeSystemError".into(),
        M::DefinitionPos { name } => format!("(DefinitionPos {})", q(name)),
        other => format!("(EOther {})", q(&format!("{:?}", other))),
    }
}
fn cerr(e: &CheckError) -> String {
    format!("(mkErr {} {} {})", emsg(&e.message), ast_coq::pos(&e.position),
            coq_list(&e.additional_info, |(p, m)| format!("({}, {})", ast_coq::pos(p), emsg(m))))
}
fn cerr_json(e: &CheckError) -> serde_json::Value {
    json!({"msg": format!("{:?}", e.message), "line": e.position.line, "col": e.position.column, "file": e.position.file,
           "info": e.additional_info.iter().map(|(p, m)| format!("{}:{}:{} {:?}", p.file, p.line, p.column, m)).collect::<Vec<_>>()})
}

// ------------------------------------------------------------------ unit-level tie of types.rs::is_subtype

const SUB_SCHEMA: &str = "scalar S\nenum E { A }\ninput In { x: Int }\ninterface N { id: ID }\ninterface R implements N { id: ID }\ninterface Z { z: Int }\n\
type O1 implements R & N { id: ID }\ntype O2 implements Z { z: Int }\ntype O3 { a: Int }\nunion U = O1 | O2\nunion V = O3\ntype Query { a: Int }\n";
const SUB_BASES: [&str; 13] = ["Int", "S", "E", "In", "N", "R", "Z", "O1", "O2", "O3", "U", "V", "Nope"];

/// all wrappings of `base` with at most `depth` list levels
fn sub_shapes(base: &str, depth: usize) -> Vec<String> {
    let mut cur = vec![base.to_string(), format!("{base}!")];
    let mut all = cur.clone();
    for _ in 0..depth {
        let mut next = vec![];
        for t in &cur { next.push(format!("[{t}]")); next.push(format!("[{t}]!")); }
        all.extend(next.iter().cloned());
        cur = next;
    }
    all
}

/// runs the real is_subtype on the given (a, b) pairs of type texts; pushes cases of `batch` pairs each
fn sub_cases(pairs: &[(String, String)], batch: usize, cases: &mut Cases, dist: &mut BTreeMap<String, u64>) {
    use nitrogql_ast::type_system::{TypeDefinition, TypeSystemDefinition};
    use nitrogql_checker::verif_hooks::is_subtype;
    use nitrogql_semantics::{ast_to_type_system, type_system_utils::convert_type};
    set_current_file_of_pos(0);
    let mut merged = TypeSystemOrExtensionDocument::merge(vec![parse_type_system_document(SUB_SCHEMA).expect("sub schema parses")]);
    merged.extend(graphql_builtins::generate_builtins());
    merged.extend(cli_builtins::nitrogql_builtins());
    let doc = resolve_schema_extensions(merged).expect("sub schema resolves");
    assert!(check_type_system_document(&doc).is_empty(), "the unit-level schema must be accepted");
    let schema = ast_to_type_system(&doc);
    let doc_term = ast_coq::tsdoc(&doc);
    for chunk in pairs.chunks(batch) {
        // the probe document only serves to obtain AST types for the texts
        let probe_src: String = format!("type Probe {{\n{}}}\n", chunk.iter().enumerate().map(|(k, (a, b))| format!("  a{k}: {a}\n  b{k}: {b}\n")).collect::<String>());
        let probe = parse_type_system_document(&probe_src).expect("probe parses");
        let fields = probe.definitions.iter().find_map(|d| match d {
            nitrogql_ast::type_system::TypeSystemDefinitionOrExtension::TypeDefinition(TypeDefinition::Object(o)) => Some(&o.fields), _ => None }).unwrap();
        let _ = std::marker::PhantomData::<TypeSystemDefinition>;
        let mut terms = vec![]; let mut descr = vec![];
        for k in 0..chunk.len() {
            let (ta, tb) = (&fields[2 * k].r#type, &fields[2 * k + 1].r#type);
            let r = is_subtype(&schema, &convert_type(ta), &convert_type(tb));
            *dist.entry(format!("is_subtype:{:?}", r)).or_insert(0) += 1;
            terms.push(format!("({}, {}, {})", ast_coq::ty(ta), ast_coq::ty(tb), coq_opt(&r, |x| coq_bool(*x).to_string())));
            descr.push(format!("is_subtype({}, {}) = {:?}", chunk[k].0, chunk[k].1, r));
        }
        cases.push(format!("CSub {} [{}]", doc_term, terms.join("; ")),
                   json!({"kind":"is_subtype","label":"unit","site":"is_subtype","schema":SUB_SCHEMA,"pairs":descr}));
    }
}

// ------------------------------------------------------------------ running the real pipeline

enum Outcome { ParseErr(String), ResolveErr { doc_ext: String, msg: String }, Checked { doc: String, errs: Vec<(String, serde_json::Value)>, n_defs: usize } }

/// files: SDL texts in file-index order (file 0 = first).
fn run_pipeline(files: &[String], want_ext: bool) -> (Outcome, Option<String>) {
    let mut docs = vec![];
    for (i, f) in files.iter().enumerate() {
        set_current_file_of_pos(i);
        match parse_type_system_document(f) {
            Ok(d) => docs.push(d),
            Err(e) => return (Outcome::ParseErr(format!("file {}: {}", i, e.into_message())), None),
        }
    }
    set_current_file_of_pos(0);
    let mut merged = TypeSystemOrExtensionDocument::merge(docs);
    merged.extend(graphql_builtins::generate_builtins());
    merged.extend(cli_builtins::nitrogql_builtins());
    let ext_term = if want_ext { Some(ast_coq::tsdoc_ext(&merged)) } else { None };
    let ext_for_err = ast_coq::tsdoc_ext(&merged);
    match resolve_schema_extensions(merged) {
        Err(e) => (Outcome::ResolveErr { doc_ext: ext_for_err, msg: format!("{:?}", e.message) }, ext_term),
        Ok(doc) => {
            let errs = check_type_system_document(&doc);
            (Outcome::Checked {
                doc: ast_coq::tsdoc(&doc),
                errs: errs.iter().map(|e| (cerr(e), cerr_json(e))).collect(),
                n_defs: doc.definitions.len(),
            }, ext_term)
        }
    }
}

fn main() {
    if std::env::var("LOUD").is_err() { silence_panics(); }
    let args = parse_args();
    let thorough = args.tier == "thorough";
    let mut rng = Rng::new(args.seed);
    let mut cases = Cases::new("From V Require Import Base.Util Gql.Ast C05.Model C05.Spec C05.Corr.", "case", "agree", "holds",
                               if thorough { 90 } else { 40 });
    let mut distinct: HashSet<String> = HashSet::new();
    let mut dist: BTreeMap<String, u64> = BTreeMap::new();
    let mut direct_failures: Vec<serde_json::Value> = vec![];
    let mut bump = |k: String, d: &mut BTreeMap<String, u64>| { *d.entry(k).or_insert(0) += 1; };
    // quick: 48 models, 12 mutation kinds each (rotating through all kinds); thorough: 120 models, every mutation kind on each
    let n_base = if thorough { 120 } else { 48 };
    let muts_per_base = if thorough { mutation_kinds().len() } else { 12 };
    let all_muts = mutation_kinds();
    let mut mut_cursor = 0usize;
    let mut n_valid = 0u64; let mut n_valid_accepted = 0u64; let mut n_fault = 0u64; let mut n_fault_rejected = 0u64;
    let mut n_parse_err = 0u64; let mut max_defs = 0usize; let mut n_errs_total = 0u64;
    let mut samples: Vec<serde_json::Value> = vec![];

    let mut emit = |label: &str, site: &str, features: &[String], files: Vec<String>, rng_tag: u64,
                    cases: &mut Cases, dist: &mut BTreeMap<String, u64>| -> Option<(bool, usize)> {
        let (out, _) = run_pipeline(&files, false);
        match out {
            Outcome::ParseErr(m) => {
                // a generator bug (the renderer must produce parseable SDL): surface it loudly
                direct_failures.push(json!({"what": format!("generated SDL does not parse ({label}/{site}): {m}"), "classes": [], "files": files}));
                None
            }
            Outcome::ResolveErr { doc_ext, msg } => {
                bump(format!("resolve_error:{}", msg.split_whitespace().next().unwrap_or("")), dist);
                cases.push(format!("CResolve {} {} true", coq_str(label), doc_ext),
                           json!({"kind":"resolve","label":label,"site":site,"features":features,"files":files,"resolve_error":msg,"tag":rng_tag}));
                Some((true, 0))
            }
            Outcome::Checked { doc, errs, n_defs } => {
                for (_, j) in &errs { bump(format!("diag:{}", j["msg"].as_str().unwrap_or("").split(|c| c == ' ' || c == '{').next().unwrap_or("")), dist); }
                cases.push(format!("CCheck {} {} {}", coq_str(label), doc, coq_list(&errs, |(t, _)| t.clone())),
                           json!({"kind":"check","label":label,"site":site,"features":features,"files":files,
                                  "diagnostics": errs.iter().map(|(_, j)| j.clone()).collect::<Vec<_>>(),"tag":rng_tag}));
                Some((!errs.is_empty(), n_defs))
            }
        }
    };

    // corpus first (hand-written witnesses and past disagreements)
    for (label, site, text) in corpus() {
        // `\u{1}` separates the files of a multi-file corpus schema
        let files: Vec<String> = text.split('\u{1}').map(|f| f.to_string()).collect();
        distinct.insert(files.join("\u{1}"));
        emit(label, site, &[], files, 0, &mut cases, &mut dist);
    }

    // unit-level: types.rs::is_subtype on pairs of wrapped types over a small fixed schema (objects, interfaces incl.
    // interface-implements-interface, unions, scalars, enum, input, an undefined name): all pairs with <= 1 list level
    // (thorough: <= 2 levels) plus random deeper pairs
    let n_sub;
    {
        let depth = if thorough { 2 } else { 1 };
        let types: Vec<String> = SUB_BASES.iter().flat_map(|b| sub_shapes(b, depth)).collect();
        let mut pairs: Vec<(String, String)> = vec![];
        for a in &types { for b in &types { pairs.push((a.clone(), b.clone())); } }
        let deep: Vec<String> = SUB_BASES.iter().flat_map(|b| sub_shapes(b, 3)).collect();
        for _ in 0..(if thorough { 6000 } else { 1500 }) { pairs.push((rng.pick(&deep).clone(), rng.pick(&deep).clone())); }
        n_sub = pairs.len();
        for p in &pairs { distinct.insert(format!("sub|{}|{}", p.0, p.1)); }
        sub_cases(&pairs, 48, &mut cases, &mut dist);
    }

    for b in 0..n_base {
        let cfg = GenCfg { big: thorough && b % 5 == 0 };
        let m = gen_model(&mut rng, &cfg);
        let tag = rng.next();
        let files = render_model(&m, &mut Rng::new(tag));
        let feats = m.features.clone();
        if distinct.insert(files.join("\u{1}")) {
            if let Some((rejected, nd)) = emit("valid", "-", &feats, files.clone(), tag, &mut cases, &mut dist) {
                n_valid += 1; if !rejected { n_valid_accepted += 1; }
                max_defs = max_defs.max(nd);
                if samples.len() < 2 { samples.push(json!({"label":"valid","files":files})); }
            }
        }
        let mut done = 0; let mut tries = 0;
        while done < muts_per_base && tries < (if thorough { muts_per_base } else { muts_per_base * 6 }) {
            tries += 1;
            let kind = all_muts[mut_cursor % all_muts.len()]; mut_cursor += 1;
            let mut mm = m.clone();
            if std::env::var("C05_TRACE").is_ok() { eprintln!("kind {kind}"); }
            let Some((label, site)) = mutate(&mut rng, &mut mm, kind) else { continue };
            let tag = rng.next();
            let files = render_model(&mm, &mut Rng::new(tag));
            if !distinct.insert(files.join("\u{1}")) { continue; }
            if let Some((rejected, _)) = emit(&label, &site, &mm.features, files.clone(), tag, &mut cases, &mut dist) {
                done += 1;
                bump(format!("fault:{}@{}", label, site), &mut dist);
                if label != "valid" && !label.starts_with("x_") { n_fault += 1; if rejected { n_fault_rejected += 1; } }
                if samples.len() < 5 && done == 1 { samples.push(json!({"label":label,"site":site,"files":files})); }
            }
        }
        // a multi-fault mix: correspondence only needs diversity
        if b % 2 == 0 {
            let mut mm = m.clone();
            let mut labels = vec![];
            for _ in 0..rng.range(2, 4) {
                let kind = *rng.pick(&all_muts);
                if let Some((l, s)) = mutate(&mut rng, &mut mm, kind) { labels.push(format!("{l}@{s}")); }
            }
            let tag = rng.next();
            let files = render_model(&mm, &mut Rng::new(tag));
            if distinct.insert(files.join("\u{1}")) {
                emit("multi", &labels.join("+"), &mm.features, files, tag, &mut cases, &mut dist);
            }
        }
    }
    let _ = (&mut n_parse_err, &mut n_errs_total);
    cases.shard_size = if thorough { 40 } else { ((cases.len() + 15) / 16).max(8) };
    cases.write(&args.out);
    write_meta(&args.out, &json!({
        "evaluations": cases.len(),
        "distinct_nontrivial": distinct.len(),
        "rule": "distinct = distinct rendered SDL file tuples plus distinct (a, b) type pairs of the unit-level is_subtype stream (48 pairs per case); every case is a whole schema (>= 12 definitions incl. built-ins) run through parse/merge/resolve/check of /repo and through the model; valid-by-construction models, single-fault mutations labelled by rule and site, multi-fault mixes, hand-written corpus",
        "samples": samples,
        "distribution": {
            "valid_models": n_valid, "valid_models_accepted_by_impl": n_valid_accepted,
            "single_fault_mutations": n_fault, "single_fault_mutations_rejected_by_impl": n_fault_rejected,
            "max_definitions_in_resolved_doc": max_defs,
            "is_subtype_pairs_unit_level": n_sub,
            "by_kind": dist,
        },
        "direct_failures": direct_failures,
    }));
}
