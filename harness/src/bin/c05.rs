//! C05: valid-by-construction schema models (all seven kinds, extensions over several files, a legal
//! directive on every type-system location, interfaces implementing interfaces with covariant fields,
//! arguments with defaults), single-fault mutations labelled by rule, rendered to SDL and run through the
//! real pipeline of /repo (parse each file -> merge -> + built-ins as the CLI does -> resolve_schema_extensions
//! -> check_type_system_document).  Every case carries the resolved document as a Coq term and the exact
//! diagnostics (constructor + payload, position, additional info) in order.
use nitrogql_ast::set_current_file_of_pos;
use nitrogql_ast::type_system::TypeSystemOrExtensionDocument;
use nitrogql_checker::{check_type_system_document, CheckError, CheckErrorMessage as M};
use nitrogql_parser::parse_type_system_document;
use nitrogql_semantics::resolve_schema_extensions;
use serde_json::json;
use std::collections::{BTreeMap, HashSet};
use verif_harness::ast_coq;
use verif_harness::*;

#[allow(dead_code)]
#[path = "/repo/crates/cli/src/builtins.rs"]
mod cli_builtins;

include!("c05_gen.rs");

// ------------------------------------------------------------------ printing diagnostics as Coq terms

fn emsg(m: &M) -> String {
    let q = |x: &str| coq_str(x);
    match m {
        M::UnknownDirective { name } => format!("(UnknownDirective {})", q(name)),
        M::DirectiveLocationNotAllowed { name } => format!("(DirectiveLocationNotAllowed {})", q(name)),
        M::RepeatedDirective { name } => format!("(RepeatedDirective {})", q(name)),
        M::ArgumentsNotNeeded { kind } => format!("(ArgumentsNotNeeded {})", q(kind)),
        M::RequiredArgumentNotSpecified { name } => format!("(RequiredArgumentNotSpecified {})", q(name)),
        M::TypeMismatch { r#type } => format!("(TypeMismatch {})", q(r#type)),
        M::UnknownVariable { name } => format!("(UnknownVariable {})", q(name)),
        M::UnknownEnumMember { member, r#enum } => format!("(UnknownEnumMember {} {})", q(member), q(r#enum)),
        M::UnknownArgument { name } => format!("(UnknownArgument {})", q(name)),
        M::RequiredFieldNotSpecified { name } => format!("(RequiredFieldNotSpecified {})", q(name)),
        M::UnknownField { name } => format!("(UnknownField {})", q(name)),
        M::UnscoUnsco => "UnscoUnsco".into(),
        M::DuplicatedName { name } => format!("(DuplicatedName {})", q(name)),
        M::UnknownType { name } => format!("(UnknownType {})", q(name)),
        M::RecursingDirective { name } => format!("(RecursingDirective {})", q(name)),
        M::NoOutputType { name } => format!("(NoOutputType {})", q(name)),
        M::NoInputType { name } => format!("(NoInputType {})", q(name)),
        M::NotInterface { name } => format!("(NotInterface {})", q(name)),
        M::InterfaceNotImplemented { name } => format!("(InterfaceNotImplemented {})", q(name)),
        M::NoImplementSelf => "NoImplementSelf".into(),
        M::InterfaceFieldNotImplemented { field_name, interface_name } =>
            format!("(InterfaceFieldNotImplemented {} {})", q(field_name), q(interface_name)),
        M::FieldTypeMisMatchWithInterface { interface_name } => format!("(FieldTypeMisMatchWithInterface {})", q(interface_name)),
        M::InterfaceArgumentNotImplemented { argument_name, interface_name } =>
            format!("(InterfaceArgumentNotImplemented {} {})", q(argument_name), q(interface_name)),
        M::ArgumentTypeMisMatchWithInterface { interface_name } => format!("(ArgumentTypeMisMatchWithInterface {})", q(interface_name)),
        M::ArgumentTypeNonNullAgainstInterface { interface_name } => format!("(ArgumentTypeNonNullAgainstInterface {})", q(interface_name)),
        M::NonObjectTypeUnionMember { member_name } => format!("(NonObjectTypeUnionMember {})", q(member_name)),
        M::TypeSystemError => "TypeSystemError".into(),
        M::DefinitionPos { name } => format!("(DefinitionPos {})", q(name)),
        other => format!("(EOther {})", q(&format!("{:?}", other))),
    }
}
fn cerr(e: &CheckError) -> String {
    format!("(mkErr {} {} {})", emsg(&e.message), ast_coq::pos(&e.position),
            coq_list(&e.additional_info, |(p, m)| format!("({}, {})", ast_coq::pos(p), emsg(m))))
}
fn cerr_json(e: &CheckError) -> serde_json::Value {
    json!({"msg": format!("{:?}", e.message), "line": e.position.line, "col": e.position.column, "file": e.position.file,
           "info": e.additional_info.iter().map(|(p, m)| format!("{}:{}:{} {:?}", p.file, p.line, p.column, m)).collect::<Vec<_>>()})
}

// ------------------------------------------------------------------ running the real pipeline

enum Outcome { ParseErr(String), ResolveErr { doc_ext: String, msg: String }, Checked { doc: String, errs: Vec<(String, serde_json::Value)>, n_defs: usize } }

/// files: SDL texts in file-index order (file 0 = first).
fn run_pipeline(files: &[String], want_ext: bool) -> (Outcome, Option<String>) {
    let mut docs = vec![];
    for (i, f) in files.iter().enumerate() {
        set_current_file_of_pos(i);
        match parse_type_system_document(f) {
            Ok(d) => docs.push(d),
            Err(e) => return (Outcome::ParseErr(format!("file {}: {}", i, e.into_message())), None),
        }
    }
    set_current_file_of_pos(0);
    let mut merged = TypeSystemOrExtensionDocument::merge(docs);
    merged.extend(graphql_builtins::generate_builtins());
    merged.extend(cli_builtins::nitrogql_builtins());
    let ext_term = if want_ext { Some(ast_coq::tsdoc_ext(&merged)) } else { None };
    let ext_for_err = ast_coq::tsdoc_ext(&merged);
    match resolve_schema_extensions(merged) {
        Err(e) => (Outcome::ResolveErr { doc_ext: ext_for_err, msg: format!("{:?}", e.message) }, ext_term),
        Ok(doc) => {
            let errs = check_type_system_document(&doc);
            (Outcome::Checked {
                doc: ast_coq::tsdoc(&doc),
                errs: errs.iter().map(|e| (cerr(e), cerr_json(e))).collect(),
                n_defs: doc.definitions.len(),
            }, ext_term)
        }
    }
}

fn main() {
    if std::env::var("LOUD").is_err() { silence_panics(); }
    let args = parse_args();
    let thorough = args.tier == "thorough";
    let mut rng = Rng::new(args.seed);
    let mut cases = Cases::new("From V Require Import Base.Util Gql.Ast C05.Model C05.Spec C05.Corr.", "case", "agree", "holds",
                               if thorough { 90 } else { 40 });
    let mut distinct: HashSet<String> = HashSet::new();
    let mut dist: BTreeMap<String, u64> = BTreeMap::new();
    let mut direct_failures: Vec<serde_json::Value> = vec![];
    let mut bump = |k: String, d: &mut BTreeMap<String, u64>| { *d.entry(k).or_insert(0) += 1; };
    let n_base = if thorough { 400 } else { 48 };
    let muts_per_base = if thorough { 24 } else { 12 };
    let all_muts = mutation_kinds();
    let mut mut_cursor = 0usize;
    let mut n_valid = 0u64; let mut n_valid_accepted = 0u64; let mut n_fault = 0u64; let mut n_fault_rejected = 0u64;
    let mut n_parse_err = 0u64; let mut max_defs = 0usize; let mut n_errs_total = 0u64;
    let mut samples: Vec<serde_json::Value> = vec![];

    let mut emit = |label: &str, site: &str, features: &[String], files: Vec<String>, rng_tag: u64,
                    cases: &mut Cases, dist: &mut BTreeMap<String, u64>| -> Option<(bool, usize)> {
        let (out, _) = run_pipeline(&files, false);
        match out {
            Outcome::ParseErr(m) => {
                // a generator bug (the renderer must produce parseable SDL): surface it loudly
                direct_failures.push(json!({"what": format!("generated SDL does not parse ({label}/{site}): {m}"), "classes": [], "files": files}));
                None
            }
            Outcome::ResolveErr { doc_ext, msg } => {
                bump(format!("resolve_error:{}", msg.split_whitespace().next().unwrap_or("")), dist);
                cases.push(format!("CResolve {} {} true", coq_str(label), doc_ext),
                           json!({"kind":"resolve","label":label,"site":site,"features":features,"files":files,"resolve_error":msg,"tag":rng_tag}));
                Some((true, 0))
            }
            Outcome::Checked { doc, errs, n_defs } => {
                for (_, j) in &errs { bump(format!("diag:{}", j["msg"].as_str().unwrap_or("").split(|c| c == ' ' || c == '{').next().unwrap_or("")), dist); }
                cases.push(format!("CCheck {} {} {}", coq_str(label), doc, coq_list(&errs, |(t, _)| t.clone())),
                           json!({"kind":"check","label":label,"site":site,"features":features,"files":files,
                                  "diagnostics": errs.iter().map(|(_, j)| j.clone()).collect::<Vec<_>>(),"tag":rng_tag}));
                Some((!errs.is_empty(), n_defs))
            }
        }
    };

    // corpus first (hand-written witnesses and past disagreements)
    for (label, site, text) in corpus() {
        let files = vec![text.to_string()];
        distinct.insert(files.join("\u{1}"));
        emit(label, site, &[], files, 0, &mut cases, &mut dist);
    }

    for b in 0..n_base {
        let cfg = GenCfg { big: thorough && b % 5 == 0 };
        let m = gen_model(&mut rng, &cfg);
        let tag = rng.next();
        let files = render_model(&m, &mut Rng::new(tag));
        let feats = m.features.clone();
        if distinct.insert(files.join("\u{1}")) {
            if let Some((rejected, nd)) = emit("valid", "-", &feats, files.clone(), tag, &mut cases, &mut dist) {
                n_valid += 1; if !rejected { n_valid_accepted += 1; }
                max_defs = max_defs.max(nd);
                if samples.len() < 2 { samples.push(json!({"label":"valid","files":files})); }
            }
        }
        let mut done = 0; let mut tries = 0;
        while done < muts_per_base && tries < muts_per_base * 6 {
            tries += 1;
            let kind = all_muts[mut_cursor % all_muts.len()]; mut_cursor += 1;
            let mut mm = m.clone();
            let Some((label, site)) = mutate(&mut rng, &mut mm, kind) else { continue };
            let tag = rng.next();
            let files = render_model(&mm, &mut Rng::new(tag));
            if !distinct.insert(files.join("\u{1}")) { continue; }
            if let Some((rejected, _)) = emit(&label, &site, &mm.features, files.clone(), tag, &mut cases, &mut dist) {
                done += 1;
                bump(format!("fault:{}@{}", label, site), &mut dist);
                if label != "valid" && !label.starts_with("x_") { n_fault += 1; if rejected { n_fault_rejected += 1; } }
                if samples.len() < 5 && done == 1 { samples.push(json!({"label":label,"site":site,"files":files})); }
            }
        }
        // a multi-fault mix: correspondence only needs diversity
        if b % 2 == 0 {
            let mut mm = m.clone();
            let mut labels = vec![];
            for _ in 0..rng.range(2, 4) {
                let kind = *rng.pick(&all_muts);
                if let Some((l, s)) = mutate(&mut rng, &mut mm, kind) { labels.push(format!("{l}@{s}")); }
            }
            let tag = rng.next();
            let files = render_model(&mm, &mut Rng::new(tag));
            if distinct.insert(files.join("\u{1}")) {
                emit("multi", &labels.join("+"), &mm.features, files, tag, &mut cases, &mut dist);
            }
        }
    }
    let _ = (&mut n_parse_err, &mut n_errs_total);
    cases.write(&args.out);
    write_meta(&args.out, &json!({
        "evaluations": cases.len(),
        "distinct_nontrivial": distinct.len(),
        "rule": "distinct = distinct rendered SDL file tuples; every case is a whole schema (>= 12 definitions incl. built-ins) run through parse/merge/resolve/check of /repo and through the model; valid-by-construction models, single-fault mutations labelled by rule and site, multi-fault mixes, hand-written corpus",
        "samples": samples,
        "distribution": {
            "valid_models": n_valid, "valid_models_accepted_by_impl": n_valid_accepted,
            "single_fault_mutations": n_fault, "single_fault_mutations_rejected_by_impl": n_fault_rejected,
            "max_definitions_in_resolved_doc": max_defs,
            "by_kind": dist,
        },
        "direct_failures": direct_failures,
    }));
}
