//! C03 / C04: runs the real `check_operation_document` of /repo (through the in-process pipeline: parse +
//! generate_builtins + resolve extensions + ast_to_type_system) on generated schemas and operation
//! documents and writes the case files the Coq model (C03/Model.v) and the reference validator
//! (C03/Spec.v) are evaluated on.
//!
//! Streams:
//!   corpus    hand-written documents: one per known defect plus regression cases for the `fix:` commits
//!   valid     documents valid by construction (gen.rs), with and without reliance on input coercions
//!   mutated   a valid document with one labelled rule violation injected at a random syntactic position
//!             (operations, fragments, inline fragments, directive arguments, nested list/object literals),
//!             plus multi-fault mixes
//! `--mode c04` changes the mix (valid documents only, more of them) and the name of the spec-side
//! predicate (`holds4`, C04/Corr.v); everything else is shared.
use nitrogql_ast::operation::OperationType;
use nitrogql_checker::{CheckError, CheckErrorMessage};
use serde_json::{json, Value};
use std::collections::{BTreeMap, BTreeSet, HashSet};
use std::fmt::Write as _;
use std::fs;
use std::panic::AssertUnwindSafe;
use verif_harness::ast_coq;
use verif_harness::gen::*;
use verif_harness::pipeline::*;
use verif_harness::*;

// ------------------------------------------------------------------ errors as Coq terms

fn optype(t: &OperationType) -> &'static str {
    match t { OperationType::Query => "Query", OperationType::Mutation => "Mutation", OperationType::Subscription => "Subscription" }
}
/// error::TypeKind is not exported by the crate; its Debug text is the constructor name
fn tkind(k: &impl std::fmt::Debug) -> String { format!("K{:?}", k) }
fn msg_coq(m: &CheckErrorMessage) -> String {
    use CheckErrorMessage::*;
    let s = |x: &str| coq_str(x);
    match m {
        UnknownDirective { name } => format!("(UnknownDirective {})", s(name)),
        DirectiveLocationNotAllowed { name } => format!("(DirectiveLocationNotAllowed {})", s(name)),
        RepeatedDirective { name } => format!("(RepeatedDirective {})", s(name)),
        ArgumentsNotNeeded { kind } => format!("(ArgumentsNotNeeded {})", s(kind)),
        RequiredArgumentNotSpecified { name } => format!("(RequiredArgumentNotSpecified {})", s(name)),
        TypeMismatch { r#type } => format!("(TypeMismatch {})", s(r#type)),
        UnknownVariable { name } => format!("(UnknownVariable {})", s(name)),
        UnknownEnumMember { member, r#enum } => format!("(UnknownEnumMember {} {})", s(member), s(r#enum)),
        UnknownArgument { name } => format!("(UnknownArgument {})", s(name)),
        RequiredFieldNotSpecified { name } => format!("(RequiredFieldNotSpecified {})", s(name)),
        UnknownField { name } => format!("(UnknownField {})", s(name)),
        UnknownType { name } => format!("(UnknownType {})", s(name)),
        NoOutputType { name } => format!("(NoOutputType {})", s(name)),
        UnNamedOperationMustBeSingle => "UnNamedOperationMustBeSingle".into(),
        DuplicateOperationName { operation_type } => format!("(DuplicateOperationName {})", optype(operation_type)),
        DuplicateFragmentName { other_position } => format!("(DuplicateFragmentName {})", ast_coq::pos(other_position)),
        NoRootType { operation_type } => format!("(NoRootType {})", optype(operation_type)),
        SelectionOnInvalidType { kind, name } => format!("(SelectionOnInvalidType {} {})", tkind(kind), s(name)),
        MustSpecifySelectionSet { name } => format!("(MustSpecifySelectionSet {})", s(name)),
        FieldNotFound { field_name, type_name } => format!("(FieldNotFound {} {})", s(field_name), s(type_name)),
        DuplicatedVariableName { name } => format!("(DuplicatedVariableName {})", s(name)),
        InvalidFragmentTarget { name } => format!("(InvalidFragmentTarget {})", s(name)),
        UnknownFragment { name } => format!("(UnknownFragment {})", s(name)),
        FragmentConditionNeverMatches { condition, scope } => format!("(FragmentConditionNeverMatches {} {})", s(condition), s(scope)),
        RecursingFragmentSpread { name } => format!("(RecursingFragmentSpread {})", s(name)),
        SubscriptionMustHaveExactlyOneRootField => "SubscriptionMustHaveExactlyOneRootField".into(),
        TypeSystemError => "TypeSystemError".into(),
        AnotherDefinitionPos { name } => format!("(AnotherDefinitionPos {})", s(name)),
        DefinitionPos { name } => format!("(DefinitionPos {})", s(name)),
        RootTypesAreDefinedHere => "RootTypesAreDefinedHere".into(),
        other => format!("(OtherMessage {})", s(&format!("{:?}", other))),
    }
}
fn err_coq(e: &CheckError) -> String {
    format!(
        "(mkErr {} {} {})",
        msg_coq(&e.message),
        ast_coq::pos(&e.position),
        coq_list(&e.additional_info, |(p, m)| format!("({}, {})", ast_coq::pos(p), msg_coq(m)))
    )
}
fn kind_name(m: &CheckErrorMessage) -> String {
    let d = format!("{:?}", m);
    d.split(|c: char| !c.is_alphanumeric()).next().unwrap_or("").to_string()
}

// ------------------------------------------------------------------ walking the Doc tree

#[derive(Clone, Debug, PartialEq, Eq, Hash, PartialOrd, Ord)]
enum Root { Op(usize), Frag(usize) }
/// a selection list inside the document: container + indices of the selections descended through
#[derive(Clone, Debug, PartialEq, Eq, Hash, PartialOrd, Ord)]
struct SlotId { root: Root, path: Vec<usize> }
#[derive(Clone, Debug)]
struct Slot { id: SlotId, parent: Option<String>, depth: usize, under_inline: bool }

fn op_root_type(s: &Schema, kind: &str) -> Option<String> {
    match kind { "query" => Some(s.query.clone()), "mutation" => s.mutation.clone(), "subscription" => s.subscription.clone(), _ => None }
}
fn field_def<'a>(s: &'a Schema, parent: &str, name: &str) -> Option<&'a Field> {
    s.fields_of(parent).iter().find(|f| f.name == name)
}
fn child_type(s: &Schema, parent: &Option<String>, name: &str) -> Option<String> {
    let p = parent.as_ref()?;
    if name == "__typename" { return if s.is_composite(p) { Some("String".into()) } else { None }; }
    field_def(s, p, name).map(|f| f.ty.named().to_string())
}
fn sels_at<'a>(doc: &'a Doc, id: &SlotId) -> &'a Vec<Sel> {
    let mut cur: &Vec<Sel> = match &id.root { Root::Op(i) => &doc.ops[*i].sel, Root::Frag(i) => &doc.frags[*i].sel };
    for k in &id.path {
        cur = match &cur[*k] { Sel::Field { sub: Some(s), .. } => s, Sel::Inline { sub, .. } => sub, _ => panic!("bad path") };
    }
    cur
}
fn sels_at_mut<'a>(doc: &'a mut Doc, id: &SlotId) -> &'a mut Vec<Sel> {
    let mut cur: &mut Vec<Sel> = match &id.root { Root::Op(i) => &mut doc.ops[*i].sel, Root::Frag(i) => &mut doc.frags[*i].sel };
    for k in &id.path {
        cur = match &mut cur[*k] { Sel::Field { sub: Some(s), .. } => s, Sel::Inline { sub, .. } => sub, _ => panic!("bad path") };
    }
    cur
}
fn collect_slots(s: &Schema, doc: &Doc) -> Vec<Slot> {
    fn go(s: &Schema, sels: &[Sel], id: SlotId, parent: Option<String>, depth: usize, under_inline: bool, out: &mut Vec<Slot>) {
        out.push(Slot { id: id.clone(), parent: parent.clone(), depth, under_inline });
        for (k, sel) in sels.iter().enumerate() {
            let mut cid = id.clone();
            cid.path.push(k);
            match sel {
                Sel::Field { name, sub: Some(sub), .. } => go(s, sub, cid, child_type(s, &parent, name), depth + 1, under_inline, out),
                Sel::Inline { cond, sub, .. } => go(s, sub, cid, cond.clone().or(parent.clone()), depth + 1, true, out),
                _ => {}
            }
        }
    }
    let mut out = vec![];
    for (i, o) in doc.ops.iter().enumerate() { go(s, &o.sel, SlotId { root: Root::Op(i), path: vec![] }, op_root_type(s, &o.kind), 0, false, &mut out); }
    for (i, f) in doc.frags.iter().enumerate() { go(s, &f.sel, SlotId { root: Root::Frag(i), path: vec![] }, Some(f.cond.clone()), 0, false, &mut out); }
    out
}
fn is_interface(s: &Schema, n: &str) -> bool { matches!(s.get(n).map(|t| &t.kind), Some(Kind::Interface { .. })) }

/// The selection lists `check_operation_document` actually walks (with_fast_path = true), resp. the ones a
/// validator that follows every spread would walk (false); also the fragments whose definition-level
/// directives get checked (those spread from a walked list).
fn visited(s: &Schema, doc: &Doc, with_fast_path: bool) -> (HashSet<SlotId>, HashSet<String>) {
    fn go(s: &Schema, doc: &Doc, fast: bool, id: SlotId, parent: Option<String>, seen: &Vec<String>, out: &mut HashSet<SlotId>, spread: &mut HashSet<String>) {
        let Some(p) = parent.clone() else { return };
        out.insert(id.clone());
        if !s.is_composite(&p) { return; }
        let sels = sels_at(doc, &id);
        for (k, sel) in sels.iter().enumerate() {
            let mut cid = id.clone();
            cid.path.push(k);
            match sel {
                Sel::Field { name, sub: Some(_), .. } => go(s, doc, fast, cid, child_type(s, &parent, name), seen, out, spread),
                Sel::Field { .. } => {}
                Sel::Inline { cond, .. } => match cond {
                    None => go(s, doc, fast, cid, parent.clone(), seen, out, spread),
                    Some(c) => {
                        if s.get(c).is_none() && !BUILTIN_SCALARS.contains(&c.as_str()) { continue; }
                        if fast && c == &p && is_interface(s, c) { continue; }
                        go(s, doc, fast, cid, Some(c.clone()), seen, out, spread)
                    }
                },
                Sel::Spread { name, .. } => {
                    if seen.contains(name) { continue; }
                    // last definition wins in the implementation's fragment map
                    let Some(fi) = doc.frags.iter().rposition(|f| &f.name == name) else { continue };
                    spread.insert(name.clone());
                    let c = doc.frags[fi].cond.clone();
                    if s.get(&c).is_none() && !BUILTIN_SCALARS.contains(&c.as_str()) { continue; }
                    if fast && c == p && is_interface(s, &c) { continue; }
                    let mut seen2 = seen.clone();
                    seen2.push(name.clone());
                    go(s, doc, fast, SlotId { root: Root::Frag(fi), path: vec![] }, Some(c), &seen2, out, spread)
                }
            }
        }
    }
    let mut out = HashSet::new();
    let mut spread = HashSet::new();
    for (i, o) in doc.ops.iter().enumerate() {
        go(s, doc, with_fast_path, SlotId { root: Root::Op(i), path: vec![] }, op_root_type(s, &o.kind), &vec![], &mut out, &mut spread);
    }
    (out, spread)
}

// ------------------------------------------------------------------ fault injection

/// where a fault was placed, for the known-finding classification
#[derive(Clone, Debug)]
enum Site { Slot(SlotId), FragDirs(usize), Doc }

#[derive(Clone, Debug)]
struct Fault { rule: &'static str, what: String, site: Site }

fn valid_lit(rng: &mut Rng, s: &Schema, ty: &Ty) -> String { literal_for(rng, ty, &s.types, &mut vec![], false) }

/// a literal that does not have type `ty` (None when every literal has it, e.g. custom scalars)
fn bad_lit(rng: &mut Rng, s: &Schema, ty: &Ty, depth: usize) -> Option<String> {
    match ty {
        Ty::NonNull(t) => if rng.chance(1, 4) { Some("null".into()) } else { bad_lit(rng, s, t, depth) },
        Ty::List(t) => {
            let inner = bad_lit(rng, s, t, depth + 1)?;
            Some(match rng.below(3) {
                0 => inner, // single value coerced to a list: still has to have the item type
                1 => format!("[{}]", inner),
                _ => format!("[{}, {}]", valid_lit(rng, s, t), inner),
            })
        }
        Ty::Named(n) => match n.as_str() {
            "Int" => Some((*rng.pick(&["\"x\"", "1.5", "true", "{a: 1}", "[1]", "V00", "2147483648", "-2147483649", "123456789012345678901"])).to_string()),
            "Float" => Some((*rng.pick(&["\"x\"", "true", "[1.5]"])).to_string()),
            "String" => Some((*rng.pick(&["1", "true", "V00", "{s: \"x\"}"])).to_string()),
            "Boolean" => Some((*rng.pick(&["1", "\"true\"", "[true]"])).to_string()),
            "ID" => Some((*rng.pick(&["1.5", "true", "V00"])).to_string()),
            other => match s.get(other).map(|t| &t.kind) {
                Some(Kind::Enum { values }) => Some(match rng.below(4) { 0 => "NOPE".to_string(), 1 => format!("\"{}\"", values[0]), 2 => "1".into(), _ => "true".into() }),
                Some(Kind::Input { fields }) => {
                    let required: Vec<&Arg> = fields.iter().filter(|f| f.ty.is_nonnull() && f.default.is_none()).collect();
                    let base = |rng: &mut Rng, skip: Option<&str>| -> Vec<String> {
                        let mut v = vec![];
                        for f in fields {
                            if Some(f.name.as_str()) == skip { continue; }
                            if f.ty.is_nonnull() && f.default.is_none() || (depth < 2 && rng.chance(1, 3)) {
                                v.push(format!("{}: {}", f.name, if depth < 2 { valid_lit(rng, s, &f.ty) } else { shallow_lit(rng, s, &f.ty) }));
                            }
                        }
                        v
                    };
                    match rng.below(5) {
                        0 => { let mut p = base(rng, None); p.push("zz: 1".into()); Some(format!("{{{}}}", p.join(", "))) }
                        1 if !required.is_empty() => { let r = rng.pick(&required).name.clone(); let p = base(rng, Some(&r)); Some(format!("{{{}}}", p.join(", "))) }
                        2 | 3 if depth < 3 => {
                            let f = rng.pick(fields).clone();
                            let b = bad_lit(rng, s, &f.ty, depth + 1)?;
                            let mut p = base(rng, Some(&f.name));
                            p.push(format!("{}: {}", f.name, b));
                            Some(format!("{{{}}}", p.join(", ")))
                        }
                        _ => Some((*rng.pick(&["1", "\"x\"", "true", "V00"])).to_string()),
                    }
                }
                _ => None,
            },
        },
    }
}
/// a valid literal that does not recurse into input objects more than necessary
fn shallow_lit(rng: &mut Rng, s: &Schema, ty: &Ty) -> String {
    match ty {
        Ty::NonNull(t) => match &**t { Ty::List(_) => "[]".into(), _ => valid_lit(rng, s, ty) },
        _ => "null".into(),
    }
}

fn root_name(doc: &Doc, r: &Root) -> String {
    match r { Root::Op(i) => format!("operation {}", i), Root::Frag(i) => format!("fragment {}", doc.frags[*i].name) }
}
fn describe(doc: &Doc, id: &SlotId) -> String { format!("{} path {:?}", root_name(doc, &id.root), id.path) }

fn pick_slot<'a>(rng: &mut Rng, slots: &'a [Slot], f: impl Fn(&Slot) -> bool) -> Option<&'a Slot> {
    let c: Vec<&Slot> = slots.iter().filter(|s| f(s)).collect();
    if c.is_empty() { None } else { Some(*rng.pick(&c)) }
}
/// (slot, index) of field selections satisfying `f`
fn pick_field<'a>(rng: &mut Rng, doc: &Doc, slots: &'a [Slot], f: impl Fn(&Slot, &Sel) -> bool) -> Option<(&'a Slot, usize)> {
    let mut c = vec![];
    for sl in slots { for (k, sel) in sels_at(doc, &sl.id).iter().enumerate() { if matches!(sel, Sel::Field { .. }) && f(sl, sel) { c.push((sl, k)); } } }
    if c.is_empty() { None } else { Some(*rng.pick(&c)) }
}

const MUTATIONS: &[&str] = &[
    "dup-op-name", "anonymous-among-many", "subscription-two-roots", "field-not-exist", "leaf-with-selection",
    "composite-without-selection", "unknown-arg", "args-not-needed", "missing-required-arg", "bad-literal",
    "dup-var", "var-output-type", "var-unknown-type", "undefined-var", "undefined-var-in-directive", "var-incompatible",
    "var-drop-nonnull", "dup-fragment", "fragment-unknown-target", "fragment-leaf-target", "inline-unknown-target",
    "inline-leaf-target", "undefined-spread", "fragment-cycle", "impossible-spread", "unknown-directive",
    "directive-wrong-location", "directive-repeated", "directive-bad-arg", "directive-missing-arg", "directive-unknown-arg",
    "unspread-fragment-bad-field", "same-interface-inline-bad-field", "undefined-var-in-custom-scalar",
    "int-out-of-range",
    // multi-operation documents sharing a fragment that uses a variable (the fragment's body has to be validated
    // in the scope of EVERY operation that spreads it)
    "shared-fragment-var-undeclared", "shared-fragment-var-incompatible", "shared-fragment-var-nullable",
    "shared-fragment-var-undeclared", "shared-fragment-var-incompatible",
    // Operation Name Uniqueness is per document, whatever the operation types
    "dup-op-name-cross-kind", "dup-op-name-cross-kind",
    // the second value given for an argument / input field is type-checked too (commit 7d19234)
    "dup-arg-bad-second",
    // subscriptions: response keys are counted (commit a3d3d08)
    "subscription-same-key-twice",
    // a variable whose declared type has fewer list levels than the position it is used at (list input coercion does not
    // apply to variables: AreTypesCompatible is false) — argument, input-object field, item of a list literal; in fragments too
    "var-fewer-list-levels", "var-fewer-list-levels", "var-fewer-list-levels",
    // a field whose unwrapped type is a union (possibly a list of it) selected without a selection set
    "union-without-selection", "union-without-selection",
    // a fragment on an interface, used in the scope of an implementing object, selects a field only the object has
    "object-field-in-interface-fragment", "object-field-in-interface-fragment",
];

fn inject(rng: &mut Rng, s: &Schema, doc: &mut Doc, kind: &str) -> Option<Fault> {
    let slots = collect_slots(s, doc);
    let typed = |sl: &Slot| sl.parent.as_ref().map_or(false, |p| s.is_composite(p));
    match kind {
        "dup-op-name" => {
            let i = rng.below(doc.ops.len());
            let mut o = doc.ops[i].clone();
            if o.name.is_none() { o.name = Some("OpX".into()); doc.ops[i].name = Some("OpX".into()); doc.ops[i].shorthand = false; }
            o.shorthand = false;
            doc.ops.push(o);
            Some(Fault { rule: "unique_op_names", what: format!("operation {} duplicated", i), site: Site::Doc })
        }
        "dup-op-name-cross-kind" => {
            // a mutation / subscription that takes the name of an existing operation of another kind, before or after it
            let mut kinds: Vec<&str> = vec![];
            if s.mutation.is_some() { kinds.push("mutation"); }
            if s.subscription.is_some() { kinds.push("subscription"); }
            kinds.push("query");
            let i = rng.below(doc.ops.len());
            let other: Vec<&str> = kinds.into_iter().filter(|k| *k != doc.ops[i].kind).collect();
            if other.is_empty() { return None; }
            let k = (*rng.pick(&other)).to_string();
            if doc.ops[i].name.is_none() { doc.ops[i].name = Some("OpZ".into()); doc.ops[i].shorthand = false; }
            if doc.ops.iter().any(|o| o.name.is_none()) { return None; }
            let name = doc.ops[i].name.clone();
            let new = Op { kind: k.clone(), name, vars: vec![], dirs: vec![], shorthand: false,
                           sel: vec![Sel::Field { alias: None, name: "__typename".into(), args: vec![], dirs: vec![], sub: None }] };
            let at = if rng.chance(1, 2) { i } else { i + 1 };
            doc.ops.insert(at, new);
            Some(Fault { rule: "unique_op_names", what: format!("a {} named like the {} at index {}", k, doc.ops[if at == i { i + 1 } else { i }].kind, i), site: Site::Doc })
        }
        "anonymous-among-many" => {
            let i = rng.below(doc.ops.len());
            let mut o = doc.ops[i].clone();
            o.name = None;
            if doc.ops[i].name.is_none() { doc.ops[i].name = Some("OpY".into()); }
            doc.ops.insert(rng.below(doc.ops.len() + 1), o);
            Some(Fault { rule: "lone_anonymous", what: "anonymous operation next to others".into(), site: Site::Doc })
        }
        "subscription-two-roots" => {
            let root = s.subscription.clone()?;
            let fs = s.fields_of(&root).to_vec();
            let i = doc.ops.iter().position(|o| o.kind == "subscription");
            let extra = match rng.below(3) {
                0 => Sel::Field { alias: Some("second".into()), name: "__typename".into(), args: vec![], dirs: vec![], sub: None },
                1 => Sel::Inline { cond: None, dirs: vec![], sub: vec![Sel::Field { alias: Some("second".into()), name: "__typename".into(), args: vec![], dirs: vec![], sub: None }] },
                _ => {
                    let n = format!("FS{}", doc.frags.len());
                    doc.frags.push(Frag { name: n.clone(), cond: root.clone(), dirs: vec![], sel: vec![Sel::Field { alias: Some("second".into()), name: "__typename".into(), args: vec![], dirs: vec![], sub: None }] });
                    Sel::Spread { name: n, dirs: vec![] }
                }
            };
            match i {
                Some(i) => { doc.ops[i].sel.push(extra); }
                None => {
                    let _ = fs;
                    let name = if doc.ops.iter().all(|o| o.name.is_some()) { Some("SubX".to_string()) } else { return None };
                    doc.ops.push(Op { kind: "subscription".into(), name, vars: vec![], dirs: vec![], sel: vec![Sel::Field { alias: None, name: "__typename".into(), args: vec![], dirs: vec![], sub: None }, extra], shorthand: false });
                }
            }
            Some(Fault { rule: "single_subscription_root", what: "second root field in a subscription".into(), site: Site::Doc })
        }
        "field-not-exist" => {
            let (sl, k) = pick_field(rng, doc, &slots, |sl, _| typed(sl))?;
            let id = sl.id.clone();
            if let Sel::Field { name, .. } = &mut sels_at_mut(doc, &id)[k] { *name = "nope".into(); }
            Some(Fault { rule: "fields_exist", what: format!("field renamed to nope at {}", describe(doc, &id)), site: Site::Slot(id) })
        }
        "leaf-with-selection" => {
            let (sl, k) = pick_field(rng, doc, &slots, |sl, sel| typed(sl) && matches!(sel, Sel::Field { sub: None, .. }))?;
            let id = sl.id.clone();
            if let Sel::Field { sub, .. } = &mut sels_at_mut(doc, &id)[k] { *sub = Some(vec![Sel::Field { alias: None, name: "__typename".into(), args: vec![], dirs: vec![], sub: None }]); }
            Some(Fault { rule: "leaf_vs_composite", what: format!("selection set on a leaf at {}", describe(doc, &id)), site: Site::Slot(id) })
        }
        "composite-without-selection" => {
            let (sl, k) = pick_field(rng, doc, &slots, |sl, sel| typed(sl) && matches!(sel, Sel::Field { sub: Some(_), .. }))?;
            let id = sl.id.clone();
            if let Sel::Field { sub, .. } = &mut sels_at_mut(doc, &id)[k] { *sub = None; }
            Some(Fault { rule: "leaf_vs_composite", what: format!("composite field without selection at {}", describe(doc, &id)), site: Site::Slot(id) })
        }
        "unknown-arg" | "args-not-needed" => {
            let want_args = kind == "unknown-arg";
            let (sl, k) = pick_field(rng, doc, &slots, |sl, sel| typed(sl) && match sel {
                Sel::Field { name, .. } => field_def(s, sl.parent.as_ref().unwrap(), name).map_or(name == "__typename" && !want_args, |f| f.args.is_empty() != want_args),
                _ => false })?;
            let id = sl.id.clone();
            if let Sel::Field { args, .. } = &mut sels_at_mut(doc, &id)[k] { args.push(("zz".into(), "1".into())); }
            Some(Fault { rule: "args_defined", what: format!("argument zz at {}", describe(doc, &id)), site: Site::Slot(id) })
        }
        "missing-required-arg" => {
            let req = |sl: &Slot, name: &str| -> Vec<String> { field_def(s, sl.parent.as_ref().unwrap(), name).map_or(vec![], |f| f.args.iter().filter(|a| a.ty.is_nonnull() && a.default.is_none()).map(|a| a.name.clone()).collect()) };
            let (sl, k) = pick_field(rng, doc, &slots, |sl, sel| typed(sl) && match sel { Sel::Field { name, .. } => !req(sl, name).is_empty(), _ => false })?;
            let id = sl.id.clone();
            if let Sel::Field { name, args, .. } = &mut sels_at_mut(doc, &id)[k] {
                let r = req(sl, name);
                let victim = rng.pick(&r).clone();
                args.retain(|(n, _)| n != &victim);
            }
            Some(Fault { rule: "required_args", what: format!("required argument removed at {}", describe(doc, &id)), site: Site::Slot(id) })
        }
        "bad-literal" => {
            let (sl, k) = pick_field(rng, doc, &slots, |sl, sel| typed(sl) && match sel { Sel::Field { name, .. } => field_def(s, sl.parent.as_ref().unwrap(), name).map_or(false, |f| !f.args.is_empty()), _ => false })?;
            let id = sl.id.clone();
            let fname = match &sels_at(doc, &id)[k] { Sel::Field { name, .. } => name.clone(), _ => unreachable!() };
            let fd = field_def(s, sl.parent.as_ref().unwrap(), &fname)?.clone();
            let mut order: Vec<usize> = (0..fd.args.len()).collect();
            rng.shuffle(&mut order);
            for ai in order {
                let a = &fd.args[ai];
                if let Some(b) = bad_lit(rng, s, &a.ty, 0) {
                    if let Sel::Field { args, alias, .. } = &mut sels_at_mut(doc, &id)[k] {
                        args.retain(|(n, _)| n != &a.name);
                        args.push((a.name.clone(), b.clone()));
                        if alias.is_none() { *alias = Some("kx".into()); }
                    }
                    return Some(Fault { rule: "literal_types", what: format!("argument {}: {} for type {} at {}", a.name, b, a.ty.render(), describe(doc, &id)), site: Site::Slot(id) });
                }
            }
            None
        }
        "shared-fragment-var-undeclared" | "shared-fragment-var-incompatible" | "shared-fragment-var-nullable" => {
            // two (or three) operations over the same root field, one shared fragment whose field takes `$sv`
            // (directly, or through a second fragment); exactly one operation, first or later, is faulty
            let q = s.query.clone();
            // (path field to reach parent P from the query root, P, field with arguments on P)
            let mut cands: Vec<(Option<Field>, String, Field)> = vec![];
            for f in s.fields_of(&q) { if !f.args.is_empty() { cands.push((None, q.clone(), f.clone())); } }
            for r in s.fields_of(&q) {
                if !r.args.iter().all(|a| !(a.ty.is_nonnull() && a.default.is_none())) { continue; }
                let p = r.ty.named().to_string();
                if !s.is_composite(&p) { continue; }
                for f in s.fields_of(&p) { if !f.args.is_empty() { cands.push((Some(r.clone()), p.clone(), f.clone())); } }
            }
            let need_nonnull = kind == "shared-fragment-var-nullable";
            let cands: Vec<_> = cands.into_iter().filter(|(_, _, f)| f.args.iter().any(|a| !need_nonnull || (a.ty.is_nonnull() && a.default.is_none()))).collect();
            if cands.is_empty() { return None; }
            let (path, parent, f) = rng.pick(&cands).clone();
            let pick: Vec<&Arg> = f.args.iter().filter(|a| !need_nonnull || (a.ty.is_nonnull() && a.default.is_none())).collect();
            let a = (*rng.pick(&pick)).clone();
            let mut args = vec![(a.name.clone(), "$sv".to_string())];
            for o in &f.args { if o.name != a.name && o.ty.is_nonnull() && o.default.is_none() { args.push((o.name.clone(), valid_lit(rng, s, &o.ty))); } }
            let sub = if s.is_composite(f.ty.named()) { Some(vec![Sel::Field { alias: None, name: "__typename".into(), args: vec![], dirs: vec![], sub: None }]) } else { None };
            let use_sel = Sel::Field { alias: Some("kv".into()), name: f.name.clone(), args, dirs: vec![], sub };
            let transitive = rng.chance(1, 2);
            let mut frags = vec![];
            if transitive {
                frags.push(Frag { name: "SF".into(), cond: parent.clone(), dirs: vec![], sel: vec![Sel::Field { alias: None, name: "__typename".into(), args: vec![], dirs: vec![], sub: None }, Sel::Spread { name: "SG".into(), dirs: vec![] }] });
                frags.push(Frag { name: "SG".into(), cond: parent.clone(), dirs: vec![], sel: vec![use_sel] });
            } else {
                frags.push(Frag { name: "SF".into(), cond: parent.clone(), dirs: vec![], sel: vec![use_sel] });
            }
            let n_ops = rng.range(2, 3);
            let faulty = rng.below(n_ops);
            let good_ty = a.ty.render();
            let mut ops = vec![];
            for i in 0..n_ops {
                let vars = if i != faulty { vec![VarDef { name: "sv".into(), ty: good_ty.clone(), default: None, dirs: vec![] }] } else {
                    match kind {
                        "shared-fragment-var-undeclared" => vec![],
                        "shared-fragment-var-incompatible" => vec![VarDef { name: "sv".into(), ty: format!("[{}]", good_ty), default: None, dirs: vec![] }],
                        _ => vec![VarDef { name: "sv".into(), ty: a.ty.nullable().render(), default: None, dirs: vec![] }],
                    }
                };
                let spread = Sel::Spread { name: "SF".into(), dirs: vec![] };
                let sel = match &path {
                    None => vec![spread],
                    Some(r) => vec![Sel::Field { alias: None, name: r.name.clone(), args: vec![], dirs: vec![], sub: Some(vec![spread]) }],
                };
                ops.push(Op { kind: "query".into(), name: Some(format!("S{}", i)), vars, dirs: vec![], sel, shorthand: false });
            }
            *doc = Doc { ops, frags, features: vec![] };
            let rule = if kind == "shared-fragment-var-undeclared" { "vars_defined" } else { "var_usage_compatible" };
            Some(Fault { rule, what: format!("{} operations share fragment SF{} using $sv: {}; operation {} is the faulty one", n_ops, if transitive { " (through SG)" } else { "" }, good_ty, faulty), site: Site::Doc })
        }
        "var-fewer-list-levels" => {
            fn levels(t: &Ty) -> usize { match t { Ty::NonNull(i) => levels(i), Ty::List(i) => 1 + levels(i), Ty::Named(_) => 0 } }
            fn item(t: &Ty) -> Ty { match t { Ty::NonNull(i) => item(i), Ty::List(i) => (**i).clone(), Ty::Named(_) => t.clone() } }
            let q = s.query.clone();
            // (path field to reach parent P from the query root, P, field with arguments on P)
            let mut fields: Vec<(Option<Field>, String, Field)> = vec![];
            for f in s.fields_of(&q) { if !f.args.is_empty() { fields.push((None, q.clone(), f.clone())); } }
            for r in s.fields_of(&q) {
                if !r.args.iter().all(|a| !(a.ty.is_nonnull() && a.default.is_none())) { continue; }
                let p = r.ty.named().to_string();
                if !s.is_composite(&p) { continue; }
                for f in s.fields_of(&p) { if !f.args.is_empty() { fields.push((Some(r.clone()), p.clone(), f.clone())); } }
            }
            // (…, argument, Some(input field) when the position is a field of the input object given for the argument)
            let mut cands: Vec<(Option<Field>, String, Field, Arg, Option<Arg>)> = vec![];
            for (path, parent, f) in &fields {
                for a in &f.args {
                    if levels(&a.ty) > 0 { cands.push((path.clone(), parent.clone(), f.clone(), a.clone(), None)); }
                    if let Some(TypeDef { kind: Kind::Input { fields: ifs }, .. }) = s.get(a.ty.named()) {
                        for fl in ifs { if levels(&fl.ty) > 0 { cands.push((path.clone(), parent.clone(), f.clone(), a.clone(), Some(fl.clone()))); } }
                    }
                }
            }
            if cands.is_empty() { return None; }
            let (path, parent, f, a, infield) = rng.pick(&cands).clone();
            // the type of the position the variable is written at
            let mut loc = match &infield { Some(fl) => fl.ty.clone(), None => a.ty.clone() };
            // optionally one level down: `[$lv]`, the position is an item of a list literal
            let mut in_list = 0;
            while levels(&loc) > 1 && rng.chance(1, 3) { loc = item(&loc); in_list += 1; }
            let good_ty = loc.render();
            let strip = rng.range(1, levels(&loc));
            let mut vt = loc.clone();
            for _ in 0..strip { vt = item(&vt); }
            let vt = if rng.chance(1, 2) { vt.nullable().clone() } else { Ty::NonNull(Box::new(vt.nullable().clone())) };
            let bad_ty = vt.render();
            let mut use_txt = "$lv".to_string();
            for _ in 0..in_list { use_txt = format!("[{}]", use_txt); }
            let arg_val = match &infield {
                None => use_txt.clone(),
                Some(fl) => {
                    let ifs = match s.get(a.ty.named()) { Some(TypeDef { kind: Kind::Input { fields }, .. }) => fields.clone(), _ => return None };
                    let mut parts = vec![format!("{}: {}", fl.name, use_txt)];
                    for o in &ifs { if o.name != fl.name && o.ty.is_nonnull() && o.default.is_none() { parts.push(format!("{}: {}", o.name, valid_lit(rng, s, &o.ty))); } }
                    format!("{{{}}}", parts.join(", "))
                }
            };
            let mut args = vec![(a.name.clone(), arg_val)];
            for o in &f.args { if o.name != a.name && o.ty.is_nonnull() && o.default.is_none() { args.push((o.name.clone(), valid_lit(rng, s, &o.ty))); } }
            let sub = if s.is_composite(f.ty.named()) { Some(vec![Sel::Field { alias: None, name: "__typename".into(), args: vec![], dirs: vec![], sub: None }]) } else { None };
            let use_sel = Sel::Field { alias: Some("lv".into()), name: f.name.clone(), args, dirs: vec![], sub };
            // directly in the operation, in a fragment, or in a fragment spread by a fragment
            let place = rng.below(3);
            let mut frags = vec![];
            let body = match place {
                0 => use_sel,
                1 => { frags.push(Frag { name: "LF".into(), cond: parent.clone(), dirs: vec![], sel: vec![use_sel] }); Sel::Spread { name: "LF".into(), dirs: vec![] } }
                _ => {
                    frags.push(Frag { name: "LF".into(), cond: parent.clone(), dirs: vec![], sel: vec![Sel::Field { alias: None, name: "__typename".into(), args: vec![], dirs: vec![], sub: None }, Sel::Spread { name: "LG".into(), dirs: vec![] }] });
                    frags.push(Frag { name: "LG".into(), cond: parent.clone(), dirs: vec![], sel: vec![use_sel] });
                    Sel::Spread { name: "LF".into(), dirs: vec![] }
                }
            };
            let n_ops = rng.range(1, 2);
            let faulty = rng.below(n_ops);
            let mut ops = vec![];
            for i in 0..n_ops {
                let vars = vec![VarDef { name: "lv".into(), ty: if i == faulty { bad_ty.clone() } else { good_ty.clone() }, default: None, dirs: vec![] }];
                let sel = match &path {
                    None => vec![body.clone()],
                    Some(r) => vec![Sel::Field { alias: None, name: r.name.clone(), args: vec![], dirs: vec![], sub: Some(vec![body.clone()]) }],
                };
                ops.push(Op { kind: "query".into(), name: Some(format!("L{}", i)), vars, dirs: vec![], sel, shorthand: false });
            }
            *doc = Doc { ops, frags, features: vec![] };
            Some(Fault { rule: "var_usage_compatible",
                         what: format!("$lv: {} used as {} where {} is expected ({} list level(s) fewer; {}{}); operation {} of {}",
                                       bad_ty, use_txt, good_ty, strip,
                                       match &infield { Some(fl) => format!("input field {}.{} of argument {}", a.ty.named(), fl.name, a.name), None => format!("argument {}", a.name) },
                                       match place { 0 => "", 1 => ", in a fragment", _ => ", in a fragment spread by a fragment" }, faulty, n_ops),
                         site: Site::Doc })
        }
        "union-without-selection" => {
            let is_union = |n: &str| matches!(s.get(n).map(|t| &t.kind), Some(Kind::Union { .. }));
            // (a) an existing selection of a union-typed field loses its selection set
            let existing = pick_field(rng, doc, &slots, |sl, sel| typed(sl) && match sel {
                Sel::Field { name, sub: Some(_), .. } => field_def(s, sl.parent.as_ref().unwrap(), name).map_or(false, |f| is_union(f.ty.named())),
                _ => false });
            if let (Some((sl, k)), true) = (existing, rng.chance(1, 2)) {
                let id = sl.id.clone();
                let mut what = String::new();
                if let Sel::Field { name, sub, .. } = &mut sels_at_mut(doc, &id)[k] {
                    *sub = None;
                    let fd = field_def(s, sl.parent.as_ref().unwrap(), name)?;
                    what = format!("{}: {} (union) without selection set", name, fd.ty.render());
                }
                let what = format!("{} at {}", what, describe(doc, &id));
                return Some(Fault { rule: "leaf_vs_composite", what, site: Site::Slot(id) });
            }
            // (b) a new selection of a union-typed field, without selection set, anywhere its parent type is selected
            let cands: Vec<(&Slot, Field)> = slots.iter().filter(|sl| typed(sl)).flat_map(|sl| {
                s.fields_of(sl.parent.as_ref().unwrap()).iter().filter(|f| is_union(f.ty.named())).map(move |f| (sl, f.clone()))
            }).collect();
            if cands.is_empty() { return None; }
            let (sl, f) = rng.pick(&cands).clone();
            let id = sl.id.clone();
            let mut args = vec![];
            for o in &f.args { if o.ty.is_nonnull() && o.default.is_none() { args.push((o.name.clone(), valid_lit(rng, s, &o.ty))); } }
            let sels = sels_at_mut(doc, &id);
            let at = rng.below(sels.len() + 1);
            sels.insert(at, Sel::Field { alias: Some("un".into()), name: f.name.clone(), args, dirs: vec![], sub: None });
            Some(Fault { rule: "leaf_vs_composite", what: format!("{}: {} (union) selected without selection set at {}", f.name, f.ty.render(), describe(doc, &id)), site: Site::Slot(id) })
        }
        "big-int-at-float-id" => {
            // valid: an IntValue of any magnitude is a Float / ID literal (3.5.2, 3.5.5); only Int is 32-bit
            fn big_lit(rng: &mut Rng, s: &Schema, ty: &Ty, depth: usize) -> Option<String> {
                match ty {
                    Ty::NonNull(t) => big_lit(rng, s, t, depth),
                    Ty::List(t) => {
                        let x = big_lit(rng, s, t, depth)?;
                        Some(match rng.below(4) { 0 => x, 1 => { let y = big_lit(rng, s, t, depth)?; format!("[{}, {}]", x, y) } _ => format!("[{}]", x) })
                    }
                    Ty::Named(n) if n == "Float" || n == "ID" =>
                        Some((*rng.pick(&["2147483648", "-2147483649", "1700000000000", "76561198000000000", "4294967296", "-9007199254740993", "99999999999999999999"])).to_string()),
                    Ty::Named(n) => {
                        if depth >= 3 { return None; }
                        let ifs = match s.get(n) { Some(TypeDef { kind: Kind::Input { fields }, .. }) => fields.clone(), _ => return None };
                        let mut order: Vec<usize> = (0..ifs.len()).collect();
                        for i in (1..order.len()).rev() { let j = rng.below(i + 1); order.swap(i, j); }
                        for i in order {
                            if let Some(x) = big_lit(rng, s, &ifs[i].ty, depth + 1) {
                                let mut parts = vec![format!("{}: {}", ifs[i].name, x)];
                                for o in &ifs { if o.name != ifs[i].name && o.ty.is_nonnull() && o.default.is_none() { parts.push(format!("{}: {}", o.name, valid_lit(rng, s, &o.ty))); } }
                                return Some(format!("{{{}}}", parts.join(", ")));
                            }
                        }
                        None
                    }
                }
            }
            let mut cands: Vec<(&Slot, Field, Arg)> = vec![];
            for sl in slots.iter().filter(|sl| typed(sl)) {
                for f in s.fields_of(sl.parent.as_ref().unwrap()) {
                    for a in &f.args {
                        let n = a.ty.named();
                        if n == "Float" || n == "ID" || matches!(s.get(n).map(|t| &t.kind), Some(Kind::Input { .. })) { cands.push((sl, f.clone(), a.clone())); }
                    }
                }
            }
            if cands.is_empty() { return None; }
            for _try in 0..4 {
                let (sl, f, a) = rng.pick(&cands).clone();
                let v = match big_lit(rng, s, &a.ty, 0) { Some(v) => v, None => continue };
                let id = sl.id.clone();
                let mut args = vec![(a.name.clone(), v.clone())];
                for o in &f.args { if o.name != a.name && o.ty.is_nonnull() && o.default.is_none() { args.push((o.name.clone(), valid_lit(rng, s, &o.ty))); } }
                let sub = if s.is_composite(f.ty.named()) { Some(vec![Sel::Field { alias: None, name: "__typename".into(), args: vec![], dirs: vec![], sub: None }]) } else { None };
                let sels = sels_at_mut(doc, &id);
                let at = rng.below(sels.len() + 1);
                sels.insert(at, Sel::Field { alias: Some("bi".into()), name: f.name.clone(), args, dirs: vec![], sub });
                return Some(Fault { rule: "none (valid)", what: format!("{}({}: {}) with {}: {} at {}", f.name, a.name, v, a.name, a.ty.render(), describe(doc, &id)), site: Site::Slot(id) });
            }
            None
        }
        "object-field-in-interface-fragment" => {
            // (slot whose parent is an object O, interface I that O implements, field of O that I does not have)
            let mut cands: Vec<(&Slot, String, Field)> = vec![];
            for sl in slots.iter().filter(|sl| typed(sl)) {
                let o = sl.parent.as_ref().unwrap();
                let implements = match s.get(o) { Some(TypeDef { kind: Kind::Object { implements, .. }, .. }) => implements.clone(), _ => continue };
                for i in implements.iter().filter(|i| is_interface(s, i)) {
                    for f in s.fields_of(o) { if !s.fields_of(i).iter().any(|g| g.name == f.name) { cands.push((sl, i.clone(), f.clone())); } }
                }
            }
            if cands.is_empty() { return None; }
            let (sl, iface, f) = rng.pick(&cands).clone();
            let id = sl.id.clone();
            let mut args = vec![];
            for o in &f.args { if o.ty.is_nonnull() && o.default.is_none() { args.push((o.name.clone(), valid_lit(rng, s, &o.ty))); } }
            let sub = if s.is_composite(f.ty.named()) { Some(vec![Sel::Field { alias: None, name: "__typename".into(), args: vec![], dirs: vec![], sub: None }]) } else { None };
            let mut body = vec![Sel::Field { alias: Some("of".into()), name: f.name.clone(), args, dirs: vec![], sub }];
            if rng.chance(1, 2) { body.insert(0, Sel::Field { alias: None, name: "__typename".into(), args: vec![], dirs: vec![], sub: None }); }
            let object = sl.parent.clone().unwrap();
            let place = rng.below(3);
            let new = match place {
                0 => Sel::Inline { cond: Some(iface.clone()), dirs: vec![], sub: body },
                1 => { let n = format!("FO{}", doc.frags.len()); doc.frags.push(Frag { name: n.clone(), cond: iface.clone(), dirs: vec![], sel: body }); Sel::Spread { name: n, dirs: vec![] } }
                _ => {
                    // through a fragment on the object type
                    let n = format!("FO{}", doc.frags.len());
                    let g = format!("FP{}", doc.frags.len());
                    doc.frags.push(Frag { name: n.clone(), cond: iface.clone(), dirs: vec![], sel: body });
                    doc.frags.push(Frag { name: g.clone(), cond: object.clone(), dirs: vec![], sel: vec![Sel::Spread { name: n, dirs: vec![] }] });
                    Sel::Spread { name: g, dirs: vec![] }
                }
            };
            let sels = sels_at_mut(doc, &id);
            let at = rng.below(sels.len() + 1);
            sels.insert(at, new);
            Some(Fault { rule: "fields_exist", what: format!("{} (a field of {} only) selected in a fragment on interface {} ({}) at {}", f.name, object, iface,
                                                             match place { 0 => "inline", 1 => "named", _ => "named, through a fragment on the object" }, describe(doc, &id)), site: Site::Slot(id) })
        }
        "int-out-of-range" => {
            // an Int argument (possibly inside a list) gets a literal outside the signed 32-bit range (/repo commit 556742c)
            let int_arg = |a: &Arg| a.ty.named() == "Int";
            let (sl, k) = pick_field(rng, doc, &slots, |sl, sel| typed(sl) && match sel { Sel::Field { name, .. } => field_def(s, sl.parent.as_ref().unwrap(), name).map_or(false, |f| f.args.iter().any(int_arg)), _ => false })?;
            let id = sl.id.clone();
            let fname = match &sels_at(doc, &id)[k] { Sel::Field { name, .. } => name.clone(), _ => unreachable!() };
            let fd = field_def(s, sl.parent.as_ref().unwrap(), &fname)?.clone();
            let a = fd.args.iter().find(|a| int_arg(a))?.clone();
            let big = (*rng.pick(&["2147483648", "-2147483649", "4294967296", "99999999999999999999"])).to_string();
            fn wrap_lit(t: &Ty, v: &str, rng: &mut Rng) -> String { match t { Ty::NonNull(i) => wrap_lit(i, v, rng), Ty::List(i) => if rng.chance(1, 4) { wrap_lit(i, v, rng) } else { format!("[{}]", wrap_lit(i, v, rng)) }, Ty::Named(_) => v.to_string() } }
            let v = wrap_lit(&a.ty, &big, rng);
            if let Sel::Field { args, alias, .. } = &mut sels_at_mut(doc, &id)[k] {
                args.retain(|(n, _)| n != &a.name);
                args.push((a.name.clone(), v.clone()));
                if alias.is_none() { *alias = Some("kx".into()); }
            }
            Some(Fault { rule: "literal_types", what: format!("{}: {} for type {} at {}", a.name, v, a.ty.render(), describe(doc, &id)), site: Site::Slot(id) })
        }
        "dup-arg-bad-second" => {
            let (sl, k) = pick_field(rng, doc, &slots, |sl, sel| typed(sl) && match sel { Sel::Field { name, args, .. } => !args.is_empty() && field_def(s, sl.parent.as_ref().unwrap(), name).is_some(), _ => false })?;
            let id = sl.id.clone();
            let (fname, have): (String, Vec<String>) = match &sels_at(doc, &id)[k] { Sel::Field { name, args, .. } => (name.clone(), args.iter().map(|a| a.0.clone()).collect()), _ => unreachable!() };
            let fd = field_def(s, sl.parent.as_ref().unwrap(), &fname)?.clone();
            let mut order: Vec<&Arg> = fd.args.iter().filter(|a| have.contains(&a.name)).collect();
            rng.shuffle(&mut order);
            for a in order {
                if let Some(b) = bad_lit(rng, s, &a.ty, 0) {
                    if let Sel::Field { args, .. } = &mut sels_at_mut(doc, &id)[k] { args.push((a.name.clone(), b.clone())); }
                    return Some(Fault { rule: "literal_types", what: format!("argument {} given a second time with {} at {}", a.name, b, describe(doc, &id)), site: Site::Slot(id) });
                }
            }
            None
        }
        "subscription-same-key-twice" => {
            // valid: the same root field twice (directly, in an inline fragment, or through a fragment) is one response key
            let root = s.subscription.clone()?;
            let i = doc.ops.iter().position(|o| o.kind == "subscription")?;
            let first = doc.ops[i].sel.iter().find(|x| matches!(x, Sel::Field { .. }))?.clone();
            let extra = match rng.below(3) {
                0 => first,
                1 => Sel::Inline { cond: None, dirs: vec![], sub: vec![first] },
                _ => {
                    let n = format!("FS{}", doc.frags.len());
                    doc.frags.push(Frag { name: n.clone(), cond: root, dirs: vec![], sel: vec![first] });
                    Sel::Spread { name: n, dirs: vec![] }
                }
            };
            doc.ops[i].sel.push(extra);
            // not a fault: the reference validator finds no rule violated and nothing may be reported
            Some(Fault { rule: "none (valid)", what: "the subscription's root field selected a second time".into(), site: Site::Doc })
        }
        "var-relax-at-default" => {
            // valid: `$v: T!` used directly for a non-null argument that has a default value may be declared `$v: T`
            let mut found: Option<String> = None;
            for sl in &slots {
                if !typed(sl) { continue; }
                for sel in sels_at(doc, &sl.id) {
                    if let Sel::Field { name, args, .. } = sel {
                        if let Some(fd) = field_def(s, sl.parent.as_ref().unwrap(), name) {
                            for (an, av) in args {
                                if let Some(a) = fd.args.iter().find(|a| &a.name == an) {
                                    if a.ty.is_nonnull() && a.default.is_some() && av.starts_with('$') { found = Some(av[1..].to_string()); }
                                }
                            }
                        }
                    }
                }
            }
            let v = found?;
            // the variable must not be used anywhere else (its other positions might need the non-null type)
            let text = doc.render();
            if text.matches(&format!("${}", v)).filter(|_| true).count() != 2 { return None; }
            for o in doc.ops.iter_mut() { for vd in o.vars.iter_mut() { if vd.name == v && vd.ty.ends_with('!') && vd.default.is_none() { vd.ty.pop(); return Some(Fault { rule: "none (valid)", what: format!("${} declared nullable for a defaulted non-null argument", v), site: Site::Doc }); } } }
            None
        }
        "dup-var" => {
            let i = (0..doc.ops.len()).filter(|i| !doc.ops[*i].vars.is_empty()).collect::<Vec<_>>();
            if i.is_empty() { return None; }
            let i = *rng.pick(&i);
            let v = rng.pick(&doc.ops[i].vars).clone();
            doc.ops[i].vars.push(v);
            Some(Fault { rule: "unique_vars", what: format!("variable duplicated in operation {}", i), site: Site::Doc })
        }
        "var-output-type" | "var-unknown-type" => {
            let i = rng.below(doc.ops.len());
            let t = if kind == "var-unknown-type" { "Nope".to_string() } else { rng.pick(&s.composites()).clone() };
            let t = match rng.below(3) { 0 => t, 1 => format!("{}!", t), _ => format!("[{}!]", t) };
            doc.ops[i].vars.push(VarDef { name: "extra".into(), ty: t, default: None, dirs: vec![] });
            doc.ops[i].shorthand = false;
            Some(Fault { rule: "vars_input_types", what: format!("variable of a non-input type in operation {}", i), site: Site::Doc })
        }
        "undefined-var" => {
            let (sl, k) = pick_field(rng, doc, &slots, |sl, sel| typed(sl) && match sel { Sel::Field { name, .. } => field_def(s, sl.parent.as_ref().unwrap(), name).map_or(false, |f| !f.args.is_empty()), _ => false })?;
            let id = sl.id.clone();
            let fname = match &sels_at(doc, &id)[k] { Sel::Field { name, .. } => name.clone(), _ => unreachable!() };
            let fd = field_def(s, sl.parent.as_ref().unwrap(), &fname)?.clone();
            let a = rng.pick(&fd.args).clone();
            // at top level, inside a list, or inside an input object literal
            let v = match (&a.ty.nullable(), rng.below(3)) {
                (Ty::List(_), 1) => "[$undef]".to_string(),
                (Ty::Named(n), 2) => match s.get(n).map(|t| &t.kind) {
                    Some(Kind::Input { fields }) => {
                        let mut parts: Vec<String> = fields.iter().filter(|f| f.ty.is_nonnull() && f.default.is_none()).map(|f| format!("{}: $undef", f.name)).collect();
                        if parts.is_empty() { parts.push(format!("{}: $undef", fields[0].name)); }
                        format!("{{{}}}", parts.join(", "))
                    }
                    _ => "$undef".into(),
                },
                _ => "$undef".into(),
            };
            if let Sel::Field { args, alias, .. } = &mut sels_at_mut(doc, &id)[k] {
                args.retain(|(n, _)| n != &a.name);
                args.push((a.name.clone(), v.clone()));
                if alias.is_none() { *alias = Some("kx".into()); }
            }
            Some(Fault { rule: "vars_defined", what: format!("{}: {} at {}", a.name, v, describe(doc, &id)), site: Site::Slot(id) })
        }
        "undefined-var-in-directive" => {
            let (sl, k) = pick_field(rng, doc, &slots, |sl, sel| typed(sl) && matches!(sel, Sel::Field { dirs, .. } if !dirs.iter().any(|d| d.starts_with("@skip"))))?;
            let id = sl.id.clone();
            if let Sel::Field { dirs, .. } = &mut sels_at_mut(doc, &id)[k] { dirs.push("@skip(if: $undef)".into()); }
            Some(Fault { rule: "vars_defined", what: format!("@skip(if: $undef) at {}", describe(doc, &id)), site: Site::Slot(id) })
        }
        "var-incompatible" | "var-drop-nonnull" => {
            let c: Vec<(usize, usize)> = doc.ops.iter().enumerate().flat_map(|(i, o)| (0..o.vars.len()).map(move |j| (i, j))).collect();
            let c: Vec<(usize, usize)> = c.into_iter().filter(|(i, j)| kind == "var-incompatible" || doc.ops[*i].vars[*j].ty.ends_with('!')).collect();
            if c.is_empty() { return None; }
            let (i, j) = *rng.pick(&c);
            let v = &mut doc.ops[i].vars[j];
            if kind == "var-incompatible" { v.ty = format!("[{}]", v.ty); v.default = None; } else { v.ty.pop(); }
            Some(Fault { rule: "var_usage_compatible", what: format!("variable ${} redeclared as {} in operation {}", v.name, v.ty, i), site: Site::Doc })
        }
        "dup-fragment" => {
            if doc.frags.is_empty() { return None; }
            let f = rng.pick(&doc.frags).clone();
            doc.frags.insert(rng.below(doc.frags.len() + 1), f);
            Some(Fault { rule: "unique_fragments", what: "fragment definition duplicated".into(), site: Site::Doc })
        }
        "fragment-unknown-target" | "fragment-leaf-target" => {
            if doc.frags.is_empty() { return None; }
            let i = rng.below(doc.frags.len());
            doc.frags[i].cond = if kind == "fragment-unknown-target" { "Nope".into() } else { rng.pick(&["Int", "In0", "E0"]).to_string() };
            Some(Fault { rule: "fragment_targets", what: format!("fragment {} on {}", doc.frags[i].name, doc.frags[i].cond), site: Site::Doc })
        }
        "inline-unknown-target" | "inline-leaf-target" => {
            let sl = pick_slot(rng, &slots, |sl| typed(sl))?;
            let id = sl.id.clone();
            let c = if kind == "inline-unknown-target" { "Nope".to_string() } else { rng.pick(&["Int", "In0", "E0"]).to_string() };
            let sels = sels_at_mut(doc, &id);
            let at = rng.below(sels.len() + 1);
            sels.insert(at, Sel::Inline { cond: Some(c.clone()), dirs: vec![], sub: vec![Sel::Field { alias: None, name: "__typename".into(), args: vec![], dirs: vec![], sub: None }] });
            Some(Fault { rule: "fragment_targets", what: format!("... on {} at {}", c, describe(doc, &id)), site: Site::Slot(id) })
        }
        "undefined-spread" => {
            let sl = pick_slot(rng, &slots, |sl| typed(sl))?;
            let id = sl.id.clone();
            let sels = sels_at_mut(doc, &id);
            let at = rng.below(sels.len() + 1);
            sels.insert(at, Sel::Spread { name: "Missing".into(), dirs: vec![] });
            Some(Fault { rule: "spreads_defined", what: format!("...Missing at {}", describe(doc, &id)), site: Site::Slot(id) })
        }
        "fragment-cycle" => {
            if doc.frags.is_empty() { return None; }
            let i = rng.below(doc.frags.len());
            // F spreads itself, directly or through a second fragment on the same type, at a random depth
            let inner: Vec<&Slot> = slots.iter().filter(|sl| sl.id.root == Root::Frag(i) && sl.parent.as_deref() == Some(doc.frags[i].cond.as_str())).collect();
            let sl = (*rng.pick(&inner)).clone();
            let fname = doc.frags[i].name.clone();
            let cond = doc.frags[i].cond.clone();
            let target = if rng.chance(1, 2) { fname.clone() } else {
                let n = format!("FC{}", doc.frags.len());
                doc.frags.push(Frag { name: n.clone(), cond, dirs: vec![], sel: vec![Sel::Field { alias: None, name: "__typename".into(), args: vec![], dirs: vec![], sub: None }, Sel::Spread { name: fname.clone(), dirs: vec![] }] });
                n
            };
            sels_at_mut(doc, &sl.id).push(Sel::Spread { name: target, dirs: vec![] });
            Some(Fault { rule: "no_cycles", what: format!("fragment {} reaches itself", fname), site: Site::Slot(sl.id.clone()) })
        }
        "impossible-spread" => {
            let cands: Vec<(&Slot, String)> = slots.iter().filter(|sl| typed(sl)).flat_map(|sl| {
                let app = s.applicable(sl.parent.as_ref().unwrap());
                s.composites().into_iter().filter(move |c| !app.contains(c)).map(move |c| (sl, c))
            }).collect();
            if cands.is_empty() { return None; }
            let (sl, c) = rng.pick(&cands).clone();
            let id = sl.id.clone();
            let body = vec![Sel::Field { alias: None, name: "__typename".into(), args: vec![], dirs: vec![], sub: None }];
            let new = if rng.chance(1, 2) { Sel::Inline { cond: Some(c.clone()), dirs: vec![], sub: body } } else {
                let n = format!("FI{}", doc.frags.len());
                doc.frags.push(Frag { name: n.clone(), cond: c.clone(), dirs: vec![], sel: body });
                Sel::Spread { name: n, dirs: vec![] }
            };
            sels_at_mut(doc, &id).push(new);
            Some(Fault { rule: "spread_possible", what: format!("fragment on {} inside {} at {}", c, sl.parent.as_ref().unwrap(), describe(doc, &id)), site: Site::Slot(id) })
        }
        "unknown-directive" | "directive-wrong-location" | "directive-repeated" | "directive-bad-arg" | "directive-missing-arg" | "directive-unknown-arg" => {
            let has_custom = s.directives.iter().any(|d| d.name == "tag");
            // location kinds: 0 field, 1 spread, 2 inline, 3 operation, 4 fragment definition, 5 variable definition
            let loc = rng.below(6);
            let (rule, text): (&'static str, Vec<String>) = match kind {
                "unknown-directive" => ("directives_defined", vec!["@nope".into()]),
                "directive-wrong-location" => ("directives_location", vec![match loc {
                    0 | 1 | 2 => "@deprecated".to_string(),
                    _ => "@skip(if: true)".to_string(),
                }]),
                "directive-repeated" => ("directives_unique", match loc {
                    0 | 1 | 2 => vec!["@include(if: true)".into(), "@include(if: false)".into()],
                    3 if has_custom => vec!["@once".into(), "@once(n: 2)".into()],
                    _ => return None,
                }),
                "directive-bad-arg" => ("literal_types", vec![match loc { 0 | 1 | 2 => (*rng.pick(&["@skip(if: 1)", "@include(if: \"true\")", "@skip(if: null)", "@skip(if: [true, 1])"])).to_string(), _ if has_custom => "@tag(name: 3)".to_string(), _ => return None }]),
                "directive-missing-arg" => ("required_args", vec![match loc { 0 | 1 | 2 => "@skip".to_string(), _ if has_custom => "@tag".to_string(), _ => return None }]),
                _ => ("args_defined", vec![match loc { 0 | 1 | 2 => "@skip(if: true, zz: 1)".to_string(), _ if has_custom => "@tag(name: \"t\", zz: 1)".to_string(), _ => return None }]),
            };
            let clear = |dirs: &mut Vec<String>| { if kind == "directive-repeated" || text[0].starts_with("@skip") || text[0].starts_with("@include") { dirs.retain(|d| !d.starts_with(&text[0][..5])); } };
            match loc {
                0 => {
                    let (sl, k) = pick_field(rng, doc, &slots, |sl, _| typed(sl))?;
                    let id = sl.id.clone();
                    if let Sel::Field { dirs, .. } = &mut sels_at_mut(doc, &id)[k] { clear(dirs); dirs.extend(text.clone()); }
                    Some(Fault { rule, what: format!("{} on a field at {}", text.join(" "), describe(doc, &id)), site: Site::Slot(id) })
                }
                1 | 2 => {
                    let mut c = vec![];
                    for sl in &slots { if !typed(sl) { continue; } for (k, sel) in sels_at(doc, &sl.id).iter().enumerate() { if (loc == 1 && matches!(sel, Sel::Spread { .. })) || (loc == 2 && matches!(sel, Sel::Inline { .. })) { c.push((sl.id.clone(), k)); } } }
                    if c.is_empty() { return None; }
                    let (id, k) = rng.pick(&c).clone();
                    match &mut sels_at_mut(doc, &id)[k] { Sel::Spread { dirs, .. } | Sel::Inline { dirs, .. } => { clear(dirs); dirs.extend(text.clone()); } _ => {} }
                    Some(Fault { rule, what: format!("{} on a {} at {}", text.join(" "), if loc == 1 { "spread" } else { "inline fragment" }, describe(doc, &id)), site: Site::Slot(id) })
                }
                3 => {
                    let i = rng.below(doc.ops.len());
                    if kind == "directive-repeated" && doc.ops[i].kind != "query" { return None; }
                    doc.ops[i].dirs.retain(|d| !d.starts_with("@once"));
                    doc.ops[i].dirs.extend(text.clone());
                    doc.ops[i].shorthand = false;
                    Some(Fault { rule, what: format!("{} on operation {}", text.join(" "), i), site: Site::Doc })
                }
                4 => {
                    if doc.frags.is_empty() { return None; }
                    let i = rng.below(doc.frags.len());
                    doc.frags[i].dirs.extend(text.clone());
                    Some(Fault { rule, what: format!("{} on fragment definition {}", text.join(" "), doc.frags[i].name), site: Site::FragDirs(i) })
                }
                _ => {
                    let c: Vec<usize> = (0..doc.ops.len()).filter(|i| !doc.ops[*i].vars.is_empty()).collect();
                    if c.is_empty() { return None; }
                    let i = *rng.pick(&c);
                    let j = rng.below(doc.ops[i].vars.len());
                    doc.ops[i].vars[j].dirs.extend(text.clone());
                    Some(Fault { rule, what: format!("{} on a variable definition of operation {}", text.join(" "), i), site: Site::Doc })
                }
            }
        }
        // ---- the known defects, injected on purpose (same-interface-inline-bad-field: fixed by 762f951, now an ordinary fault that must be flagged)
        "unspread-fragment-bad-field" => {
            let c = rng.pick(&s.composites()).clone();
            let n = format!("FU{}", doc.frags.len());
            let bad = match rng.below(3) {
                0 => Sel::Field { alias: None, name: "nope".into(), args: vec![], dirs: vec![], sub: None },
                1 => Sel::Field { alias: None, name: "__typename".into(), args: vec![], dirs: vec!["@nope".into()], sub: None },
                _ => Sel::Spread { name: "Missing".into(), dirs: vec![] },
            };
            let rule = match &bad { Sel::Spread { .. } => "spreads_defined", Sel::Field { name, .. } if name == "nope" => "fields_exist", _ => "directives_defined" };
            doc.frags.push(Frag { name: n.clone(), cond: c, dirs: vec![], sel: vec![bad] });
            let i = doc.frags.len() - 1;
            Some(Fault { rule, what: format!("fragment {} is never spread and violates a rule", n), site: Site::Slot(SlotId { root: Root::Frag(i), path: vec![] }) })
        }
        "same-interface-inline-bad-field" => {
            let sl = pick_slot(rng, &slots, |sl| sl.parent.as_ref().map_or(false, |p| is_interface(s, p)))?;
            let id = sl.id.clone();
            let p = sl.parent.clone().unwrap();
            let sels = sels_at_mut(doc, &id);
            sels.push(Sel::Inline { cond: Some(p.clone()), dirs: vec![], sub: vec![Sel::Field { alias: None, name: "nope".into(), args: vec![], dirs: vec![], sub: None }] });
            let mut cid = id.clone();
            cid.path.push(sels.len() - 1);
            Some(Fault { rule: "fields_exist", what: format!("... on {} {{ nope }} inside the interface {} at {}", p, p, describe(doc, &id)), site: Site::Slot(cid) })
        }
        "undefined-var-in-custom-scalar" => {
            let custom = |t: &Ty| matches!(s.get(t.named()).map(|x| &x.kind), Some(Kind::Scalar));
            let (sl, k) = pick_field(rng, doc, &slots, |sl, sel| typed(sl) && match sel { Sel::Field { name, .. } => field_def(s, sl.parent.as_ref().unwrap(), name).map_or(false, |f| f.args.iter().any(|a| custom(&a.ty))), _ => false })?;
            let id = sl.id.clone();
            let fname = match &sels_at(doc, &id)[k] { Sel::Field { name, .. } => name.clone(), _ => unreachable!() };
            let fd = field_def(s, sl.parent.as_ref().unwrap(), &fname)?.clone();
            let a = fd.args.iter().find(|a| custom(&a.ty))?.clone();
            let v = if matches!(a.ty.nullable(), Ty::List(_)) { "[{k: $undef}]" } else { (*rng.pick(&["{k: $undef}", "[$undef]", "{k: [1, $undef]}"])).into() }.to_string();
            if let Sel::Field { args, alias, .. } = &mut sels_at_mut(doc, &id)[k] {
                args.retain(|(n, _)| n != &a.name);
                args.push((a.name.clone(), v.clone()));
                if alias.is_none() { *alias = Some("kx".into()); }
            }
            Some(Fault { rule: "vars_defined", what: format!("{}: {} (custom scalar {}) at {}", a.name, v, a.ty.render(), describe(doc, &id)), site: Site::Slot(id) })
        }
        _ => None,
    }
}

/// known-finding classes that explain why the implementation is silent about the fault
fn classes_of(_s: &Schema, _doc: &Doc, _faults: &[Fault], _kinds: &[String]) -> Vec<String> {
    // every former blind spot of check is repaired in /repo (commits 762f951, 7d19234, 49e8e28, c67e45e): no document is
    // given a second, every-position reading any more; every fault has to be answered on the first reading
    vec![]
}

// ------------------------------------------------------------------ cheaper case terms
//
// coqc spends its time elaborating the case terms (numerals and string literals above all), not evaluating
// the model: positions become `(P nL nC)` with the constants of C03/CaseSyntax.v, and every distinct string
// `(s "...")` becomes a constant `tK` defined once in the header of each shard that uses it.
#[derive(Default)]
struct Interner { map: std::collections::HashMap<String, usize>, defs: Vec<String> }
impl Interner {
    fn name(&mut self, lit: &str) -> String {
        if let Some(k) = self.map.get(lit) { return format!("t{}", k); }
        let k = self.defs.len();
        self.defs.push(lit.to_string());
        self.map.insert(lit.to_string(), k);
        format!("t{}", k)
    }
}
fn num(tok: &str) -> String { match tok.parse::<u32>() { Ok(n) if n < 400 => format!("n{}", n), _ => format!("{}%N", tok) } }
fn compress(term: &str, intern: &mut Interner) -> String {
    let b = term.as_bytes();
    let mut out = String::with_capacity(term.len() / 2);
    let mut i = 0;
    while i < b.len() {
        if term[i..].starts_with("(mkPos ") {
            if let Some(end) = term[i..].find(')') {
                let toks: Vec<&str> = term[i + 7..i + end].split(' ').collect();
                if toks.len() == 4 && toks[2] == "0" && toks[3] == "false" {
                    out.push_str(&format!("(P {} {})", num(toks[0]), num(toks[1])));
                    i += end + 1;
                    continue;
                }
                if toks.len() == 4 && toks[0] == "0" && toks[1] == "0" && toks[2] == "0" && toks[3] == "true" {
                    out.push_str("pos0");
                    i += end + 1;
                    continue;
                }
            }
        }
        if term[i..].starts_with("(s \"") {
            // Coq string literal: "" is an escaped quote
            let mut j = i + 4;
            loop {
                if b[j] == b'"' { if j + 1 < b.len() && b[j + 1] == b'"' { j += 2; continue; } break; }
                j += 1;
            }
            if j + 1 < b.len() && b[j + 1] == b')' {
                out.push_str(&intern.name(&term[i..j + 2]));
                i = j + 2;
                continue;
            }
        }
        // copy one char (terms may contain non-ASCII only inside literals handled above, but stay safe)
        let ch = term[i..].chars().next().unwrap();
        out.push(ch);
        i += ch.len_utf8();
    }
    out
}
fn used_names(term: &str) -> BTreeSet<usize> {
    let b = term.as_bytes();
    let mut s = BTreeSet::new();
    let mut i = 0;
    while i < b.len() {
        if b[i] == b't' && (i == 0 || !(b[i - 1].is_ascii_alphanumeric() || b[i - 1] == b'_')) {
            let mut j = i + 1;
            while j < b.len() && b[j].is_ascii_digit() { j += 1; }
            if j > i + 1 && (j == b.len() || !(b[j].is_ascii_alphanumeric() || b[j] == b'_')) { s.insert(term[i + 1..j].parse().unwrap()); }
            i = j;
        } else { i += 1; }
    }
    s
}

// ------------------------------------------------------------------ cases

struct Out {
    schemas: Vec<String>,              // Coq terms of tsdoc
    terms: Vec<(usize, String)>,       // (schema index, case term with the schema name left open)
    descr: Vec<Value>,
    distinct: HashSet<String>,
    by_kind: BTreeMap<String, usize>,
    by_rule: BTreeMap<String, (usize, usize)>,   // injected, answered by the implementation with some diagnostic
    by_mut: BTreeMap<String, (usize, usize)>,
    silent_faults: usize,
    nonempty: usize,
    features: BTreeMap<String, usize>,
    direct: Vec<Value>,
    unparsable: usize,
}

fn run_case(out: &mut Out, si: usize, sdl: &str, ts: &graphql_type_system::Schema<std::borrow::Cow<'_, str>, nitrogql_ast::base::Pos>,
            text: &str, info: Value) -> Option<usize> {
    let r = catch(AssertUnwindSafe(|| {
        let doc = load_operation(text)?;
        let errs = check_operation(ts, &doc);
        Ok::<_, String>((ast_coq::opdoc(&doc), errs))
    }));
    match r {
        Err(p) => {
            out.direct.push(json!({"what": format!("check_operation_document panicked: {}", p), "classes": [], "schema": sdl, "doc": text}));
            None
        }
        Ok(Err(_e)) => { out.unparsable += 1; None } // does not parse: not a case for the checker (the generators only produce parsable text)
        Ok(Ok((doc_term, errs))) => {
            for e in &errs { *out.by_kind.entry(kind_name(&e.message)).or_insert(0) += 1; }
            if !errs.is_empty() { out.nonempty += 1; }
            let mut d = json!({"schema": sdl, "doc": text, "errors": errs.iter().map(|e| { let (m, l, c, _) = error_summary(e); json!([m, l, c]) }).collect::<Vec<_>>()});
            if let (Value::Object(a), Value::Object(b)) = (&mut d, info) { for (k, v) in b { a.insert(k, v); } }
            let known = d.get("classes").and_then(|c| c.as_array()).map_or(false, |a| !a.is_empty());
            // every document is judged on the positions a spread-following validator reaches (c_full = false) ...
            let term = format!("mkCase {{SCHEMA}} {} {} false", doc_term, coq_list(&errs, err_coq));
            out.terms.push((si, term));
            let mut d0 = d.clone();
            d0["classes"] = json!([]);
            d0["reading"] = json!("visible positions");
            out.descr.push(d0);
            // ... and a document built to exhibit a known blind spot a second time on every position (c_full = true)
            if known && !c04_mode() {
                let term = format!("mkCase {{SCHEMA}} {} {} true", doc_term, coq_list(&errs, err_coq));
                out.terms.push((si, term));
                d["reading"] = json!("every position");
                out.descr.push(d);
            }
            // non-trivial: more than a bare list of fields
            if text.contains('(') || text.contains("...") || text.contains('@') || text.contains('$') {
                out.distinct.insert(format!("{}\u{0}{}", sdl, text));
            }
            Some(errs.len())
        }
    }
}

fn c04_mode() -> bool { std::env::args().collect::<Vec<_>>().windows(2).any(|w| w[0] == "--mode" && w[1] == "c04") }

/// hand-written documents: (schema SDL, document, known-finding classes, note)
fn corpus() -> Vec<(&'static str, &'static str, Vec<&'static str>, &'static str)> {
    const S1: &str = "scalar JSON\nenum E { A B }\ninput In { a: Int b: Int r: String! = \"d\" l: [In!] }\ninput Req { must: Int! opt: Int }\ninterface I { id: ID! self: I }\ninterface J implements I { id: ID! self: I j: Int }\ntype A implements I { id: ID! self: I a(x: Int! = 3, f: Float, ids: [ID!], e: E, i: In, q: Req, j: JSON): Int }\ntype B implements I & J { id: ID! self: I j: Int b: String }\ntype C { c: Int }\nunion U = A | C\nunion V = B | C\ntype Query { i: I j: J a: A u: U v: V n(x: Int!): Int }\ntype Subscription { s: Int t: Int }\ndirective @tag(name: String!) repeatable on FIELD | FRAGMENT_DEFINITION | FRAGMENT_SPREAD | INLINE_FRAGMENT | VARIABLE_DEFINITION | QUERY\ndirective @once(n: Int = 1) on FIELD | QUERY\n";
    const S2: &str = "type User { id: ID! name: String }\ninput Filter { ids: [ID!] matrix: [[Int]] }\ntype Query { me: User users(ids: [ID], filter: Filter): [User] }\ndirective @tag(names: [String!]) on FIELD\n";
    const S3: &str = "type User { id: ID! name: String favorite: Fav }\ntype Post { id: ID! title: String }\nunion Fav = User | Post\ntype Event { id: ID! at: Float }\ninput EvFilter { since: Float owner: ID ids: [ID!] }\ntype Query { me: User first: Fav search(text: String): [Fav!] events(since: Float, until: Float! = 0, filter: EvFilter): [Event] event(id: ID!): Event }\ndirective @since(ts: Float) on FIELD\n";
    const S4: &str = "type Query { user: User node: Node }\ninterface Node { id: ID! }\ntype User implements Node { id: ID! name: String! }\n";
    vec![
        // known defects
        (S1, "query Q { a { id } }\nfragment U on A { nonexistent }\n", vec![], "a fragment no operation spreads (not validated before commit c67e45e)"),
        (S1, "query Q { i { ... on I { nonexistent } } }\n", vec![], "inline fragment on the enclosing interface (skipped before commit 762f951)"),
        (S1, "query Q { i { ...F } }\nfragment F on I { nonexistent @nope ...Missing }\n", vec![], "spread of a fragment on the enclosing interface (skipped before commit 762f951)"),
        (S1, "query Q { a { a(j: {k: $nope}) } }\n", vec![], "an undefined variable inside a custom scalar literal (not looked at before commit 49e8e28)"),
        (S1, "query Q { a { a(x: 1, x: \"s\") } }\n", vec![], "the second value given for an argument is ill-typed (only the first was checked before commit 7d19234)"),
        // behaviour fixed by the fix: commits (regressions would show as disagreement / property failure)
        (S1, "query Q { a { a(i: {c: 1}) } }\n", vec![], "unknown input field"),
        (S1, "query Q { a { a(f: 1, ids: 5, i: {l: {a: 1}}) } }\n", vec![], "int for float, single for list"),
        (S1, "query Q($v: Int = 1) { n(x: $v) }\n", vec![], "nullable variable with default in non-null position"),
        (S1, "query Q { i { ...F @nope } }\nfragment F on A @nope { id }\n", vec![], "directives on spreads and fragment definitions"),
        (S1, "query Q($v: Int @nope) { i { ... @nope { id } } }\n", vec![], "directives on variable definitions and inline fragments"),
        // interface / union applicability
        (S1, "query Q { i { ... on J { j } ... on A { a } ... on U { __typename } ... on C { c } } j { ... on I { id } ... on A { id } } u { ... on I { id } ... on V { __typename } ... on B { b } } }\n", vec![], "spread applicability"),
        // multiple errors, order and additional info
        (S1, "query Q($a: Int, $a: C, $b: Nope) @once @once @tag { a(x: 1) { a(x: null, zz: 1, i: {a: \"s\", zz: 2}, q: {opt: 1}, e: Z) id { x } self } nope ...Missing ... on Nope { x } ... on E { x } }\nquery Q { __typename }\nquery { a }\nfragment F on Nope { x }\nfragment F on E { x }\nfragment G on A { ...G ...H }\nfragment H on A { ...G }\n", vec![], "many errors"),
        (S1, "subscription S { s t }\nsubscription T { s ...X ... { s } }\nfragment X on Subscription { t ...X }\nmutation M { x }\n", vec![], "subscription root fields, missing root type, recursion while counting"),
        (S1, "query Q($l: [Int!]!, $i: Int, $e: E = A, $in: In) { a { a(x: $i, ids: $l, e: $e, i: $in, q: {must: $i}) b: a(i: {l: [$in, {a: $i}]}, ids: [$i]) } }\n", vec![], "variable usages"),
        (S1, "query Q($l: [ID!], $f: Float = 1, $b: Boolean!, $in: In!) @once { i { id ... on J { j ...FJ } ... on A @include(if: $b) { a(x: 2, f: $f, ids: $l, e: A, i: {a: 1, l: [{b: 2}, $in]}, j: {any: [1]}) } ...FI } u { __typename ... on A { id } ... on I { id } ... on V { ... on B { b } } } k: n(x: 1) @skip(if: false) @tag(name: \"t\") @tag(name: \"u\") }\nfragment FJ on J @tag(name: \"f\") { self { id } }\nfragment FI on B { b ...FJ }\n", vec![], "a valid document using most features"),
        // spec-valid documents the implementation rejects (C04 known findings)
        (S1, "query Q($v: Int) { a { a(x: $v) } }\n", vec![], "nullable variable at a non-null argument that has a default value (rejected before commit aff743c)"),
        (S1, "subscription S { s s }\n", vec![], "the same root field twice is one response key (rejected before commit a3d3d08)"),
        (S1, "query Q { a: n(x: 2147483647) b: n(x: -2147483648) c: n(x: 2147483648) d: n(x: -2147483649) a2: a { a(f: 2147483648, ids: [99999999999]) } }\n", vec![], "Int literals at and beyond the signed 32-bit range (Float and ID take any integer)"),
        // Field Selection Merging is not implemented by check (and not in C03's rule list): accepted, `generate` then panics (C08)
        (S1, "query Q { x: i { id } x: a { id } }\n", vec![], "two different fields under one response key (not checked: Field Selection Merging)"),
        (S1, "query Q { x: n(x: 1) x: a { id } }\n", vec![], "a leaf and an object under one response key (not checked: Field Selection Merging)"),
        // a fragment shared by two operations is validated in the scope of each of them
        (S1, "query A($n: Int!) { a { ...UP } }\nquery B { a { ...UP } }\nquery C($n: String) { a { ...UP } }\nquery D($n: Int) { a { ...UQ } }\nfragment UP on A { a(q: {must: $n}) }\nfragment UQ on A { ...UP }\n", vec![], "shared fragment using a variable: undeclared in B, wrong type in C, nullable in D (through UQ)"),
        // Operation Name Uniqueness (5.2.1.1) is per document: a query and a subscription may not share a name
        (S1, "query A { a { id } }\nfragment F on A { id }\nsubscription A { s }\n", vec![], "a query and a subscription with one name, a fragment in between"),
        (S1, "subscription A { s }\nquery A { a { id } }\n", vec![], "a subscription and a query with one name"),
        // subscriptions: response keys are counted, not selections (commit a3d3d08)
        (S1, "subscription S { s ...F }\nfragment F on Subscription { s ... { s } }\n", vec![], "one response key through a fragment and an inline fragment"),
        (S1, "subscription S { s t: s }\n", vec![], "two response keys for one field"),
        // unspread fragments are validated on their own, variables excepted (commit c67e45e)
        (S1, "query Q { a { id } }\nfragment U on A { a(x: $nope, zz: 1) ...V }\nfragment V on A { ...U nonexistent }\nfragment W on A { a(i: {a: \"s\"}, j: [$x]) }\n", vec![], "unspread fragments: argument errors, a cycle, an unknown field; variables are not reported"),
        (S1, "query Q($i: Int) { a { ...F } }\nfragment F on A { a(x: $i) ...G }\nfragment G on I { id }\nfragment U on A @tag(name: \"u\") { a(x: $nope, j: [$free]) ...V ... on I { id } }\nfragment V on I { self { ...G } }\nfragment W on Query { n(x: 1) a { ...U } }\n", vec![], "an accepted document with never-spread fragments (U, V, W): every rule holds in them; their variables are nobody's"),
        // list input coercion does not apply to variables (5.8.5 AreTypesCompatible): fewer list levels than the position
        (S2, "query($id: ID) { users(ids: $id) { id } }\n", vec![], "ID variable at [ID]"),
        (S2, "query($id: ID!) { users(ids: $id) { id } }\n", vec![], "ID! variable at [ID]"),
        (S2, "query($id: ID!) { users(filter: { ids: $id }) { id } }\n", vec![], "ID! variable at input field [ID!]"),
        (S2, "query($row: [Int]) { users(filter: { matrix: $row }) { id } }\n", vec![], "[Int] variable at input field [[Int]]"),
        (S2, "query($n: String!) { me { ...F } }\nfragment F on User { name @tag(names: $n) }\n", vec![], "String! variable at directive argument [String!], in a fragment"),
        (S2, "query($n: Int) { users(filter: { matrix: [$n] }) { id } }\n", vec![], "Int variable as an item of a list literal at [[Int]] (item position [Int])"),
        (S2, "query($ids: [ID], $m: [[Int]], $ns: [String!], $r: [Int], $i: ID!) { users(ids: $ids, filter: {matrix: $m, ids: [$i]}) { id name @tag(names: $ns) } b: users(filter: {matrix: [$r]}) { id } }\n", vec![], "list variables at list positions of the same depth: valid"),
        // a union-typed field needs a selection set like any composite field (5.3.3 Leaf Field Selections)
        (S3, "query { first }\n", vec![], "union-typed field without selection set"),
        (S3, "query { search(text: \"a\") }\n", vec![], "list-of-union-typed field without selection set"),
        (S3, "query { me { id favorite } }\n", vec![], "nested union-typed field without selection set"),
        (S3, "query { ...F }\nfragment F on Query { me { ... on User { favorite } } }\n", vec![], "union-typed field without selection set, in a fragment and an inline fragment"),
        (S3, "query { me { id name favorite { __typename } } first { __typename } search(text: \"a\") { ... on Post { title } } }\n", vec![], "union-typed fields with selection sets: valid"),
        // an IntValue of any magnitude is a valid Float / ID literal (only Int is a signed 32-bit integer)
        (S3, "query { events(since: 1700000000000) { id at } }\n", vec![], "millisecond timestamp for a Float argument: valid"),
        (S3, "query { events(since: 2147483648, until: -2147483649) { id } }\n", vec![], "2^31 and -2^31-1 for Float arguments (one non-null with default): valid"),
        (S3, "query { event(id: 76561198000000000) { id } }\n", vec![], "64-bit numeric identifier for an ID argument: valid"),
        (S3, "query { events(filter: { since: 1700000000000, owner: 9007199254740993, ids: 4294967296 }) { id } }\n", vec![], "large integers inside an input object (Float, ID, [ID!] by single-item coercion): valid"),
        (S3, "query { events(filter: { ids: [4294967296, \"x\", 1] }) { id at @since(ts: 1700000000000) } }\n", vec![], "large integers as list items and for a Float directive argument: valid"),
        // a field selected in a fragment has to exist on the fragment's type condition, whatever the enclosing type
        (S4, "query { user { ... on Node { name } } }\n", vec![], "object-only field in an inline fragment on an interface, object scope"),
        (S4, "query { user { ...F } }\nfragment F on Node { id name }\n", vec![], "object-only field in a named fragment on an interface, spread in an object scope"),
        (S4, "query { user { ...G } }\nfragment G on User { ...F }\nfragment F on Node { name }\n", vec![], "the same through a fragment on the object"),
        (S4, "query { user { ... on Node { id ... on User { name } } ...F } node { ...F } }\nfragment F on Node { id }\n", vec![], "interface fragments in an object scope selecting interface fields: valid"),
    ]
}

fn main() {
    silence_panics();
    let args = parse_args();
    let mut rng = Rng::new(args.seed);
    let thorough = args.tier == "thorough";
    let c04 = args.extra.windows(2).any(|w| w[0] == "--mode" && w[1] == "c04");
    if args.extra.iter().any(|a| a == "--emit-witness") {
        // development aid: the corpus as Coq definitions (pasted into coq/C03/Witness.v)
        let mut schemas: Vec<&str> = vec![];
        for (k, (sdl, text, _, note)) in corpus().into_iter().enumerate() {
            let si = match schemas.iter().position(|x| *x == sdl) { Some(i) => i, None => {
                schemas.push(sdl);
                let tsdoc = load_schema(sdl).unwrap();
                println!("Definition w_schema_{} : tsdoc := {}.", schemas.len() - 1, ast_coq::tsdoc(&tsdoc));
                schemas.len() - 1 } };
            let doc = load_operation(text).unwrap();
            println!("(* {}: {} (schema {}) *)\nDefinition w_doc_{} : opdoc := {}.", note, text.replace('\n', " "), si, k, ast_coq::opdoc(&doc));
        }
        return;
    }
    let mut out = Out { schemas: vec![], terms: vec![], descr: vec![], distinct: HashSet::new(), by_kind: BTreeMap::new(), by_rule: BTreeMap::new(),
        by_mut: BTreeMap::new(), silent_faults: 0, nonempty: 0, features: BTreeMap::new(), direct: vec![], unparsable: 0 };

    // 1. corpus
    let mut n_corpus = 0;
    for (sdl, text, classes, note) in corpus() {
        let tsdoc = load_schema(sdl).expect("corpus schema loads");
        let serrs = check_schema(&tsdoc);
        assert!(serrs.is_empty(), "corpus schema is valid: {:?}", serrs.iter().map(error_summary).collect::<Vec<_>>());
        let term = ast_coq::tsdoc(&tsdoc);
        let si = match out.schemas.iter().position(|t| t == &term) { Some(i) => i, None => { out.schemas.push(term); out.schemas.len() - 1 } };
        let ts = to_type_system(&tsdoc);
        let c04_classes: Vec<&str> = classes.iter().filter(|c| c.starts_with("c04:")).map(|c| &c[4..]).collect();
        let c03_classes: Vec<&str> = classes.iter().filter(|c| !c.starts_with("c04:")).cloned().collect();
        if c04 {
            // documents that exhibit a C03 blind spot are not spec-valid: not a C04 case
            if !c03_classes.is_empty() { continue; }
            run_case(&mut out, si, sdl, &ts, text, json!({"stream": "corpus", "note": note, "classes": [], "c04_classes": c04_classes}));
        } else {
            run_case(&mut out, si, sdl, &ts, text, json!({"stream": "corpus", "note": note, "classes": c03_classes}));
        }
        n_corpus += 1;
    }

    // 2. generated
    let n_schemas = match (c04, thorough) { (false, false) => 45, (false, true) => 200, (true, false) => 50, (true, true) => 200 };
    let (n_valid, n_mut) = match (c04, thorough) { (false, false) => (4, 26), (false, true) => (6, 70), (true, false) => (24, 0), (true, true) => (60, 0) };
    let mut schema_rejected = 0;
    let mut relabel = 0usize;
    for _ in 0..n_schemas {
        let s = gen_schema(&mut rng, &SchemaCfg::default());
        let sdl = s.render();
        let tsdoc = match load_schema(&sdl) { Ok(d) => d, Err(_) => { schema_rejected += 1; continue; } };
        if !check_schema(&tsdoc).is_empty() { schema_rejected += 1; continue; }
        out.schemas.push(ast_coq::tsdoc(&tsdoc));
        let si = out.schemas.len() - 1;
        let ts = to_type_system(&tsdoc);
        for k in 0..n_valid {
            let cfg = DocCfg { coercions: k % 2 == 1, shorthand: k % 3 == 0, ..DocCfg::default() };
            let mut d = gen_doc(&mut rng, &s, &cfg);
            for f in &d.features { *out.features.entry(f.to_string()).or_insert(0) += 1; }
            // valid forms that used to be rejected: a subscription's root field selected twice (one response key), a nullable
            // variable at a non-null position that has a default value
            let mut forms: Vec<&str> = vec![];
            if k % 2 == 0 && inject(&mut rng, &s, &mut d, "subscription-same-key-twice").is_some() { forms.push("subscription-same-key-twice"); *out.features.entry("subscription-same-key-twice".into()).or_insert(0) += 1; }
            if inject(&mut rng, &s, &mut d, "var-relax-at-default").is_some() { forms.push("var-relax-at-default"); *out.features.entry("var-relax-at-default".into()).or_insert(0) += 1; }
            // an integer literal beyond the 32-bit range at a Float / ID position (argument, input-object field, list item)
            if k % 4 != 3 && inject(&mut rng, &s, &mut d, "big-int-at-float-id").is_some() { forms.push("big-int-at-float-id"); *out.features.entry("big-int-at-float-id".into()).or_insert(0) += 1; }
            let text = d.render();
            run_case(&mut out, si, &sdl, &ts, &text, json!({"stream": "valid", "features": d.features, "valid_forms": forms, "classes": []}));
        }
        for k in 0..n_mut {
            let cfg = DocCfg { coercions: k % 2 == 1, ..DocCfg::default() };
            let mut d = gen_doc(&mut rng, &s, &cfg);
            let n_faults = if k % 9 == 8 { rng.range(2, 3) } else { 1 };
            let mut faults = vec![];
            let mut kinds = vec![];
            for _ in 0..n_faults {
                for _try in 0..6 {
                    let kind = MUTATIONS[rng.below(MUTATIONS.len())];
                    if let Some(f) = inject(&mut rng, &s, &mut d, kind) { faults.push(f); kinds.push(kind.to_string()); break; }
                }
            }
            if faults.is_empty() { relabel += 1; continue; }
            // positions recorded before a later fault may be stale only for Site::Slot paths of *appended* selections: faults append or edit in place
            let classes = classes_of(&s, &d, &faults, &kinds);
            let text = d.render();
            let info = json!({"stream": "mutated", "faults": faults.iter().zip(&kinds).map(|(f, k)| json!({"mutation": k, "rule": f.rule, "what": f.what})).collect::<Vec<_>>(), "classes": classes});
            let r = run_case(&mut out, si, &sdl, &ts, &text, info);
            if let Some(n) = r {
                for (f, k) in faults.iter().zip(&kinds) {
                    let e = out.by_rule.entry(f.rule.to_string()).or_insert((0, 0)); e.0 += 1; if n > 0 { e.1 += 1; }
                    let e = out.by_mut.entry(k.clone()).or_insert((0, 0)); e.0 += 1; if n > 0 { e.1 += 1; }
                }
                if n == 0 { out.silent_faults += 1; }
            }
        }
    }

    // 3. write shards: each shard defines the schemas its cases use
    let shard_size = 100usize;
    fs::create_dir_all(&args.out).unwrap();
    let imports = if c04 { "From V Require Import Base.Util Gql.Ast C03.Model C03.Spec C03.CaseSyntax C03.Corr C04.Corr." } else { "From V Require Import Base.Util Gql.Ast C03.Model C03.Spec C03.CaseSyntax C03.Corr." };
    let holds = if c04 { "holds4" } else { "holds" };
    let mut intern = Interner::default();
    let schemas: Vec<String> = out.schemas.iter().map(|t| compress(t, &mut intern)).collect();
    let terms: Vec<(usize, String)> = out.terms.iter().map(|(si, t)| (*si, compress(t, &mut intern))).collect();
    let mut k = 0;
    for chunk in terms.chunks(shard_size) {
        let mut v = String::new();
        let _ = writeln!(v, "{}", imports);
        let used: BTreeSet<usize> = chunk.iter().map(|(si, _)| *si).collect();
        let mut names: BTreeSet<usize> = BTreeSet::new();
        for si in &used { names.extend(used_names(&schemas[*si])); }
        for (_, t) in chunk { names.extend(used_names(t)); }
        for n in &names { let _ = writeln!(v, "Definition t{} : str := {}.", n, intern.defs[*n]); }
        for si in &used { let _ = writeln!(v, "Definition sch_{} : tsdoc := {}.", si, schemas[*si]); }
        let _ = writeln!(v, "Definition cases : list case := [");
        for (i, (si, t)) in chunk.iter().enumerate() {
            let _ = writeln!(v, "  {}{}", t.replace("{SCHEMA}", &format!("sch_{}", si)), if i + 1 < chunk.len() { ";" } else { "" });
        }
        let _ = writeln!(v, "].");
        let _ = writeln!(v, "Definition corr_fail := Eval vm_compute in (failing agree cases).");
        let _ = writeln!(v, "Definition prop_fail := Eval vm_compute in (failing {} cases).", holds);
        let _ = writeln!(v, "Print corr_fail.\nPrint prop_fail.");
        fs::write(args.out.join(format!("cases_{}.v", k)), v).unwrap();
        k += 1;
    }
    fs::write(args.out.join("shards.json"), serde_json::to_string(&json!({"shards": k, "shard_size": shard_size, "n": out.terms.len()})).unwrap()).unwrap();
    fs::write(args.out.join("cases.json"), serde_json::to_string(&out.descr).unwrap()).unwrap();

    let n = out.descr.len();
    let samples: Vec<Value> = [0usize, n_corpus.min(n.saturating_sub(1)), n / 2, n.saturating_sub(1)].iter().filter(|i| **i < n).map(|i| {
        let d = &out.descr[*i];
        json!({"doc": d["doc"], "errors": d["errors"], "stream": d["stream"], "faults": d.get("faults")})
    }).collect();
    write_meta(&args.out, &json!({
        "evaluations": n,
        "distinct_nontrivial": out.distinct.len(),
        "rule": "distinct (schema text, document text) pairs whose document contains at least one argument list, fragment (spread or inline), directive or variable (i.e. is more than a bare list of fields); every case runs the real parser, the real check_operation_document and the Coq model on a generated schema (5-12 types, interfaces implementing interfaces, unions, input objects, custom directives) and a document with 1-3 operations",
        "samples": samples,
        "distribution": {
            "mode": if c04 { "c04 (valid documents only)" } else { "c03 (valid + fault-injected documents)" },
            "schemas": out.schemas.len(), "schemas_rejected_by_check": schema_rejected,
            "corpus_cases": n_corpus,
            "documents_with_diagnostics": out.nonempty,
            "diagnostics_by_kind": out.by_kind,
            "faults_by_rule(injected, document flagged)": out.by_rule.iter().map(|(k, v)| (k.clone(), json!([v.0, v.1]))).collect::<BTreeMap<_, _>>(),
            "faults_by_mutation(injected, document flagged)": out.by_mut.iter().map(|(k, v)| (k.clone(), json!([v.0, v.1]))).collect::<BTreeMap<_, _>>(),
            "mutated_documents_without_any_diagnostic": out.silent_faults,
            "mutation_attempts_not_applicable": relabel,
            "documents_dropped_because_they_do_not_parse": out.unparsable,
            "coercion_features_used": out.features,
        },
        "direct_failures": out.direct,
    }));
}
