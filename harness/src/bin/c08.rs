//! C08 — no input text can make the toolchain panic; failures are diagnostics.
//!
//! Every public entry point of the pipeline is run on four input streams (valid generated documents,
//! token-level and semantic mutations of them, random token sequences, arbitrary Unicode with escapes and
//! deep nesting), each case on its own thread with a wall-clock bound, each stage under `catch_unwind`
//! with a panic hook that records the panic *location* (file:line of the `panic!`/`expect`/`unwrap`):
//!   operation text: parse_operation_document → resolve_operation_extensions → resolve_operation_imports →
//!                   check_operation_document → print_positioned_error on every diagnostic →
//!                   (check passed) print_types_for_operation_document, print_js_for_operation_document,
//!                   print_graphql;  loader route (no check): … → resolve_operation_imports → print_js
//!   schema text:    parse_type_system_document → built-ins → resolve_schema_extensions →
//!                   check_type_system_document → diagnostics → (check passed) ast_to_type_system,
//!                   SchemaTypePrinter, ResolverTypePrinter, print_graphql
//!   config text:    parse_config (+ the option constructors)
//!   the real CLI binary on ~20 projects (exit status must be 0 or 1).
//! Cases handed to Coq (coq/C08/Corr.v): CRender (print_positioned_error, full output string against the
//! model), CParse (outcome class of the two parsers against C07's parser model), CWs (char::is_whitespace
//! table).  Every observed panic / time-out / abnormal CLI exit is a `direct_failure` whose class names the
//! panic site (file + message) and, where the site is reachable only through a known defect, the input
//! feature that reaches it.
use graphql_builtins::generate_builtins;
use nitrogql_ast::base::Pos;
use nitrogql_ast::operation::ExecutableDefinition;
use nitrogql_ast::selection_set::{Selection, SelectionSet};
use nitrogql_ast::set_current_file_of_pos;
use nitrogql_ast::type_system::TypeSystemOrExtensionDocument;
use nitrogql_ast::OperationDocument;
use nitrogql_checker::{check_operation_document, check_type_system_document, CheckError, OperationCheckContext};
use nitrogql_config_file::{parse_config, Config};
use nitrogql_error::{print_positioned_error, PositionedError};
use nitrogql_parser::{parse_operation_document, parse_type_system_document};
use nitrogql_printer::{
    print_js_for_operation_document, print_types_for_operation_document, GraphQLPrinter, OperationJSPrinterOptions,
    OperationTypePrinterOptions, ResolverTypePrinter, ResolverTypePrinterOptions, SchemaTypePrinter,
    SchemaTypePrinterOptions,
};
use nitrogql_semantics::{
    ast_to_type_system, resolve_operation_extensions, resolve_operation_imports, resolve_schema_extensions,
    ImportTargets, OperationExtension, OperationResolver,
};
use serde_json::{json, Value as J};
use sourcemap_writer::{JsStringWriter, SourceWriter};
use std::cell::RefCell;
use std::collections::{BTreeMap, BTreeSet, HashSet};
use std::panic::{catch_unwind, AssertUnwindSafe};
use std::path::{Path, PathBuf};
use std::sync::mpsc;
use std::time::{Duration, Instant};
use verif_harness::gen as g;
use verif_harness::*;

#[path = "/repo/crates/cli/src/builtins.rs"]
#[allow(dead_code)]
mod cli_builtins;
use cli_builtins::{nitrogql_builtins, remove_builtins};

// ------------------------------------------------------------------------------------------------
// panic capture: location + message, per thread

#[derive(Clone, Debug)]
struct PanicAt { file: String, line: u32, msg: String }
thread_local! { static LAST: RefCell<Option<PanicAt>> = const { RefCell::new(None) }; }

/// path below the repository (`crates/...`), or the last three components for foreign code
fn norm_file(f: &str) -> String {
    if let Some(i) = f.find("crates/") { return f[i..].to_string(); }
    let parts: Vec<&str> = f.split('/').collect();
    parts[parts.len().saturating_sub(3)..].join("/")
}
fn install_hook() {
    std::panic::set_hook(Box::new(|info| {
        let (file, line) = info.location().map(|l| (norm_file(l.file()), l.line())).unwrap_or(("?".into(), 0));
        let p = info.payload();
        let msg = if let Some(s) = p.downcast_ref::<&str>() { s.to_string() }
                  else if let Some(s) = p.downcast_ref::<String>() { s.clone() } else { "panic".to_string() };
        LAST.with(|c| *c.borrow_mut() = Some(PanicAt { file, line, msg }));
    }));
}
fn guarded<T>(f: impl FnOnce() -> T) -> Result<T, PanicAt> {
    LAST.with(|c| *c.borrow_mut() = None);
    match catch_unwind(AssertUnwindSafe(f)) {
        Ok(v) => Ok(v),
        Err(_) => Err(LAST.with(|c| c.borrow_mut().take()).unwrap_or(PanicAt { file: "?".into(), line: 0, msg: "?".into() })),
    }
}
/// message reduced to its fixed part (no rule names / values), so a class names a site, not an input
fn msg_key(m: &str) -> String {
    let m = m.lines().next().unwrap_or("");
    if m.contains("ParseIntError") { return "from_str_radix(..).unwrap() on Err".into(); }
    if m.starts_with("Expected ") || m.starts_with("Unexpected ") { return m.split_whitespace().take(2).collect::<Vec<_>>().join(" "); }
    // std's messages quote the offending text and numbers: keep the fixed words only
    let cut = m.split(|c| c == ';' || c == '`' || c == '\'' || c == '"').next().unwrap_or("");
    let cut: String = cut.chars().filter(|c| !c.is_ascii_digit() && (' '..='~').contains(c)).take(70).collect();
    cut.split_whitespace().collect::<Vec<_>>().join(" ")
}
/// printable one-line rendering of a message for the report lines
fn plain(m: &str) -> String { m.lines().next().unwrap_or("").chars().map(|c| if (' '..='~').contains(&c) { c } else { '?' }).take(160).collect() }

// ------------------------------------------------------------------------------------------------
// stage results

#[derive(Clone, Debug)]
struct Stage { name: &'static str, res: &'static str, panic: Option<PanicAt>, tags: Vec<&'static str> }
#[derive(Clone, Debug)]
struct RPos { line: usize, col: usize, file: usize, builtin: bool }
#[derive(Clone, Debug)]
struct RenderObs { files: Vec<(String, String)>, pos: Option<RPos>, msg: String, addl: Vec<(RPos, String)>, out: Result<String, PanicAt> }
#[derive(Clone, Debug, Default)]
struct CaseOut { stages: Vec<Stage>, renders: Vec<RenderObs>, n_diag: usize, checked_ok: bool, cost: Option<(usize, usize)> }

impl CaseOut {
    fn ok(&mut self, name: &'static str) { if std::env::var_os("C08_CHILD").is_some() { eprintln!("stage {name}"); } self.stages.push(Stage { name, res: "ok", panic: None, tags: vec![] }); }
    fn err(&mut self, name: &'static str) { self.stages.push(Stage { name, res: "err", panic: None, tags: vec![] }); }
    fn panic(&mut self, name: &'static str, p: PanicAt, tags: Vec<&'static str>) { self.stages.push(Stage { name, res: "panic", panic: Some(p), tags }); }
}
fn rpos(p: &Pos) -> RPos { RPos { line: p.line, col: p.column, file: p.file, builtin: p.builtin } }

type Files = Vec<(PathBuf, String, ())>;
fn files_obs(files: &Files) -> Vec<(String, String)> { files.iter().map(|(p, s, _)| (p.display().to_string(), s.clone())).collect() }

/// print_positioned_error under guard; the observation carries everything the Coq model needs
fn render(out: &mut CaseOut, files: &Files, pe: PositionedError, addl: Vec<(RPos, String)>, keep: bool) {
    let pos = pe.position().map(|p| rpos(&p));
    let r = guarded(|| print_positioned_error(&pe, files));
    let msg = format!("{}", pe.into_inner());
    out.n_diag += 1;
    match &r {
        Ok(_) => { if out.stages.last().map(|s| s.name != "render" || s.res != "ok").unwrap_or(true) { out.ok("render"); } }
        Err(p) => out.panic("render", p.clone(), vec![]),
    }
    if keep || r.is_err() { out.renders.push(RenderObs { files: files_obs(files), pos, msg, addl, out: r }); }
}
fn check_error_parts(e: &CheckError) -> Vec<(RPos, String)> { e.additional_info.iter().map(|(p, m)| (rpos(p), m.to_string())).collect() }

// Debug-format field extraction (error types of private modules cannot be named)
fn dbg_field_str(dbg: &str, field: &str) -> Option<String> {
    let pat = format!("{field}: \"");
    let i = dbg.find(&pat)? + pat.len();
    let mut o = String::new();
    let mut it = dbg[i..].chars();
    while let Some(c) = it.next() {
        match c { '\\' => { if let Some(n) = it.next() { o.push(n); } } '"' => return Some(o), c => o.push(c) }
    }
    None
}
fn dbg_field_pos(dbg: &str, field: &str) -> Option<RPos> {
    let pat = format!("{field}: Pos {{");
    let i = dbg.find(&pat)? + pat.len();
    let rest = &dbg[i..];
    let body = &rest[..rest.find('}')?];
    let num = |k: &str| -> Option<usize> {
        let p = format!("{k}: ");
        let j = body.find(&p)? + p.len();
        body[j..].chars().take_while(|c| c.is_ascii_digit()).collect::<String>().parse().ok()
    };
    Some(RPos { line: num("line")?, col: num("column")?, file: num("file")?, builtin: body.contains("builtin: true") })
}

// ------------------------------------------------------------------------------------------------
// document features used to name the *reason* a known panic site is reached

fn spreads_in<'a>(ss: &SelectionSet<'a>, acc: &mut Vec<&'a str>) {
    for s in &ss.selections {
        match s {
            Selection::Field(f) => { if let Some(sub) = &f.selection_set { spreads_in(sub, acc); } }
            Selection::FragmentSpread(sp) => acc.push(sp.fragment_name.name),
            Selection::InlineFragment(i) => spreads_in(&i.selection_set, acc),
        }
    }
}
/// does the fragment-spread graph of the document contain a cycle?
fn has_fragment_cycle(doc: &OperationDocument) -> bool {
    let mut frags: BTreeMap<&str, Vec<&str>> = BTreeMap::new();
    for d in &doc.definitions {
        if let ExecutableDefinition::FragmentDefinition(f) = d { let mut v = vec![]; spreads_in(&f.selection_set, &mut v); frags.entry(f.name.name).or_default().extend(v); }
    }
    // colour DFS
    fn visit<'a>(n: &'a str, g: &BTreeMap<&'a str, Vec<&'a str>>, state: &mut BTreeMap<&'a str, u8>) -> bool {
        match state.get(n) { Some(1) => return true, Some(2) => return false, _ => {} }
        state.insert(n, 1);
        if let Some(vs) = g.get(n) { for v in vs { if g.contains_key(v) && visit(v, g, state) { return true; } } }
        state.insert(n, 2);
        false
    }
    let mut state = BTreeMap::new();
    let keys: Vec<&str> = frags.keys().copied().collect();
    keys.into_iter().any(|k| visit(k, &frags, &mut state))
}
/// (has a fragment definition no operation reaches, some spread names an undefined fragment)
fn doc_features(doc: &OperationDocument) -> (bool, bool) {
    let mut frags: BTreeMap<&str, Vec<&str>> = BTreeMap::new();
    let mut roots: Vec<&str> = vec![];
    let mut undefined = false;
    for d in &doc.definitions {
        match d {
            ExecutableDefinition::OperationDefinition(o) => spreads_in(&o.selection_set, &mut roots),
            ExecutableDefinition::FragmentDefinition(f) => { let mut v = vec![]; spreads_in(&f.selection_set, &mut v); frags.entry(f.name.name).or_default().extend(v); }
        }
    }
    let mut seen: BTreeSet<&str> = BTreeSet::new();
    let mut todo = roots.clone();
    while let Some(n) = todo.pop() {
        if !seen.insert(n) { continue; }
        match frags.get(n) { Some(v) => todo.extend(v.iter().copied()), None => undefined = true }
    }
    for v in frags.values() { for n in v { if !frags.contains_key(n) { undefined = true; } } }
    let unspread = frags.keys().any(|k| !seen.contains(k));
    (unspread, undefined)
}
/// two field selections of one merged scope share a response key but differ in field name or in having a
/// sub-selection ("Field Selection Merging", which check does not implement); type conditions are ignored
fn conflicting_response_keys(doc: &OperationDocument) -> bool {
    let mut frags: BTreeMap<&str, &SelectionSet> = BTreeMap::new();
    for d in &doc.definitions { if let ExecutableDefinition::FragmentDefinition(f) = d { frags.entry(f.name.name).or_insert(&f.selection_set); } }
    fn gather<'a, 'b>(ss: &'b SelectionSet<'a>, frags: &BTreeMap<&'a str, &'b SelectionSet<'a>>, seen: &mut Vec<&'a str>, out: &mut Vec<(&'a str, &'a str, Option<&'b SelectionSet<'a>>)>) {
        for s in &ss.selections {
            match s {
                Selection::Field(f) => out.push((f.alias.map(|a| a.name).unwrap_or(f.name.name), f.name.name, f.selection_set.as_ref())),
                Selection::InlineFragment(i) => gather(&i.selection_set, frags, seen, out),
                Selection::FragmentSpread(sp) => { let n = sp.fragment_name.name; if !seen.contains(&n) { seen.push(n); if let Some(fs) = frags.get(n) { gather(fs, frags, seen, out); } } }
            }
        }
    }
    fn scope<'a, 'b>(sets: &[&'b SelectionSet<'a>], frags: &BTreeMap<&'a str, &'b SelectionSet<'a>>, depth: usize) -> bool {
        if depth > 12 { return false; }
        let mut fields = vec![];
        for ss in sets { let mut seen = vec![]; gather(ss, frags, &mut seen, &mut fields); }
        let mut by_key: BTreeMap<&str, Vec<(&str, Option<&SelectionSet>)>> = BTreeMap::new();
        for (k, n, sub) in fields { by_key.entry(k).or_default().push((n, sub)); }
        for v in by_key.values() {
            if v.iter().any(|(n, sub)| *n != v[0].0 || sub.is_some() != v[0].1.is_some()) { return true; }
            let subs: Vec<&SelectionSet> = v.iter().filter_map(|(_, s)| *s).collect();
            if !subs.is_empty() && scope(&subs, frags, depth + 1) { return true; }
        }
        false
    }
    doc.definitions.iter().any(|d| match d {
        ExecutableDefinition::OperationDefinition(o) => scope(&[&o.selection_set], &frags, 0),
        ExecutableDefinition::FragmentDefinition(f) => scope(&[&f.selection_set], &frags, 0),
    })
}
fn dup_import_targets(ext: &OperationExtension) -> bool {
    ext.imports.iter().any(|i| match &i.targets {
        ImportTargets::Specific(t) => { let mut s = HashSet::new(); t.iter().any(|x| !s.insert(x.name)) }
        ImportTargets::Wildcard => false,
    })
}

// ------------------------------------------------------------------------------------------------
// the pipelines

/// in-memory resolver that counts how often a file is asked for (= file resolutions of the import resolver) and
/// stops answering once the count is far beyond the linear bound, so a super-linear resolver ends quickly
struct Ops<'a, 'src> { files: BTreeMap<&'a Path, (&'a OperationDocument<'src>, &'a OperationExtension<'src>)>, calls: std::cell::Cell<usize>, budget: usize }
impl<'src> OperationResolver<'src> for Ops<'_, 'src> {
    fn resolve(&self, path: &Path) -> Option<(&OperationDocument<'src>, &OperationExtension<'src>)> {
        self.calls.set(self.calls.get() + 1);
        if self.calls.get() > self.budget { return None; }
        self.files.get(path).copied()
    }
}

fn scalar_config(sdl: &str) -> String {
    // every `scalar X` of the text gets a TypeScript type, so that the printers go all the way
    let mut names: BTreeSet<String> = BTreeSet::new();
    let toks = lex(sdl);
    for w in toks.windows(2) { if w[0] == "scalar" && w[1].chars().all(|c| c.is_ascii_alphanumeric() || c == '_') { names.insert(w[1].clone()); } }
    let mut y = String::from("schema: ./s.graphql\nextensions:\n  nitrogql:\n    generate:\n      type:\n        scalarTypes:\n          Int: number\n");
    for n in names { y.push_str(&format!("          {n}: string\n")); }
    y
}

/// schema pipeline; `texts` are the schema files (file indices 0..)
fn run_schema_case(texts: &[String], keep_renders: bool) -> CaseOut {
    let mut out = CaseOut::default();
    let files: Files = texts.iter().enumerate().map(|(i, t)| (PathBuf::from(format!("/p/schema/s{i}.graphql")), t.clone(), ())).collect();
    let config = parse_config(&scalar_config(&texts.join("\n"))).unwrap_or_default();
    let mut docs = vec![];
    for (i, t) in texts.iter().enumerate() {
        set_current_file_of_pos(i);
        match guarded(|| parse_type_system_document(t)) {
            Err(p) => { out.panic("parse_schema", p, if t.contains("\\u") { vec!["unicode-escape"] } else { vec![] }); return out; }
            Ok(Err(e)) => { out.err("parse_schema"); render(&mut out, &files, e.into(), vec![], keep_renders); return out; }
            Ok(Ok(d)) => docs.push(d),
        }
    }
    out.ok("parse_schema");
    let mut merged = TypeSystemOrExtensionDocument::merge(docs);
    merged.extend(generate_builtins());
    merged.extend(nitrogql_builtins());
    let resolved = match guarded(|| resolve_schema_extensions(merged)) {
        Err(p) => { out.panic("resolve_schema_extensions", p, vec![]); return out; }
        Ok(Err(e)) => {
            out.err("resolve_schema_extensions");
            let dbg = format!("{:?}", e.message);
            let addl = if dbg.contains("DuplicateOriginal") {
                match (dbg_field_pos(&dbg, "second"), dbg_field_str(&dbg, "name")) { (Some(p), Some(n)) => vec![(p, format!("Another declaration of '{n}'"))], _ => vec![] }
            } else { vec![] };
            // the name may contain characters Debug escapes; keep the observation only when it is plain
            let plain = addl.iter().all(|(_, m)| m.chars().all(|c| c.is_ascii_alphanumeric() || " '_".contains(c)));
            render(&mut out, &files, e.into(), addl, keep_renders && plain);
            return out;
        }
        Ok(Ok(d)) => d,
    };
    out.ok("resolve_schema_extensions");
    let errors = match guarded(|| check_type_system_document(&resolved)) {
        Err(p) => { out.panic("check_schema", p, vec![]); return out; }
        Ok(e) => e,
    };
    if !errors.is_empty() {
        out.err("check_schema");
        for (k, e) in errors.into_iter().enumerate() { let addl = check_error_parts(&e); render(&mut out, &files, e.into(), addl, keep_renders && k < 2); }
        return out;
    }
    out.ok("check_schema");
    out.checked_ok = true;
    match guarded(|| { let s = ast_to_type_system(&resolved); s.iter_types().count() }) { Err(p) => out.panic("ast_to_type_system", p, vec![]), Ok(_) => out.ok("ast_to_type_system") }
    match guarded(|| { let mut w = SourceWriter::new(); SchemaTypePrinter::new(SchemaTypePrinterOptions::from_config(&config), &mut w).print_document(&resolved).is_ok() }) {
        Err(p) => out.panic("schema_type_printer", p, vec![]),
        Ok(true) => out.ok("schema_type_printer"), Ok(false) => out.err("schema_type_printer"),
    }
    match guarded(|| { let mut w = SourceWriter::new(); let ps: Vec<nitrogql_plugin::Plugin> = vec![]; ResolverTypePrinter::new(ResolverTypePrinterOptions::from_config(&config), &mut w).print_document(&resolved, &ps).is_ok() }) {
        Err(p) => out.panic("resolver_type_printer", p, vec![]),
        Ok(true) => out.ok("resolver_type_printer"), Ok(false) => out.err("resolver_type_printer"),
    }
    match guarded(|| { let mut b = String::new(); let mut w = JsStringWriter::new(&mut b); remove_builtins(&resolved).print_graphql(&mut w); drop(w); b.len() }) {
        Err(p) => out.panic("print_graphql_schema", p, vec![]), Ok(_) => out.ok("print_graphql_schema"),
    }
    out
}

/// operation pipeline as the CLI runs it (`check` then `generate`) plus the loader route; `ops[0]` is the
/// document under test, the others are companion files it may import from
fn run_op_case(sdl: &str, ops: &[String], keep_renders: bool, allow_cyclic: bool) -> CaseOut {
    let mut out = CaseOut::default();
    let mut files: Files = vec![(PathBuf::from("/p/schema/s0.graphql"), sdl.to_string(), ())];
    for (i, t) in ops.iter().enumerate() { files.push((PathBuf::from(format!("/p/ops/q{i}.graphql")), t.clone(), ())); }
    // schema (not under test here: a failure just ends the case)
    set_current_file_of_pos(0);
    let Ok(Ok(mut sdoc)) = guarded(|| parse_type_system_document(sdl)) else { out.err("schema_unusable"); return out; };
    sdoc.extend(generate_builtins());
    sdoc.extend(nitrogql_builtins());
    let Ok(Ok(resolved)) = guarded(|| resolve_schema_extensions(sdoc)) else { out.err("schema_unusable"); return out; };
    let Ok(serrs) = guarded(|| check_type_system_document(&resolved)) else { out.err("schema_unusable"); return out; };
    if !serrs.is_empty() { out.err("schema_unusable"); return out; }
    let schema = ast_to_type_system(&resolved);
    let config = parse_config(&scalar_config(sdl)).unwrap_or_default();
    // parse every operation file
    let mut parsed = vec![];
    for (i, t) in ops.iter().enumerate() {
        set_current_file_of_pos(1 + i);
        match guarded(|| parse_operation_document(t)) {
            Err(p) => { let tags = if t.contains("\\u") { vec!["unicode-escape"] } else { vec![] }; out.panic("parse_operation", p, tags); return out; }
            Ok(Err(e)) => { out.err("parse_operation"); render(&mut out, &files, e.into(), vec![], keep_renders); return out; }
            Ok(Ok(d)) => parsed.push(d),
        }
    }
    out.ok("parse_operation");
    let mut exts = vec![];
    for (i, d) in parsed.into_iter().enumerate() {
        match guarded(|| resolve_operation_extensions(d)) {
            Err(p) => { out.panic("resolve_operation_extensions", p, vec![]); return out; }
            Ok(Err(e)) => { out.err("resolve_operation_extensions"); render(&mut out, &files, e.into(), vec![], keep_renders); return out; }
            Ok(Ok((doc, ext))) => exts.push((PathBuf::from(format!("/p/ops/q{i}.graphql")), doc, ext)),
        }
    }
    out.ok("resolve_operation_extensions");
    let nfiles = exts.len();
    let resolver = Ops { files: exts.iter().map(|(p, d, e)| (p.as_path(), (d, e))).collect(), calls: std::cell::Cell::new(0), budget: 16 * nfiles + 256 };
    let mut full = vec![];
    for (p, d, e) in exts.iter() {
        resolver.calls.set(0);
        let r = guarded(|| resolve_operation_imports((p, d, e), &resolver));
        // C08_imports_linear: every file is entered at most once, so the resolver is asked at most once per file
        // (+ 1 for the lookup that ends a run with FileNotFound)
        if resolver.calls.get() > nfiles + 1 {
            out.stages.push(Stage { name: "resolve_operation_imports", res: "cost-exceeded", panic: None, tags: vec![] });
            out.cost = Some((resolver.calls.get(), nfiles));
            return out;
        }
        match r {
            Err(pa) => { let tags = if dup_import_targets(e) { vec!["duplicate-import-target"] } else { vec![] }; out.panic("resolve_operation_imports", pa, tags); return out; }
            Ok(Err(e)) => {
                out.err("resolve_operation_imports");
                let addl = if format!("{:?}", e.message).starts_with("FileNotFound") {
                    vec![(RPos { line: 0, col: 0, file: 0, builtin: true }, "Hint: imported file must be included in the 'documents' option of the config file.".to_string())]
                } else { vec![] };
                render(&mut out, &files, e.into(), addl, keep_renders);
                return out;
            }
            Ok(Ok(doc)) => full.push(doc),
        }
    }
    out.ok("resolve_operation_imports");
    // loader route: emit_js = resolve_operation_imports + (since /repo 539df4b) find_undefined_fragment_spread -> Err,
    // then print_js; no check.  loader.rs is a bin crate (exercised as such by C19's loader-shim); here its
    // precondition is re-stated: a document that spreads an undefined fragment is an error result, every other
    // document goes to print_js_for_operation_document unchecked.
    {
        let (_, undefined) = doc_features(&full[0]);
        if undefined { out.err("loader_emit_js"); }
        else {
            match guarded(|| { let mut w = SourceWriter::new(); print_js_for_operation_document(OperationJSPrinterOptions::from_config(&Config::default()), &full[0], &mut w); w.into_buffers().buffer.len() }) {
                Err(p) => out.panic("loader_emit_js", p, vec![]),
                Ok(_) => out.ok("loader_emit_js"),
            }
        }
    }
    // check
    if std::env::var_os("C08_CHILD").is_some() { eprintln!("stage check_operation (started)"); }
    let ctx = OperationCheckContext::new(&schema);
    let mut n_err = 0;
    for doc in full.iter() {
        match guarded(|| check_operation_document(doc, &ctx)) {
            Err(p) => { out.panic("check_operation", p, vec![]); return out; }
            Ok(errs) => { for e in errs { n_err += 1; let addl = check_error_parts(&e); render(&mut out, &files, e.into(), addl, keep_renders && n_err <= 2); } }
        }
    }
    if n_err > 0 { out.err("check_operation"); return out; }
    out.ok("check_operation");
    out.checked_ok = true;
    if std::env::var_os("C08_CHILD").is_some() { eprintln!("stage generate (started)"); }
    // generate
    for doc in full.iter().take(1) {
        let (unspread, _) = doc_features(doc);
        let mut tags = if unspread { vec!["unspread-fragment"] } else { vec![] };
        if conflicting_response_keys(doc) { tags.push("conflicting-response-key"); }
        if has_fragment_cycle(doc) && !allow_cyclic {
            // check accepted a fragment cycle (only possible among fragments nothing spreads): the type printer
            // recurses through it without a visited set -> stack overflow, which no catch_unwind survives.
            // The case is re-run in a child process (see Run::case).
            out.stages.push(Stage { name: "print_types_for_operation_document", res: "deferred-to-child", panic: None, tags: vec!["unspread-fragment-cycle"] });
            return out;
        }
        match guarded(|| { let mut w = SourceWriter::new(); print_types_for_operation_document(OperationTypePrinterOptions::from_config(&config), &schema, doc, &mut w); w.into_buffers().buffer.len() }) {
            Err(p) => out.panic("print_types_for_operation_document", p, tags.clone()), Ok(_) => out.ok("print_types_for_operation_document"),
        }
        match guarded(|| { let mut w = SourceWriter::new(); print_js_for_operation_document(OperationJSPrinterOptions::from_config(&config), doc, &mut w); w.into_buffers().buffer.len() }) {
            Err(p) => out.panic("print_js_for_operation_document", p, tags.clone()), Ok(_) => out.ok("print_js_for_operation_document"),
        }
        match guarded(|| { let mut b = String::new(); let mut w = JsStringWriter::new(&mut b); doc.print_graphql(&mut w); drop(w); b.len() }) {
            Err(p) => out.panic("print_graphql_operation", p, tags.clone()), Ok(_) => out.ok("print_graphql_operation"),
        }
    }
    out
}

fn run_config_case(text: &str) -> CaseOut {
    let mut out = CaseOut::default();
    match guarded(|| parse_config(text)) {
        Err(p) => out.panic("parse_config", p, vec![]),
        Ok(None) => out.err("parse_config"),
        Ok(Some(c)) => {
            out.ok("parse_config");
            match guarded(|| { let _ = SchemaTypePrinterOptions::from_config(&c); let _ = OperationTypePrinterOptions::from_config(&c); let _ = OperationJSPrinterOptions::from_config(&c); let _ = ResolverTypePrinterOptions::from_config(&c); }) {
                Err(p) => out.panic("options_from_config", p, vec![]), Ok(()) => out.ok("options_from_config"),
            }
        }
    }
    out
}

// ------------------------------------------------------------------------------------------------
// running one case on its own thread with a wall-clock bound

enum Job { Schema(Vec<String>), Op(String, Vec<String>), Config(String), Render(Files, Option<RPos>, String, Vec<(RPos, String)>), Parse(bool, String) }

fn run_job(job: &Job, keep: bool) -> CaseOut {
    match job {
        Job::Schema(t) => run_schema_case(t, keep),
        Job::Op(s, o) => run_op_case(s, o, keep, false),
        Job::Config(t) => run_config_case(t),
        Job::Render(files, pos, msg, addl) => {
            let mut out = CaseOut::default();
            let p = pos.as_ref().map(|p| Pos { line: p.line, column: p.col, file: p.file, builtin: p.builtin });
            let ad: Vec<(Pos, String)> = addl.iter().map(|(p, m)| (Pos { line: p.line, column: p.col, file: p.file, builtin: p.builtin }, m.clone())).collect();
            let pe = PositionedError::new(PositionedError::from(Msg(msg.clone())).into_inner(), p, ad);
            render(&mut out, files, pe, addl.clone(), true);
            out
        }
        Job::Parse(ts, t) => {
            let mut out = CaseOut::default();
            set_current_file_of_pos(0);
            let r = if *ts { guarded(|| parse_type_system_document(t).is_ok()) } else { guarded(|| parse_operation_document(t).is_ok()) };
            let name = if *ts { "parse_schema" } else { "parse_operation" };
            match r { Err(p) => out.panic(name, p, if t.contains("\\u") { vec!["unicode-escape"] } else { vec![] }), Ok(true) => out.ok(name), Ok(false) => out.err(name) }
            out
        }
    }
}
#[derive(Debug)]
struct Msg(String);
impl std::fmt::Display for Msg { fn fmt(&self, f: &mut std::fmt::Formatter<'_>) -> std::fmt::Result { f.write_str(&self.0) } }
impl std::error::Error for Msg {}

/// (result, milliseconds); None = the case did not finish within `limit` (its thread is abandoned)
fn exec(job: Job, keep: bool, limit: Duration) -> (Option<CaseOut>, u128) {
    let (tx, rx) = mpsc::channel();
    let t0 = Instant::now();
    let h = std::thread::Builder::new().stack_size(8 << 20).spawn(move || { let r = run_job(&job, keep); let _ = tx.send(r); });
    if h.is_err() { return (None, 0); }
    match rx.recv_timeout(limit) { Ok(r) => (Some(r), t0.elapsed().as_millis()), Err(_) => (None, t0.elapsed().as_millis()) }
}

// ------------------------------------------------------------------------------------------------
// lexer + token-level mutation

fn lex(text: &str) -> Vec<String> {
    let cs: Vec<char> = text.chars().collect();
    let mut out = vec![];
    let mut i = 0;
    while i < cs.len() {
        let c = cs[i];
        if c.is_whitespace() || c == ',' || c == '\u{feff}' { i += 1; continue; }
        let st = i;
        if c == '#' { while i < cs.len() && cs[i] != '\n' && cs[i] != '\r' { i += 1; } }
        else if c == '"' && i + 2 < cs.len() && cs[i + 1] == '"' && cs[i + 2] == '"' {
            i += 3;
            while i < cs.len() && !(cs[i] == '"' && i + 2 < cs.len() && cs[i + 1] == '"' && cs[i + 2] == '"') { i += 1; }
            i = (i + 3).min(cs.len());
        } else if c == '"' {
            i += 1;
            while i < cs.len() && cs[i] != '"' && cs[i] != '\n' { if cs[i] == '\\' { i += 1; } i += 1; }
            i = (i + 1).min(cs.len());
        } else if c.is_ascii_alphabetic() || c == '_' { while i < cs.len() && (cs[i].is_ascii_alphanumeric() || cs[i] == '_') { i += 1; } }
        else if c.is_ascii_digit() || (c == '-' && i + 1 < cs.len() && cs[i + 1].is_ascii_digit()) {
            i += 1;
            while i < cs.len() && (cs[i].is_ascii_alphanumeric() || cs[i] == '.' || ((cs[i] == '+' || cs[i] == '-') && (cs[i - 1] == 'e' || cs[i - 1] == 'E'))) { i += 1; }
        } else if c == '.' && i + 2 < cs.len() && cs[i + 1] == '.' && cs[i + 2] == '.' { i += 3; }
        else { i += 1; }
        out.push(cs[st..i.min(cs.len())].iter().collect());
    }
    out
}
fn join(toks: &[String], rng: &mut Rng) -> String {
    let mut s = String::new();
    for t in toks {
        s.push_str(t);
        if t.starts_with('#') || rng.chance(1, 8) { s.push('\n'); if rng.chance(1, 2) { s.push_str("  "); } } else { s.push(' '); }
    }
    s
}
const OP_VOCAB: &[&str] = &["query", "mutation", "subscription", "fragment", "on", "{", "}", "(", ")", "[", "]", ":", "=", "!", "$", "@", "...", "|", "&",
    "a", "i", "id", "x", "Foo", "Query", "Int", "String", "true", "false", "null", "1", "-0", "01", "1.5", "1e3", "1.", "\"s\"", "\"\"", "\"\"\"b\"\"\"", "\"\"\"", "\"",
    "$v", "@skip(if: $v)", "@include(if: true)", "if", "#import", "from", "*", "\"./q1.graphql\"", "#", "# c", "\"\\u0041\"", "\"\\uD800\"", "\"\\u{1F600}\"", "\"\\u{110000}\"",
    "\"\\q\"", "__typename", "F0", "Missing", "{}", "[]", "on Query", "..."];
const TS_VOCAB: &[&str] = &["type", "interface", "union", "enum", "input", "scalar", "schema", "extend", "directive", "implements", "repeatable", "on", "@", "{", "}", "(", ")", ":", "=", "|", "&", "!", "[", "]",
    "Query", "A", "B", "Int", "String", "ID", "a", "b", "FIELD", "OBJECT", "QUERY", "FIELD_DEFINITION", "\"desc\"", "\"\"\"d\"\"\"", "\"\"", "1", "true", "null", "query", "mutation", "@deprecated", "@d(x: 1)", "\"\\uD800\"", "#", "# c", "\"", "\"\"\""];

fn mutate(rng: &mut Rng, toks: &mut Vec<String>, vocab: &[&str]) {
    let names: Vec<String> = toks.iter().filter(|t| t.chars().next().map(|c| c.is_ascii_alphabetic() || c == '_').unwrap_or(false)).cloned().collect();
    for _ in 0..rng.range(1, 3) {
        if toks.is_empty() { toks.push(rng.pick(vocab).to_string()); continue; }
        let i = rng.below(toks.len());
        match rng.below(7) {
            0 => { toks.remove(i); }
            1 => { let t = toks[i].clone(); toks.insert(i, t); }
            2 => { if i + 1 < toks.len() { toks.swap(i, i + 1); } }
            3 => { toks[i] = rng.pick(vocab).to_string(); }
            4 => { toks.insert(i, rng.pick(vocab).to_string()); }
            5 => { if !names.is_empty() { let n = rng.pick(&names).clone(); if toks[i].chars().next().map(|c| c.is_ascii_alphabetic()).unwrap_or(false) { toks[i] = n; } else { toks.insert(i, n); } } }
            _ => { let j = rng.below(toks.len()); let (a, b) = (i.min(j), i.max(j)); toks.drain(a..b.min(a + 6)); }
        }
    }
}

// ------------------------------------------------------------------------------------------------
// Unicode material

const WS: &[char] = &[' ', ' ', '\t', '\n', '\r', '\u{b}', '\u{c}', '\u{85}', '\u{a0}', '\u{1680}', '\u{2000}', '\u{2003}', '\u{200a}', '\u{2028}', '\u{2029}', '\u{202f}', '\u{205f}', '\u{3000}', '\u{3000}', '\u{feff}', '\u{200b}'];
const INDENT_WS: &[char] = &[' ', ' ', ' ', '\t', '\u{85}', '\u{a0}', '\u{1680}', '\u{2003}', '\u{2028}', '\u{202f}', '\u{3000}', '\u{3000}', '\u{feff}', '\u{b}', '\u{c}'];
const ODD: &[char] = &['\0', '\u{1}', '\u{7f}', 'é', 'ß', '日', '本', '😀', '𝒳', '\u{301}', '\u{202e}', '\u{fffd}', '\u{ffff}', '\u{10ffff}', '\u{d7ff}', '\u{e000}', '"', '\\', '#', '{', '}', '$', '@', '(', ')', ':', '!', '.', ',', '|'];
fn uni_char(rng: &mut Rng) -> char {
    match rng.below(10) {
        0 | 1 => *rng.pick(WS),
        2 | 3 | 4 => *rng.pick(ODD),
        5 => char::from_u32(rng.below(0x110000) as u32).unwrap_or('\u{fffd}'),
        _ => (b' ' + rng.below(95) as u8) as char,
    }
}
fn uni_string(rng: &mut Rng, max: usize) -> String { (0..rng.range(0, max)).map(|_| uni_char(rng)).collect() }
fn insert_unicode(rng: &mut Rng, text: &str) -> String {
    let mut cs: Vec<char> = text.chars().collect();
    for _ in 0..rng.range(1, 3) {
        let i = rng.below(cs.len() + 1);
        let ins: Vec<char> = (0..rng.range(1, 3)).map(|_| uni_char(rng)).collect();
        for (k, c) in ins.into_iter().enumerate() { cs.insert(i + k, c); }
    }
    cs.into_iter().collect()
}
/// every line's indentation replaced by a run of (possibly multi-byte, possibly non-GraphQL) white space
fn reindent_unicode(rng: &mut Rng, text: &str) -> String {
    let common: String = (0..rng.range(0, 3)).map(|_| *rng.pick(INDENT_WS)).collect();
    let term = *rng.pick(&["\n", "\n", "\r\n", "\r"]);
    text.lines().map(|l| {
        let own: String = (0..rng.range(0, 2)).map(|_| *rng.pick(INDENT_WS)).collect();
        format!("{common}{own}{}", l.trim_start())
    }).collect::<Vec<_>>().join(term) + if rng.chance(1, 2) { term } else { "" }
}
fn escape_literal(rng: &mut Rng) -> String {
    let hex = |rng: &mut Rng, n: usize| -> String { (0..n).map(|_| *rng.pick(&['0', '1', '7', '8', '9', 'a', 'A', 'd', 'D', 'f', 'F', 'c', 'E'])).collect() };
    match rng.below(12) {
        0 => format!("\\u{}", rng.pick(&["D800", "DBFF", "DC00", "DFFF", "d800", "D7FF", "E000", "FFFF", "0000", "0041"])),
        1 => format!("\\u{}", hex(rng, 4)),
        2 => format!("\\u{{{}}}", rng.pick(&["110000", "10FFFF", "D800", "DFFF", "FFFFFFFF", "100000000", "0", "00000000041", "FFFFFFFFFFFFFFFF", "1F600", "7fffffff", "80000000"])),
        3 => { let n = rng.range(1, 10); format!("\\u{{{}}}", hex(rng, n)) }
        4 => "\\uD83D\\uDE00".to_string(),
        5 => { let n = rng.range(0, 3); format!("\\u{}", hex(rng, n)) }          // too short: not a token of the grammar
        6 => format!("\\{}", rng.pick(&["n", "t", "\"", "\\", "/", "b", "f", "r", "q", "x41", "u", "u{}", "u{", "U0041"])),
        7 => format!("\\u{{{}}}", uni_string(rng, 4)),
        8 => format!("\\u{{{}", hex(rng, 3)),
        _ => format!("\\u{}{}", hex(rng, 4), uni_string(rng, 3)),
    }
}
const FIXED_SCHEMA: &str = "type Query { a: Query  l: [Query!]!  i: Int  s(x: String, y: [[[[String]]]], o: In, e: E): String  n: Node  u: U }\ninterface Node { id: ID! }\ntype A implements Node { id: ID!  a: A }\ntype B implements Node { id: ID!  b: Int }\nunion U = A | B\nenum E { RED GREEN }\ninput In { o: In  x: Int  l: [In]  s: String }\n";

fn nest(open: &str, close: &str, core: &str, d: usize) -> String { format!("{}{}{}", open.repeat(d), core, close.repeat(d)) }
fn deep_ops(d: usize) -> Vec<(String, &'static str)> {
    vec![
        (format!("query D {}", nest("{ a ", "}", "{ i }", d)), "selection"),
        (format!("query D {{ s(y: {}) }}", nest("[", "]", "\"x\"", d)), "list-value"),
        (format!("query D {{ s(o: {}) }}", nest("{o: ", "}", "{x: 1}", d)), "object-value"),
        (format!("query D {}", nest("{ ... ", "}", "{ i }", d)), "inline-fragment"),
        (format!("query D {}", nest("{ ... on Query ", "}", "{ i }", d)), "typed-inline-fragment"),
        (format!("query D($v: In = {}) {{ s(o: $v) }}", nest("{l: [", "]}", "{x: 1}", d / 2)), "default-value"),
        (format!("query D {} fragment F on Query {}", "{ ...F }", nest("{ a ", "}", "{ i ...F }", d)), "fragment-cycle-deep"),
        (format!("{{ {} }}", (0..d).map(|k| format!("a{k}: a {{ i }}")).collect::<Vec<_>>().join(" ")), "wide-aliases"),
    ]
}
fn deep_schemas(d: usize) -> Vec<(String, &'static str)> {
    vec![
        (format!("type Query {{ f(x: [Int] = {}): Int }}", nest("[", "]", "1", d)), "default-list"),
        (format!("type Query {{ f: {} }}", nest("[", "]!", "Int!", d)), "non-null-list-type"),
        (format!("input In {{ o: In x: Int }} type Query {{ f(x: In = {}): Int }}", nest("{o: ", "}", "{x: 1}", d)), "default-object"),
        (format!("type Query {{ f: Int }} {}", (0..d).map(|k| format!("interface I{k} {} {{ f: Int }}", if k > 0 { format!("implements {}", (0..k).map(|j| format!("I{j}")).collect::<Vec<_>>().join(" & ")) } else { String::new() })).collect::<Vec<_>>().join("\n")), "interface-chain"),
        (format!("type Query {{ f: Int }} directive @d(x: [In]) on FIELD_DEFINITION input In {{ o: In }} type T {{ f: Int @d(x: {}) }}", nest("[{o: ", "}]", "null", d / 2)), "directive-arg"),
    ]
}

/// layered import DAG without cycles: file q0 is the root operation, layer k (0-based) has `width` files
/// q{1 + k*width + j}, each importing from every file of layer k+1; fragments do not spread each other, so
/// only import resolution sees the sharing.  The number of import *paths* is width^depth.
fn import_dag(depth: usize, width: usize, wildcard: bool) -> Vec<String> {
    let idx = |k: usize, j: usize| 1 + k * width + j;
    let imports = |k: usize| -> String {
        (0..width).map(|j| if wildcard { format!("#import * from \"./q{}.graphql\"\n", idx(k, j)) } else { format!("#import F{}_{} from \"./q{}.graphql\"\n", k, j, idx(k, j)) }).collect()
    };
    let mut files = vec![format!("{}query Q {{ i ...F0_0 }}\n", imports(0))];
    for k in 0..depth {
        for j in 0..width {
            let imp = if k + 1 < depth { imports(k + 1) } else { String::new() };
            files.push(format!("{imp}fragment F{k}_{j} on Query {{ i }}\n"));
        }
    }
    files
}

// ------------------------------------------------------------------------------------------------
// Coq terms

/// `(q "...")`: printable ASCII, every other byte (and `\\`, `"`) as backslash + two hex digits (Model.q decodes UTF-8)
fn cq_str(s: &str) -> String {
    let mut o = String::with_capacity(s.len() + 8);
    o.push_str("(q \"");
    for b in s.bytes() {
        if (0x20..=0x7e).contains(&b) && b != b'\\' && b != b'"' { o.push(b as char); } else { o.push_str(&format!("\\{:02x}", b)); }
    }
    o.push_str("\")");
    o
}
fn cq_rpos(p: &RPos) -> String { format!("(mkRP {} {} {} {})", coq_n(p.line as u64), coq_n(p.col as u64), coq_n(p.file as u64), coq_bool(p.builtin)) }
fn cq_render(r: &RenderObs) -> String {
    format!("CRender {} {} {} {} {}",
        coq_list(&r.files, |(p, s)| format!("({}, {})", cq_str(p), cq_str(s))),
        coq_opt(&r.pos, cq_rpos), cq_str(&r.msg),
        coq_list(&r.addl, |(p, m)| format!("({}, {})", cq_rpos(p), cq_str(m))),
        match &r.out { Ok(s) => format!("(Some {})", cq_str(s)), Err(_) => "None".into() })
}
fn c07_panic_class(msg: &str) -> u64 {
    if msg.contains("Invalid character code") { 1 }
    else if msg.contains("ParseIntError") || msg.contains("Result::unwrap()") { 2 }
    else if msg.contains("Empty document") || msg.contains("Unexpected Rule") { 4 }
    else { 3 }
}

// ------------------------------------------------------------------------------------------------

struct Run {
    cases: Cases,
    direct: Vec<J>,
    per_class: BTreeMap<String, usize>,
    dist: BTreeMap<String, BTreeMap<String, usize>>,   // stream -> "stage:res" -> count
    distinct: HashSet<String>,
    nontrivial: usize,
    evaluations: usize,
    max_ms: u128,
    slow: Vec<J>,
    samples: Vec<J>,
    render_budget: usize,
    parse_budget: usize,
    n_render_cases: usize,
    n_parse_cases: usize,
    limit: Duration,
    scratch: PathBuf,
    dag_ms: Vec<J>,
}
impl Run {
    fn note(&mut self, stream: &str, key: String) { *self.dist.entry(stream.to_string()).or_default().entry(key).or_default() += 1; }
    fn fail(&mut self, class: String, what: String, detail: J) { self.fail_k(class, what, detail, 2) }
    fn fail_k(&mut self, class: String, what: String, mut detail: J, keep: usize) {
        let n = self.per_class.entry(class.clone()).or_default();
        *n += 1;
        if *n <= keep {
            detail["what"] = json!(what);
            detail["classes"] = json!([class]);
            self.direct.push(detail);
        }
    }
    /// runs one case, records stage outcomes / failures, turns kept render observations into Coq cases
    fn case(&mut self, stream: &'static str, kind: &'static str, job: Job, input: J) -> Option<CaseOut> {
        let key = input.to_string();
        let fresh = self.distinct.insert(key.clone());
        if fresh && lex(&key).len() >= 3 { self.nontrivial += 1; }
        self.evaluations += 1;
        let keep = self.n_render_cases < self.render_budget;
        let op_payload = if let Job::Op(s, o) = &job { Some((s.clone(), o.clone())) } else { None };
        let (res, ms) = exec(job, keep, self.limit);
        if ms > self.max_ms { self.max_ms = ms; }
        if ms > 2000 { self.slow.push(json!({"stream": stream, "kind": kind, "ms": ms as u64, "input": input})); }
        let Some(out) = res else {
            self.note(stream, "timeout".into());
            self.fail(format!("timeout:{kind}"), format!("{kind}: no result within {} s (non-termination or excessive time)", self.limit.as_secs()), json!({"stream": stream, "kind": kind, "input": input}));
            return None;
        };
        if out.stages.iter().any(|s| s.res == "deferred-to-child") {
            if let Some((sdl, ops)) = &op_payload { self.child_case(stream, kind, sdl, ops, &input); }
        }
        if let Some((calls, nfiles)) = out.cost {
            self.fail("cost:resolve_operation_imports:file-resolutions-exceed-files".into(),
                      format!("resolve_operation_imports asks the resolver for a file {}{} times for {} files (every file must be entered at most once: C08_imports_linear); the work is not linear in the import graph", if calls > 16 * nfiles + 256 { "more than " } else { "" }, calls.min(16 * nfiles + 256), nfiles),
                      json!({"stream": stream, "kind": kind, "stage": "resolve_operation_imports", "input": input}));
        }
        for st in &out.stages {
            self.note(stream, format!("{}:{}", st.name, st.res));
            if let Some(p) = &st.panic {
                let mut class = format!("panic:{}:{}", p.file, msg_key(&p.msg));
                // the input feature that explains this site: merge panics <- conflicting response keys, the others <- the remaining tags
                let merge = p.msg.starts_with("Cannot merge");
                for t in st.tags.iter().filter(|t| (**t == "conflicting-response-key") == merge) { class.push(':'); class.push_str(t); }
                self.fail(class, format!("{} panics at {}:{} ({})", st.name, p.file, p.line, plain(&p.msg)),
                          json!({"stream": stream, "kind": kind, "stage": st.name, "site": format!("{}:{}", p.file, p.line), "message": p.msg, "input": input}));
            }
        }
        for r in &out.renders {
            if self.n_render_cases >= self.render_budget { break; }
            let size: usize = r.files.iter().map(|(_, s)| s.len()).sum::<usize>() + r.out.as_ref().map(|s| s.len()).unwrap_or(0);
            if size > 6000 { continue; }
            self.n_render_cases += 1;
            self.cases.push(cq_render(r), json!({"kind": "render", "stream": stream, "files": r.files, "pos": r.pos.as_ref().map(|p| json!([p.line, p.col, p.file, p.builtin])),
                "message": r.msg, "additional": r.addl.iter().map(|(p, m)| json!([[p.line, p.col, p.file, p.builtin], m])).collect::<Vec<_>>(),
                "output": r.out.as_ref().ok(), "panic": r.out.as_ref().err().map(|p| format!("{}:{}: {}", p.file, p.line, p.msg)),
                "classes": r.out.as_ref().err().map(|p| vec![format!("panic:{}:{}", p.file, msg_key(&p.msg))]).unwrap_or_default()}));
        }
        if self.samples.len() < 6 && self.evaluations % 400 == 1 { self.samples.push(json!({"stream": stream, "kind": kind, "input": input, "stages": out.stages.iter().map(|s| format!("{}:{}", s.name, s.res)).collect::<Vec<_>>() })); }
        Some(out)
    }
    /// re-runs an operation case whose generation step may overflow the stack in a child process
    fn child_case(&mut self, stream: &'static str, kind: &'static str, sdl: &str, ops: &[String], input: &J) {
        let dir = self.scratch.join(format!("child-{}", self.evaluations));
        let _ = std::fs::create_dir_all(&dir);
        std::fs::write(dir.join("schema.graphql"), sdl).unwrap();
        for (i, t) in ops.iter().enumerate() { std::fs::write(dir.join(format!("q{i}.graphql")), t).unwrap(); }
        let exe = std::env::current_exe().unwrap();
        let o = std::process::Command::new(exe).arg("--child-op").arg(&dir).arg(ops.len().to_string()).env("RUST_BACKTRACE", "0").env("C08_CHILD", "1").output();
        let _ = std::fs::remove_dir_all(&dir);
        match o {
            Err(e) => self.fail("child-spawn".into(), format!("cannot run the child process: {e}"), json!({"input": input})),
            Ok(o) => {
                let err = String::from_utf8_lossy(&o.stderr).to_string();
                let out = String::from_utf8_lossy(&o.stdout).to_string();
                if o.status.success() {
                    self.note(stream, format!("child-process:{}", out.trim()));
                    if out.contains("panic") {
                        self.fail(format!("panic:child:{}", plain(&out)), format!("{kind}: generation in the child process panics: {}", plain(&out)), json!({"stream": stream, "kind": kind, "input": input}));
                    }
                } else {
                    let overflow = err.contains("overflowed its stack");
                    self.note(stream, format!("child-process:abort{}", if overflow { ":stack-overflow" } else { "" }));
                    // the child prints the stages it completed only at the end; the last line of "stage ..." markers on stderr names where it died
                    let last = err.lines().filter(|l| l.starts_with("stage ")).last().unwrap_or("stage ?").trim_start_matches("stage ").to_string();
                    let class = if overflow { format!("abort:stack-overflow:{last}") } else { format!("abort:{:?}:{last}", o.status.code()) };
                    self.fail(class, format!("{kind}: the pipeline aborts the process ({}) in or after stage '{last}': {}", if overflow { "stack overflow" } else { "abnormal exit" }, plain(err.lines().filter(|l| !l.starts_with("stage ")).next().unwrap_or(""))),
                              json!({"stream": stream, "kind": kind, "stage": last, "input": input, "stderr_head": err.chars().take(300).collect::<String>()}));
                }
            }
        }
    }
    /// outcome class of one parser on one text, as a Coq case against C07's parser model
    fn parse_case(&mut self, stream: &'static str, ts: bool, text: &str) {
        if self.n_parse_cases >= self.parse_budget || text.chars().count() > 220 { return; }
        if !self.distinct.insert(format!("parse|{ts}|{text}")) { return; }
        let (res, _) = exec(Job::Parse(ts, text.to_string()), false, self.limit);
        let Some(out) = res else { return; };
        let Some(st) = out.stages.first() else { return; };
        let (oc, classes) = match (st.res, &st.panic) {
            ("ok", _) => (0, vec![]), ("err", _) => (1, vec![]),
            (_, Some(p)) => { let mut c = format!("panic:{}:{}", p.file, msg_key(&p.msg)); for t in &st.tags { c.push(':'); c.push_str(t); } (10 + c07_panic_class(&p.msg), vec![c]) }
            _ => (99, vec![]),
        };
        self.n_parse_cases += 1;
        self.note(stream, format!("coq-parse-case:{oc}"));
        self.cases.push(format!("CParse {} {} {}", coq_bool(ts), cq_str(text), coq_n(oc)), json!({"kind": "parse", "stream": stream, "type_system": ts, "text": text, "outcome": oc, "classes": classes}));
    }
}

fn import_variants(rng: &mut Rng, frag_names: &[String]) -> String {
    let f = |rng: &mut Rng| -> String { if frag_names.is_empty() || rng.chance(1, 5) { "Nope".into() } else { rng.pick(frag_names).clone() } };
    match rng.below(8) {
        0 => format!("#import {} from \"./q1.graphql\"\n", f(rng)),
        1 => "#import * from \"./q1.graphql\"\n".to_string(),
        2 => { let a = f(rng); format!("#import {a}, {a} from \"./q1.graphql\"\n") }
        3 => format!("#import {} from \"./nofile.graphql\"\n", f(rng)),
        4 => format!("#import *, {} from \"./q1.graphql\"\n", f(rng)),
        5 => format!("#import {} from \"./q1.graphql\"\n#import {} from \"././q1.graphql\"\n", f(rng), f(rng)),
        6 => "#import * from \"./q0.graphql\"\n".to_string(),
        _ => format!("# import {} from './q1.graphql'\n#import{} from\"./q1.graphql\"\n", f(rng), f(rng)),
    }
}

fn main() {
    install_hook();
    std::env::set_var("NO_COLOR", "1");
    let raw: Vec<String> = std::env::args().collect();
    if raw.len() >= 4 && raw[1] == "--child-op" {
        // child mode: one operation case, generation included even for cyclic fragments; prints the stage outcomes
        let dir = PathBuf::from(&raw[2]);
        let n: usize = raw[3].parse().unwrap_or(1);
        let sdl = std::fs::read_to_string(dir.join("schema.graphql")).unwrap();
        let ops: Vec<String> = (0..n).map(|i| std::fs::read_to_string(dir.join(format!("q{i}.graphql"))).unwrap()).collect();
        let out = run_op_case(&sdl, &ops, false, true);
        let v: Vec<String> = out.stages.iter().map(|s| format!("{}:{}", s.name, s.res)).collect();
        println!("{}", v.join(","));
        return;
    }
    let args = parse_args();
    let thorough = args.tier == "thorough";
    let mut rng = Rng::new(args.seed);
    let cli: Option<PathBuf> = args.extra.iter().position(|a| a == "--cli").and_then(|i| args.extra.get(i + 1)).map(PathBuf::from);
    let mut run = Run {
        cases: Cases::new("From V Require Import Base.Util C08.Model C08.Corr.", "case", "agree", "holds", if thorough { 150 } else { 60 }),
        direct: vec![], per_class: BTreeMap::new(), dist: BTreeMap::new(), distinct: HashSet::new(), nontrivial: 0, evaluations: 0,
        max_ms: 0, slow: vec![], samples: vec![], render_budget: if thorough { 2400 } else { 600 }, parse_budget: if thorough { 1600 } else { 330 },
        n_render_cases: 0, n_parse_cases: 0, limit: Duration::from_secs(if thorough { 60 } else { 20 }),
        scratch: args.out.join("scratch"), dag_ms: vec![],
    };
    let scale = if thorough { 24 } else { 1 };

    // ---- 0. corpus: the witnesses of the refuted lemmas and of defects repaired earlier
    let corpus_ops: &[(&str, &str)] = &[
        ("{ a { i } }", "shorthand (fixed 6bc57ef)"),
        ("query Q { i } # c", "trailing comment without newline (fixed 60c31c9)"),
        ("query Q { s(x: \"\\uD800\") }", "lone surrogate escape"),
        ("query Q { s(x: \"\\uD83D\\uDE00\") }", "surrogate pair escape"),
        ("query Q { s(x: \"\\u{110000}\") }", "escape above U+10FFFF"),
        ("query Q { s(x: \"\\u{100000000}\") }", "escape overflowing u32"),
        ("query Q { s(x: \"\\u{0000000041}\") }", "escape with 10 digits, small value"),
        ("query Q { a { i } }\nfragment U on Query { nonexistent }", "unspread fragment with unknown field"),
        ("query Q { i }\nfragment U on Query { i ...Missing }", "unspread fragment spreading an undefined fragment"),
        ("query Q { i ...Missing }", "spread of an undefined fragment"),
        ("query Q { i }\nfragment A on Query { a { ...A } }", "fragment cycle that no operation reaches"),
        ("query Q { x: i x: a { i } }", "same response key, leaf and object"),
        ("query Q { x: l { i } x: a { i } }", "same response key, list and non-list object"),
        ("query Q { x: i x: s }", "same response key, different leaf types"),
        ("query Q { u { ... on A { x: id } ... on B { x: b } } }", "same response key in disjoint branches"),
        ("#import FA, FA from \"./q1.graphql\"\nquery Q { ...FA }", "duplicate import target"),
        ("\u{3000}query { a }", "syntax error on a line indented with U+3000"),
        ("query Q {\r  nonexistent\r}", "lone CR line terminators + check error"),
    ];
    for (t, why) in corpus_ops {
        let ops = vec![t.to_string(), "fragment FA on Query { i }\nfragment FB on Query { i }\n".to_string()];
        run.case("corpus", "operation", Job::Op(FIXED_SCHEMA.into(), ops), json!({"operation": t, "why": why, "schema": "FIXED_SCHEMA"}));
        run.parse_case("corpus", false, t);
    }
    // inputs that must run in a child process: a regression here is a stack overflow, which aborts
    {
        let sub_schema = "type Query { i: Int }\ntype Subscription { s: Int t: Int }\n";
        for (t, why) in [
            ("subscription S { ...A }\nfragment A on Subscription { s ...B }\nfragment B on Subscription { ...A }\n", "subscription spreading a fragment cycle of length 2"),
            ("subscription S { ...A }\nfragment A on Subscription { ...B }\nfragment B on Subscription { ...C }\nfragment C on Subscription { s ...A }\n", "subscription spreading a fragment cycle of length 3"),
            ("subscription S { ... { ...A } }\nfragment A on Subscription { s ...A }\n", "subscription spreading a self-recursive fragment through an inline fragment"),
            ("query Q { ...A }\nfragment A on Query { i ...B }\nfragment B on Query { ...A }\n", "query spreading a fragment cycle of length 2"),
        ] {
            run.evaluations += 1;
            println!("child-process case: {why}");
            run.child_case("corpus", "operation-in-child", sub_schema, &[t.to_string()], &json!({"schema": sub_schema, "operation": t, "why": why}));
        }
    }
    // @skip / @include redefined by the schema without an `if` argument (fixed 021e9ac: the printer panicked)
    for (sdl, t) in [("directive @skip on FIELD\ntype Query { a: Int }\n", "query Q { a @skip }"), ("directive @include on FIELD | FRAGMENT_SPREAD | INLINE_FRAGMENT\ntype Query { a: Int }\n", "query Q { a @include ... @include { a } }")] {
        run.case("corpus", "operation", Job::Op(sdl.into(), vec![t.to_string()]), json!({"schema": sdl, "operation": t, "why": "@skip/@include applied without an if argument"}));
    }
    for t in ["schema: [", "schema: ./s.graphql\nextensions: {nitrogql: {generate: {mode: nope}}}", "{", "", "schema: ./s.graphql"] {
        run.case("corpus", "config", Job::Config(t.into()), json!({"config": t}));
    }
    for t in ["type A", "union U", "type Query { a: Int } \"\"\"\n\u{3000}\u{3000}説明\n\u{3000}\u{3000}続き\n\"\"\" type B { b: Int }", "type Query { a: Missing }", "\"\\uD800\" type Query { a: Int }"] {
        run.case("corpus", "schema", Job::Schema(vec![t.into()]), json!({"schema": t}));
        run.parse_case("corpus", true, t);
    }

    // ---- 1+2. valid generated documents; token-level and semantic mutations of them
    let n_schemas = 30 * scale;
    for si in 0..n_schemas {
        let s = g::gen_schema(&mut rng, &g::SchemaCfg::default());
        let sdl = s.render();
        run.case("valid", "schema", Job::Schema(vec![sdl.clone()]), json!({"schema": sdl}));
        // schema mutations
        for _ in 0..4 {
            let mut toks = lex(&sdl);
            mutate(&mut rng, &mut toks, TS_VOCAB);
            let t = join(&toks, &mut rng);
            run.case("mutated", "schema", Job::Schema(vec![t.clone()]), json!({"schema": t}));
            if si % 3 == 0 { run.parse_case("mutated", true, &t); }
        }
        let companion = {
            let q = &s.query;
            format!("fragment FA on {q} {{ __typename }}\nfragment FB on {q} {{ __typename ...FA }}\nquery Other {{ __typename }}\n")
        };
        for di in 0..6 {
            let d = g::gen_doc(&mut rng, &s, &g::DocCfg { shorthand: di % 3 == 0, ..g::DocCfg::default() });
            let text = d.render();
            run.case("valid", "operation", Job::Op(sdl.clone(), vec![text.clone(), companion.clone()]), json!({"schema": sdl, "operation": text}));
            if di == 0 { run.parse_case("valid", false, &text); }
            // token mutations
            for _ in 0..2 {
                let mut toks = lex(&text);
                mutate(&mut rng, &mut toks, OP_VOCAB);
                let t = join(&toks, &mut rng);
                run.case("mutated", "operation", Job::Op(sdl.clone(), vec![t.clone(), companion.clone()]), json!({"schema": sdl, "operation": t}));
                if di == 1 { run.parse_case("mutated", false, &t); }
            }
            // semantic faults on the structured document
            let mut d2 = d.clone();
            let fault = match rng.below(7) {
                6 => {
                    // the same response key for a leaf and for a composite field (Field Selection Merging is not checked)
                    let comp = s.fields_of(&s.query).iter().find(|f| s.is_composite(f.ty.named()) && f.args.iter().all(|a| !a.ty.is_nonnull() || a.default.is_some())).map(|f| f.name.clone());
                    if let (Some(o), Some(c)) = (d2.ops.first_mut(), comp) {
                        o.sel.push(g::Sel::Field { alias: Some("k9".into()), name: "__typename".into(), args: vec![], dirs: vec![], sub: None });
                        o.sel.push(g::Sel::Field { alias: Some("k9".into()), name: c, args: vec![], dirs: vec![], sub: Some(vec![g::Sel::Field { alias: None, name: "__typename".into(), args: vec![], dirs: vec![], sub: None }]) });
                    }
                    "one response key for a leaf and a composite field"
                }
                0 => { d2.frags.push(g::Frag { name: "U9".into(), cond: s.query.clone(), dirs: vec![], sel: vec![g::Sel::Field { alias: None, name: "nonexistent".into(), args: vec![], dirs: vec![], sub: None }] }); "unspread fragment with an unknown field" }
                1 => { d2.frags.push(g::Frag { name: "U8".into(), cond: s.query.clone(), dirs: vec![], sel: vec![g::Sel::Field { alias: None, name: "__typename".into(), args: vec![], dirs: vec![], sub: None }, g::Sel::Spread { name: "Missing".into(), dirs: vec![] }] }); "unspread fragment spreading an undefined fragment" }
                2 => { if let Some(o) = d2.ops.first_mut() { o.sel.push(g::Sel::Spread { name: "Missing".into(), dirs: vec![] }); } "spread of an undefined fragment in an operation" }
                3 => { d2.frags.push(g::Frag { name: "U7".into(), cond: "Nope".into(), dirs: vec![], sel: vec![g::Sel::Field { alias: None, name: "__typename".into(), args: vec![], dirs: vec![], sub: None }] }); "unspread fragment on an unknown type" }
                4 => { d2.frags.push(g::Frag { name: "U6".into(), cond: s.query.clone(), dirs: vec!["@skip(if: $undefinedVar)".into()], sel: vec![g::Sel::Field { alias: None, name: "__typename".into(), args: vec![], dirs: vec!["@include(if: $alsoUndefined)".into()], sub: None }] }); "unspread fragment using undefined variables in @skip/@include" }
                _ => { if let Some(o) = d2.ops.first_mut() { o.sel.push(g::Sel::Spread { name: "FA".into(), dirs: vec![] }); } "import" }
            };
            let names: Vec<String> = vec!["FA".into(), "FB".into()];
            let mut t2 = d2.render();
            if fault == "import" || rng.chance(1, 4) { t2 = format!("{}{}", import_variants(&mut rng, &names), t2); }
            run.case("mutated", "operation-semantic", Job::Op(sdl.clone(), vec![t2.clone(), companion.clone()]), json!({"schema": sdl, "operation": t2, "fault": fault}));
        }
    }

    // ---- 3. random token sequences
    for k in 0..(300 * scale) {
        let n = rng.range(1, 30);
        let toks: Vec<String> = (0..n).map(|_| rng.pick(OP_VOCAB).to_string()).collect();
        let t = join(&toks, &mut rng);
        run.case("random-tokens", "operation", Job::Op(FIXED_SCHEMA.into(), vec![t.clone(), "fragment FA on Query { i }\n".into()]), json!({"operation": t, "schema": "FIXED_SCHEMA"}));
        if k % 3 == 0 { run.parse_case("random-tokens", false, &t); }
    }
    for k in 0..(200 * scale) {
        let n = rng.range(1, 30);
        let toks: Vec<String> = (0..n).map(|_| rng.pick(TS_VOCAB).to_string()).collect();
        let t = join(&toks, &mut rng);
        run.case("random-tokens", "schema", Job::Schema(vec![t.clone()]), json!({"schema": t}));
        if k % 3 == 0 { run.parse_case("random-tokens", true, &t); }
    }

    // ---- 4. arbitrary Unicode, escapes, deep nesting
    let base_ops = ["query Q($v: Boolean = true) {\n  a {\n    i @skip(if: $v)\n    l { i }\n  }\n  s(x: \"str\", e: RED)\n  n { id ... on A { a { id } } }\n}\n",
                    "query Q {\n  u {\n    __typename\n    ... on B { b }\n  }\n  nonexistent\n}\n",
                    "{\n  s(o: {x: 1, s: \"v\", l: [{x: 2}]})\n  ...F\n}\nfragment F on Query {\n  i\n}\n"];
    for k in 0..(260 * scale) {
        let base: &str = base_ops[rng.below(base_ops.len())];
        let t = match rng.below(6) {
            0 => uni_string(&mut rng, 40),
            1 | 2 => insert_unicode(&mut rng, base),
            3 => reindent_unicode(&mut rng, base),
            4 => { let b = reindent_unicode(&mut rng, base); insert_unicode(&mut rng, &b) }
            _ => format!("query Q {{ s(x: \"{}\") }}", uni_string(&mut rng, 12).replace('"', "'").replace('\\', "/").replace(['\n', '\r'], " ")),
        };
        run.case("unicode", "operation", Job::Op(FIXED_SCHEMA.into(), vec![t.clone()]), json!({"operation": t, "schema": "FIXED_SCHEMA"}));
        if k % 3 == 0 { run.parse_case("unicode", false, &t); }
    }
    for k in 0..(160 * scale) {
        let body: String = (0..rng.range(1, 3)).map(|_| escape_literal(&mut rng)).collect();
        let t = match rng.below(5) {
            0 => format!("query Q {{ s(x: \"{body}\") }}"),
            1 => format!("query Q {{ s(x: \"a{body}b\", o: {{s: \"{}\"}}) }}", escape_literal(&mut rng)),
            2 => format!("query Q {{ s(x: \"\"\"{body}\"\"\") }}"),
            3 => format!("#import * from \"{body}\"\nquery Q {{ i }}"),
            _ => format!("query Q @d(a: \"{body}\") {{ i }}"),
        };
        run.case("unicode", "operation-escape", Job::Op(FIXED_SCHEMA.into(), vec![t.clone()]), json!({"operation": t, "schema": "FIXED_SCHEMA"}));
        if k % 2 == 0 { run.parse_case("unicode", false, &t); }
        if k % 4 == 0 {
            let ts = format!("\"{body}\" type Query {{ \"\"\"{}\"\"\" a(x: String = \"{}\"): Int }}", uni_string(&mut rng, 10).replace("\"\"\"", "'"), escape_literal(&mut rng));
            run.case("unicode", "schema-escape", Job::Schema(vec![ts.clone()]), json!({"schema": ts}));
            run.parse_case("unicode", true, &ts);
        }
    }
    let base_ts = ["\"\"\"\n  Root type\n  second line\n\"\"\"\ntype Query {\n  \"a field\"\n  a(x: Int = 1): Int\n  b: Missing\n}\n", "scalar Date\ntype Query {\n  d: Date\n  \"\"\"\n    doc\n      more\n  \"\"\"\n  e: E\n}\nenum E { A B }\n"];
    for k in 0..(120 * scale) {
        let base: &str = base_ts[rng.below(base_ts.len())];
        let t = match rng.below(5) {
            0 => uni_string(&mut rng, 40),
            1 | 2 => insert_unicode(&mut rng, base),
            3 => reindent_unicode(&mut rng, base),
            _ => { let b = reindent_unicode(&mut rng, base); insert_unicode(&mut rng, &b) }
        };
        run.case("unicode", "schema", Job::Schema(vec![t.clone()]), json!({"schema": t}));
        if k % 3 == 0 { run.parse_case("unicode", true, &t); }
    }
    let depths: &[usize] = if thorough { &[10, 30, 60, 100, 150, 200] } else { &[10, 30, 60] };
    for &d in depths {
        for (t, what) in deep_ops(d) {
            println!("deep-nesting operation {what} depth {d}"); // visible in the log tail if the process dies here
            run.case("deep-nesting", "operation", Job::Op(FIXED_SCHEMA.into(), vec![t.clone()]), json!({"operation": if t.len() > 400 { format!("{}… ({} bytes)", &t[..200], t.len()) } else { t.clone() }, "what": what, "depth": d, "schema": "FIXED_SCHEMA"}));
        }
        for (t, what) in deep_schemas(d) {
            println!("deep-nesting schema {what} depth {d}");
            run.case("deep-nesting", "schema", Job::Schema(vec![t.clone()]), json!({"schema": if t.len() > 400 { format!("{}… ({} bytes)", &t[..200], t.len()) } else { t.clone() }, "what": what, "depth": d}));
        }
    }

    // ---- nesting of list *types*: `Type = { NonNullType | NamedType | ListType }` parses the inner type of a
    // nullable list twice (once for the failed NonNullType alternative), so the time doubles per level.
    // Small depths are measured, one deeper probe runs under a short bound.
    let mut list_type_ms: Vec<(usize, u64)> = vec![];
    for d in [4usize, 8, 12, 14, 16, 18] {
        let t0 = Instant::now();
        let t = format!("query D($v: {}) {{ i }}", nest("[", "]", "Int", d));
        run.case("deep-nesting", "operation", Job::Op(FIXED_SCHEMA.into(), vec![t.clone()]), json!({"operation": t, "what": "variable-type", "depth": d, "schema": "FIXED_SCHEMA"}));
        let t = format!("type Query {{ f: {} }}", nest("[", "]", "Int", d));
        run.case("deep-nesting", "schema", Job::Schema(vec![t.clone()]), json!({"schema": t, "what": "list-type", "depth": d}));
        list_type_ms.push((d, t0.elapsed().as_millis() as u64));
    }
    {
        let keep = run.limit;
        run.limit = Duration::from_secs(4);
        let t = format!("type Query {{ f: {} }}", nest("[", "]", "Int", 30));
        println!("list-type nesting probe depth 30");
        run.case("deep-nesting", "list-type-nesting", Job::Parse(true, t.clone()), json!({"schema": t, "what": "list-type", "depth": 30}));
        run.limit = keep;
    }

    // ---- layered shared-import DAGs: import resolution must stay linear (each file entered once), under the watchdog
    {
        let keep = run.limit;
        run.limit = Duration::from_secs(if thorough { 20 } else { 10 });
        let mut dag_ms: Vec<J> = vec![];
        for &depth in &[5usize, 20, 30, 40] {
            for &width in &[2usize, 3] {
                for &wild in &[true, false] {
                    let files = import_dag(depth, width, wild);
                    println!("import DAG depth {depth} width {width} wildcard {wild}");
                    let t0 = Instant::now();
                    run.case("import-dag", "import-dag", Job::Op(FIXED_SCHEMA.into(), files.clone()),
                             json!({"what": "layered shared-import DAG", "depth": depth, "width": width, "wildcard": wild, "schema": "FIXED_SCHEMA",
                                    "files": files.iter().enumerate().map(|(i, t)| json!({"path": format!("/p/ops/q{i}.graphql"), "text": t})).collect::<Vec<_>>()}));
                    dag_ms.push(json!([depth, width, wild, t0.elapsed().as_millis() as u64]));
                }
            }
        }
        run.limit = keep;
        run.dag_ms = dag_ms;
    }

    // ---- configuration texts
    let base_cfg = ["schema: ./schema/*.graphql\ndocuments:\n  - ./ops/*.graphql\nextensions:\n  nitrogql:\n    plugins:\n      - nitrogql:model-plugin\n    generate:\n      mode: with-loader-ts-5.0\n      schemaOutput: ./out/schema.d.ts\n      type:\n        scalarTypes:\n          Date: string\n          Money: { send: string, receive: number }\n      name:\n        operationResultTypeSuffix: Result\n      export:\n        defaultExportForOperation: false\n      emitSchemaRuntime: true\n",
                    "{\"schema\": [\"a.graphql\", \"b.graphql\"], \"documents\": \"x\", \"extensions\": {\"nitrogql\": {\"generate\": {\"type\": {\"allowUndefinedAsOptionalInput\": false}}}}}"];
    let yaml_vocab = ["schema", "documents", "extensions", "nitrogql", "generate", "mode", "type", "scalarTypes", ":", "-", " ", "  ", "\n", "[", "]", "{", "}", ",", "\"", "'", "&a", "*a", "!!str", "|", ">", "?", "#", "null", "~", "1", "true", "x", "---", "...", "\t", "%YAML", "<<"];
    for _ in 0..(150 * scale) {
        let t = match rng.below(5) {
            0 => { let mut cs: Vec<char> = rng.pick(&base_cfg).chars().collect(); for _ in 0..rng.range(1, 4) { let i = rng.below(cs.len()); if rng.chance(1, 2) { cs.remove(i); } else { cs.insert(i, uni_char(&mut rng)); } } cs.into_iter().collect() }
            1 => (0..rng.range(1, 30)).map(|_| *rng.pick(&yaml_vocab)).collect::<String>(),
            2 => uni_string(&mut rng, 30),
            3 => format!("schema: {}", nest("[", "]", "x", rng.range(1, 200))),
            _ => { let mut toks: Vec<String> = rng.pick(&base_cfg).split_inclusive([' ', '\n']).map(|x| x.to_string()).collect(); for _ in 0..rng.range(1, 3) { let i = rng.below(toks.len()); match rng.below(3) { 0 => { toks.remove(i); } 1 => { let t = toks[i].clone(); toks.insert(i, t); } _ => { toks[i] = rng.pick(&yaml_vocab).to_string(); } } } toks.concat() }
        };
        run.case("config", "config", Job::Config(t.clone()), json!({"config": t}));
    }

    // ---- synthetic positioned errors: any position inside or outside the text, any line terminators, any indentation
    let mut n_synth = 0;
    while n_synth < 420 * scale {
        n_synth += 1;
        let nfiles = rng.range(1, 3);
        let mut files: Files = vec![];
        for f in 0..nfiles {
            let nl = rng.range(0, 8);
            let common: String = (0..rng.range(0, 3)).map(|_| *rng.pick(INDENT_WS)).collect();
            let mut text = String::new();
            for l in 0..nl {
                if rng.chance(4, 5) { text.push_str(&common); }
                for _ in 0..rng.range(0, 2) { text.push(*rng.pick(INDENT_WS)); }
                if !rng.chance(1, 6) { let body: String = (0..rng.range(0, 14)).map(|_| if rng.chance(1, 6) { uni_char(&mut rng) } else { (b'a' + rng.below(26) as u8) as char }).filter(|c| *c != '\n').collect(); text.push_str(&body); }
                if l + 1 < nl || rng.chance(2, 3) { text.push_str(["\n", "\n", "\n", "\r\n", "\r", "\n\r", "\r\r\n"][rng.below(7)]); }
            }
            files.push((PathBuf::from(format!("/p/f{f}.graphql")), text, ()));
        }
        let mk_pos = |rng: &mut Rng, files: &Files| -> RPos {
            let file = rng.below(files.len());
            let nl = files[file].1.lines().count();
            let line = match rng.below(10) { 0 => nl + rng.below(4), 1 => usize::MAX - 1 - rng.below(3), 2 => 1usize << 40, _ => rng.below(nl.max(1)) };
            let col = match rng.below(10) { 0 => rng.range(20, 400), 1 => rng.range(400, 2500), _ => rng.below(24) };
            RPos { line, col, file, builtin: rng.chance(1, 12) }
        };
        let pos = if rng.chance(1, 15) { None } else { Some(mk_pos(&mut rng, &files)) };
        let msg = if rng.chance(1, 4) { uni_string(&mut rng, 20) } else { format!("Type '{}' is not defined", uni_string(&mut rng, 5).replace('\n', " ")) };
        let addl: Vec<(RPos, String)> = (0..*rng.pick(&[0, 0, 0, 1, 1, 2])).map(|_| (mk_pos(&mut rng, &files), format!("Another declaration of '{}'", uni_string(&mut rng, 4)))).collect();
        let inp = json!({"files": files_obs(&files), "pos": pos.as_ref().map(|p| json!([p.line, p.col, p.file, p.builtin])), "message": msg});
        run.render_budget += 1; // synthetic cases always become Coq cases
        run.case("render", "positioned-error", Job::Render(files, pos, msg, addl), inp);
    }
    // very large columns: observed only (the output would be megabytes as a Coq term)
    for col in [100_000usize, 1_000_000] {
        let files: Files = vec![(PathBuf::from("/p/f0.graphql"), "  query Q {\n    x\n  }\n".to_string(), ())];
        let keep = run.render_budget; run.render_budget = 0;
        run.case("render", "positioned-error-wide", Job::Render(files, Some(RPos { line: 1, col, file: 0, builtin: false }), "m".into(), vec![]), json!({"col": col}));
        run.render_budget = keep;
    }

    // ---- char::is_whitespace table (the model's is_whitespace is compared with it exhaustively)
    let ws: Vec<u64> = (0..=0x10FFFFu32).filter_map(char::from_u32).filter(|c| c.is_whitespace()).map(|c| c as u64).collect();
    run.cases.push(format!("CWs {}", coq_list(&ws, |c| coq_n(*c))), json!({"kind": "whitespace-table", "code_points": ws}));

    // ---- the real CLI on ~20 projects: exit status must be 0 or 1
    let mut cli_stats: BTreeMap<String, usize> = BTreeMap::new();
    if let Some(cli) = &cli {
        let base = args.out.join("cli-projects");
        let valid_schema = g::gen_schema(&mut rng, &g::SchemaCfg::default());
        let vsdl = valid_schema.render();
        let vdoc = |rng: &mut Rng| g::gen_doc(rng, &valid_schema, &g::DocCfg::default()).render();
        let q = valid_schema.query.clone();
        let mut projects: Vec<(&'static str, String, Vec<String>, Option<String>, Vec<&'static str>)> = vec![];   // (what, schema, ops, config override, tags)
        for _ in 0..(5 * scale.min(4)) { projects.push(("valid", vsdl.clone(), vec![vdoc(&mut rng), vdoc(&mut rng)], None, vec![])); }
        projects.push(("operation syntax error", vsdl.clone(), vec!["query Q { ".into()], None, vec![]));
        projects.push(("operation syntax error, U+3000 indentation", vsdl.clone(), vec!["\u{3000}query { a }\n".into()], None, vec![]));
        projects.push(("schema syntax error", "type Query {".into(), vec![vdoc(&mut rng)], None, vec![]));
        projects.push(("schema check error next to a description indented with U+3000", "scalar String\ntype Query {\n  \"\"\"\n\u{3000}\u{3000}説明\n  \"\"\"\n  foo: Missing\n  bar: String\n}\n".into(), vec![], None, vec![]));
        projects.push(("valid schema whose description is indented with U+3000", "type Query {\n  \"\"\"\n\u{3000}\u{3000}説明\n\u{3000}\u{3000}続き\n  \"\"\"\n  foo: String\n}\n".into(), vec!["query Q { foo }\n".into()], None, vec![]));
        projects.push(("operation check error", vsdl.clone(), vec![format!("query Q {{ nonexistent }}\n")], None, vec![]));
        projects.push(("operation check error with lone CR terminators", vsdl.clone(), vec!["query Q {\r  nonexistent\r}".into()], None, vec![]));
        projects.push(("extension without original", format!("{vsdl}\nextend type Nope {{ a: Int }}\n"), vec![], None, vec![]));
        projects.push(("duplicate type", format!("{vsdl}\ntype {q} {{ a: Int }}\n"), vec![], None, vec![]));
        projects.push(("invalid YAML config", vsdl.clone(), vec![vdoc(&mut rng)], Some("schema: [".into()), vec![]));
        projects.push(("config without schema", vsdl.clone(), vec![vdoc(&mut rng)], Some("documents: ./ops/*.graphql\n".into()), vec![]));
        projects.push(("import of a missing file", vsdl.clone(), vec![format!("#import * from \"./nofile.graphql\"\nquery Q {{ __typename }}\n")], None, vec![]));
        projects.push(("deep selection nesting (60)", FIXED_SCHEMA.into(), vec![deep_ops(60)[0].0.clone(), deep_ops(60)[2].0.clone()], None, vec![]));
        projects.push(("lone surrogate escape", vsdl.clone(), vec!["query Q { __typename @skip(if: \"\\uD800\") }\n".into()], None, vec!["unicode-escape"]));
        projects.push(("unspread fragment with unknown field", vsdl.clone(), vec![format!("query Q {{ __typename }}\nfragment U on {q} {{ nonexistent }}\n")], None, vec!["unspread-fragment"]));
        projects.push(("fragment cycle that no operation reaches", FIXED_SCHEMA.into(), vec!["query Q { i }\nfragment A on Query { a { ...A } }\n".into()], None, vec!["unspread-fragment-cycle"]));
        projects.push(("layered shared-import DAG, depth 30, width 2", FIXED_SCHEMA.into(), import_dag(30, 2, true), None, vec![]));
        projects.push(("duplicate import target", vsdl.clone(), vec![format!("#import FA, FA from \"./q1.graphql\"\nquery Q {{ ...FA }}\n"), format!("fragment FA on {q} {{ __typename }}\n")], None, vec!["duplicate-import-target"]));
        for (k, (what, schema, ops, cfg, tags)) in projects.iter().enumerate() {
            let dir = base.join(format!("p{k}"));
            let _ = std::fs::remove_dir_all(&dir);
            std::fs::create_dir_all(dir.join("schema")).unwrap();
            std::fs::create_dir_all(dir.join("ops")).unwrap();
            std::fs::write(dir.join("schema/s0.graphql"), schema).unwrap();
            for (i, t) in ops.iter().enumerate() { std::fs::write(dir.join(format!("ops/q{i}.graphql")), t).unwrap(); }
            let mut y = String::from("schema: ./schema/*.graphql\ndocuments: ./ops/*.graphql\nextensions:\n  nitrogql:\n    generate:\n      mode: with-loader-ts-5.0\n      schemaOutput: ./out/schema.d.ts\n      serverGraphqlOutput: ./out/graphql.ts\n      resolversOutput: ./out/resolvers.d.ts\n      type:\n        scalarTypes:\n          Int: number\n");
            for w in lex(schema).windows(2) { if w[0] == "scalar" && w[1] != "String" && w[1].chars().all(|c| c.is_ascii_alphanumeric()) { y.push_str(&format!("          {}: string\n", w[1])); } }
            std::fs::write(dir.join("graphql.config.yaml"), cfg.clone().unwrap_or(y)).unwrap();
            let fmt = ["human", "json", "rdjson"][k % 3];
            // the CLI under a wall-clock bound: stdout/stderr go to files, the child is killed when the bound passes
            let cli_limit = Duration::from_secs(if thorough { 60 } else { 30 });
            let (fo, fe) = (std::fs::File::create(dir.join("stdout.txt")).unwrap(), std::fs::File::create(dir.join("stderr.txt")).unwrap());
            let spawned = std::process::Command::new(cli).current_dir(&dir).env("NO_COLOR", "1").env("RUST_BACKTRACE", "0").args(["--output-format", fmt, "check", "generate"])
                .stdin(std::process::Stdio::null()).stdout(fo).stderr(fe).spawn();
            run.evaluations += 1;
            let o: std::io::Result<std::process::Output> = match spawned {
                Err(e) => Err(e),
                Ok(mut child) => {
                    let t0 = Instant::now();
                    let mut status = None;
                    while t0.elapsed() < cli_limit { if let Ok(Some(st)) = child.try_wait() { status = Some(st); break; } std::thread::sleep(Duration::from_millis(20)); }
                    match status {
                        Some(st) => Ok(std::process::Output { status: st, stdout: std::fs::read(dir.join("stdout.txt")).unwrap_or_default(), stderr: std::fs::read(dir.join("stderr.txt")).unwrap_or_default() }),
                        None => {
                            let _ = child.kill(); let _ = child.wait();
                            *cli_stats.entry("timeout".into()).or_default() += 1;
                            run.fail_k("timeout:cli".into(), format!("nitrogql-cli does not finish within {} s on project '{what}'", cli_limit.as_secs()),
                                       json!({"stream": "cli", "project": what, "schema": schema, "operations": ops, "config": cfg, "output_format": fmt}), usize::MAX);
                            let _ = std::fs::remove_dir_all(&dir);
                            continue;
                        }
                    }
                }
            };
            match o {
                Err(e) => run.fail("cli-spawn".into(), format!("cannot run the CLI: {e}"), json!({"project": what})),
                Ok(o) => {
                    let code = o.status.code();
                    *cli_stats.entry(format!("{}", code.map(|c| c.to_string()).unwrap_or("signal".into()))).or_default() += 1;
                    let err = String::from_utf8_lossy(&o.stderr).to_string();
                    let panicked = err.contains("panicked at ");
                    let overflowed = err.contains("overflowed its stack");
                    if overflowed {
                        let mut class = "abort:stack-overflow:print_types_for_operation_document".to_string();
                        for t in tags { class.push(':'); class.push_str(t); }
                        run.fail_k(class, format!("nitrogql-cli aborts with a stack overflow on project '{what}' (exit status {:?})", code),
                                   json!({"stream": "cli", "project": what, "schema": schema, "operations": ops, "exit_status": code, "stderr_head": err.chars().take(300).collect::<String>()}), usize::MAX);
                    } else
                    if panicked { *cli_stats.entry(format!("panic message on stderr with exit status {}", code.map(|c| c.to_string()).unwrap_or("signal".into()))).or_default() += 1; }
                    if !overflowed && ((code != Some(0) && code != Some(1)) || panicked) {
                        // "thread 'main' panicked at crates/.../x.rs:LINE:COL:\nmessage"
                        let (site, msg) = err.split("panicked at ").nth(1).map(|r| { let mut l = r.lines(); (l.next().unwrap_or("").trim_end_matches(':').to_string(), l.next().unwrap_or("").to_string()) }).unwrap_or(("?".into(), err.chars().take(200).collect()));
                        let file = norm_file(site.split(':').next().unwrap_or("?"));
                        let mut class = format!("panic:{}:{}", file, msg_key(&msg));
                        for t in tags { class.push(':'); class.push_str(t); }
                        run.fail_k(class, format!("nitrogql-cli panics on project '{what}' (exit status {:?}; a panic inside the CLI's async task is swallowed by the executor, so the status can even be 0): {}: {}", code, plain(&site), plain(&msg)),
                                 json!({"stream": "cli", "project": what, "schema": schema, "operations": ops, "config": cfg, "output_format": fmt, "exit_status": code, "stderr_head": err.chars().take(400).collect::<String>()}), usize::MAX);
                    }
                }
            }
            let _ = std::fs::remove_dir_all(&dir);
        }
        let _ = std::fs::remove_dir_all(&base);
    }

    run.cases.write(&args.out);
    let dist: J = json!({
        "stage_outcomes_by_stream": run.dist,
        "panics_by_class": run.per_class,
        "coq_render_cases": run.n_render_cases, "coq_parse_cases": run.n_parse_cases,
        "max_case_ms": run.max_ms as u64, "slow_cases": run.slow.iter().take(5).collect::<Vec<_>>(),
        "list_type_nesting_depth_ms": list_type_ms,
        "import_dag_depth_width_wildcard_ms": run.dag_ms,
        "cli_exit_codes": cli_stats, "per_case_time_limit_s": run.limit.as_secs(),
    });
    write_meta(&args.out, &json!({
        "evaluations": run.evaluations,
        "distinct_nontrivial": run.nontrivial,
        "rule": "one evaluation = one input text (or project) through every stage it reaches, each stage under catch_unwind, each case on its own thread with a wall-clock bound; distinct = distinct inputs; non-trivial = the input has at least three lexical tokens",
        "samples": run.samples,
        "distribution": dist,
        "direct_failures": run.direct,
    }));
}
