//! C18 — CLI status, diagnostics and written files.
//!
//! For generated projects (a gen.rs schema split over 1–3 files, 1–3 operation files with imports, k injected
//! faults, generate options) this binary
//!   1. writes the project into a scratch directory (given with --scratch, outside /repo and /verif),
//!   2. runs the pipeline *in process* with the real crates of /repo, stage by stage as crates/cli/src/main.rs and
//!      check.rs do, and records what each stage answers for each file (the stage oracles of coq/C18/Model.v),
//!   3. runs the real `nitrogql-cli` binary (--cli) in that directory for several command lists and the three
//!      output formats, with a directory snapshot before and after,
//!   4. prints every run as a Coq term: the model is evaluated on the stage answers and compared with the
//!      process' exit code, stdout, stderr and the set of files it created (agree), and the property is
//!      evaluated on what the process did (holds).
use graphql_builtins::generate_builtins;
use nitrogql_ast::base::Pos;
use nitrogql_ast::{set_current_file_of_pos, OperationDocument, TypeSystemOrExtensionDocument};
use nitrogql_checker::{check_operation_document, check_type_system_document, CheckError, CheckErrorMessage, OperationCheckContext};
use nitrogql_plugin::{ModelPlugin, Plugin, PluginHost};
use nitrogql_config_file::parse_config;
use nitrogql_error::PositionedError;
use nitrogql_parser::{parse_operation_document, parse_type_system_document};
use nitrogql_printer::{
    print_types_for_operation_document, GraphQLPrinter, OperationTypePrinterOptions, ResolverTypePrinter,
    ResolverTypePrinterOptions, SchemaTypePrinter, SchemaTypePrinterOptions,
};
use nitrogql_semantics::{
    ast_to_type_system, resolve_operation_extensions, resolve_operation_imports, resolve_schema_extensions,
    OperationExtension, OperationResolver,
};
use serde_json::{json, Value};
use sourcemap_writer::{JsStringWriter, SourceWriter};
use std::collections::{BTreeMap, BTreeSet, HashMap};
use std::fmt::Write as _;
use std::fs;
use std::panic::AssertUnwindSafe;
use std::path::{Path, PathBuf};
use std::process::{Command, Stdio};
use verif_harness::gen as g;
use verif_harness::*;

#[path = "/repo/crates/cli/src/builtins.rs"]
#[allow(dead_code)]
mod cli_builtins;
use cli_builtins::{nitrogql_builtins, remove_builtins};

// ------------------------------------------------------------------------------------------------
// Coq printing

/// `str` term; printable ASCII and '\n' go into a Coq string literal
fn cq_str(s: &str) -> String {
    if s.chars().all(|c| (' '..='~').contains(&c) || c == '\n') {
        let mut o = String::with_capacity(s.len() + 8);
        o.push_str("(s \"");
        for c in s.chars() { if c == '"' { o.push_str("\"\""); } else { o.push(c); } }
        o.push_str("\")");
        o
    } else {
        let mut o = String::from("[");
        for (i, c) in s.chars().enumerate() { if i > 0 { o.push(';'); } let _ = write!(o, "{}", c as u32); }
        o.push_str("]%N");
        o
    }
}
fn cq_strs(xs: &[String]) -> String { coq_list(xs, |x| cq_str(x)) }

#[derive(Clone, Debug)]
struct PE { msg: String, pos: Option<(usize, usize, usize, bool)>, add: Vec<((usize, usize, usize, bool), String)> }

fn cq_pos(p: &(usize, usize, usize, bool)) -> String {
    format!("(mkpos {} {} {} {})", coq_n(p.0 as u64), coq_n(p.1 as u64), coq_n(p.2 as u64), coq_bool(p.3))
}
fn cq_pe(e: &PE) -> String {
    format!("(mkerr {} {} {})", cq_str(&e.msg), coq_opt(&e.pos, cq_pos),
        coq_list(&e.add, |(p, m)| format!("({}, {})", cq_pos(p), cq_str(m))))
}
fn cq_ope(e: &Option<PE>) -> String { coq_opt(e, cq_pe) }
fn pe_json(e: &PE) -> Value { json!({"message": e.msg, "pos": e.pos.map(|p| json!([p.0, p.1, p.2, p.3])), "additional": e.add.iter().map(|(p, m)| json!([[p.0, p.1, p.2, p.3], m])).collect::<Vec<_>>()}) }

#[derive(Clone, Debug)]
enum Step { Ok, Err(PE), Panic(String) }
fn cq_step(s: &Step) -> String { match s { Step::Ok => "SOk".into(), Step::Err(e) => format!("(SErr {})", cq_pe(e)), Step::Panic(_) => "SPanic".into() } }

// ------------------------------------------------------------------------------------------------
// PositionedError -> (message, position, additional info), the last through the verification hook
// PositionedError::verif_additional_info (cfg nitrogql_verif), so the real `From<…> for PositionedError`
// impls are what is observed.

fn tp(p: &Pos) -> (usize, usize, usize, bool) { (p.line, p.column, p.file, p.builtin) }

fn pe(e: PositionedError) -> PE {
    let pos = e.position().map(|p| tp(&p));
    let add = e.verif_additional_info().into_iter().map(|(p, m)| (tp(&p), m)).collect();
    let msg = format!("{}", e.into_inner());
    PE { msg, pos, add }
}

// ------------------------------------------------------------------------------------------------
// projects

#[derive(Clone, Debug)]
struct Fault { kind: String, stage: u32, files: Vec<String>, known: Vec<String>, via: Option<String> }

#[derive(Clone, Debug, Default)]
struct GenCfg {
    mode: usize,                       // 0 ts5.0, 1 ts4.0, 2 standalone
    schema_output: Option<String>,
    server_output: Option<String>,
    resolvers_output: Option<String>,
    module_specifier: Option<String>,
    emit_runtime: bool,
    scalars: Vec<(String, String)>,
}
const MODES: [&str; 3] = ["with-loader-ts-5.0", "with-loader-ts-4.0", "standalone-ts-4.0"];
const MODE_EXT: [&str; 3] = ["d.graphql.ts", "graphql.d.ts", "graphql.ts"];
const MODE_COQ: [&str; 3] = ["WithLoaderTS50", "WithLoaderTS40", "StandaloneTS40"];

#[derive(Clone, Debug)]
struct Project {
    name: String,
    schema_files: Vec<(String, String)>,    // (relative path, content)
    op_files: Vec<(String, String)>,
    plugins: Vec<String>,
    gen: GenCfg,
    yaml_override: Option<String>,           // a config text used instead of the rendered one (invalid config fault)
    faults: Vec<Fault>,
    schema_glob: Option<String>,
    docs_glob: Option<String>,
}

impl Project {
    fn yaml(&self) -> String {
        if let Some(y) = &self.yaml_override { return y.clone(); }
        let mut y = String::new();
        if let Some(sg) = &self.schema_glob { let _ = writeln!(y, "schema: \"{sg}\""); }
        if let Some(dg) = &self.docs_glob { let _ = writeln!(y, "documents: \"{dg}\""); }
        y.push_str("extensions:\n  nitrogql:\n");
        if !self.plugins.is_empty() {
            y.push_str("    plugins:\n");
            for p in &self.plugins { let _ = writeln!(y, "      - \"{p}\""); }
        }
        y.push_str("    generate:\n");
        let _ = writeln!(y, "      mode: {}", MODES[self.gen.mode]);
        if let Some(o) = &self.gen.schema_output { let _ = writeln!(y, "      schemaOutput: \"{o}\""); }
        if let Some(o) = &self.gen.server_output { let _ = writeln!(y, "      serverGraphqlOutput: \"{o}\""); }
        if let Some(o) = &self.gen.resolvers_output { let _ = writeln!(y, "      resolversOutput: \"{o}\""); }
        if let Some(o) = &self.gen.module_specifier { let _ = writeln!(y, "      schemaModuleSpecifier: \"{o}\""); }
        if self.gen.emit_runtime { y.push_str("      emitSchemaRuntime: true\n"); }
        if !self.gen.scalars.is_empty() {
            y.push_str("      type:\n        scalarTypes:\n");
            for (k, v) in &self.gen.scalars { let _ = writeln!(y, "          {k}: \"{v}\""); }
        }
        y
    }
}

fn abs(root: &Path, rel: &str) -> String { root.join(rel).to_string_lossy().to_string() }

const FAULT_KINDS: &[&str] = &[
    "schema-stray-brace", "schema-bad-char", "op-stray-brace", "op-bad-char", "op-eof-unclosed-nonl",
    "schema-unknown-type", "schema-duplicate", "schema-extend-missing",
    "op-unknown-field", "op-unknown-fragment", "op-import-missing-file", "op-import-missing-fragment", "op-wildcard-twice",
    "gen-missing-schema-output", "gen-emit-runtime-dts", "cfg-unknown-plugin", "cfg-invalid", "cfg-no-schema",
    "schema-plugin-misuse", "gen-output-without-file-name", "schema-eof-unclosed", "op-eof-unclosed",
    // faults deep inside nested blocks, next to blank lines, behind tabs or wide white space (what message_for_line's
    // common-indentation logic has to cope with)
    "gen-scalar-type-missing", "op-invalid-unspread-fragment",
    // a fault inside an #import-ed fragment: its diagnostic is produced while the importing document is checked but is
    // positioned in (and has to name) the fragment's file — one and two levels of import, by name and by wildcard
    "import1-frag-undeclared-variable", "import2-frag-undeclared-variable", "import1-frag-unknown-field", "import2-frag-unknown-field",
    "op-deep-unknown-field", "op-deep-syntax", "op-deep-tabs", "op-wide-space-syntax", "schema-deep-unknown-type", "schema-deep-wide-doc",
];
/// faults whose handling by the current code violates the property (known findings; kept in dedicated projects) — none at present
const KNOWN_FAULT_KINDS: &[&str] = &[];

struct Built { proj: Project, docs: Vec<g::Doc>, schema: g::Schema, extra_ops: Vec<(String, String)> }

fn base_project(rng: &mut Rng, idx: usize, thorough: bool, at_least_two: bool) -> Built {
    let with_desc = rng.chance(1, 2);
    let schema = g::gen_schema(rng, &g::SchemaCfg { descriptions: with_desc, custom_directives: true });
    // split the schema over 1–3 files
    let nf = rng.range(if at_least_two { 2 } else { 1 }, 3);
    let mut sets: Vec<BTreeSet<usize>> = vec![BTreeSet::new(); nf];
    sets[0].insert(usize::MAX);
    // every file gets at least one definition (a file with comments only is not a GraphQL document)
    for i in 0..schema.types.len() { let k = if i < nf { i } else { rng.below(nf) }; sets[k].insert(i); }
    let names = ["schema/a.graphql", "schema/b.graphql", "schema/c.graphql"];
    let mut schema_files = vec![];
    for (k, set) in sets.iter().enumerate() {
        let mut text = g::render_schema(&schema, Some(set));
        if text.is_empty() { text = "# nothing here\n".into(); }
        schema_files.push((names[k].to_string(), text));
    }
    // operation files
    let nd = rng.range(if at_least_two { 2 } else { 1 }, if thorough { 4 } else { 3 });
    let mut docs = vec![];
    for _ in 0..nd {
        let cfg = g::DocCfg { max_depth: 3, shorthand: rng.chance(1, 4), ..Default::default() };
        docs.push(g::gen_doc(rng, &schema, &cfg));
    }
    let scalars: Vec<(String, String)> = schema.types.iter().filter(|t| matches!(t.kind, g::Kind::Scalar))
        .map(|t| (t.name.clone(), (*rng.pick(&["string", "number", "unknown", "Date"])).to_string())).collect();
    let mut gen = GenCfg { mode: rng.below(3), schema_output: Some((*rng.pick(&["generated/schema.d.ts", "src/schema.ts", "schema.d.ts", "out/deep/dir/types.d.ts", "./generated/schema.d.ts", "out/../gen/schema.ts", "@ABS@/abs/schema.d.ts"])).to_string()), scalars, ..Default::default() };
    if rng.chance(1, 3) { gen.server_output = Some((*rng.pick(&["generated/graphql.ts", "server/schema.js"])).to_string()); }
    if rng.chance(1, 3) { gen.resolvers_output = Some((*rng.pick(&["generated/resolvers.d.ts", "src/resolvers.ts", "./src/./resolvers.d.ts"])).to_string()); }
    if rng.chance(1, 6) { gen.module_specifier = Some("@/generated/schema".into()); if rng.chance(1, 2) { gen.schema_output = None; gen.resolvers_output = gen.resolvers_output.take(); } }
    if rng.chance(1, 6) && gen.schema_output.as_deref().map_or(true, |o| !o.ends_with(".d.ts")) { gen.emit_runtime = true; }
    let plugins: Vec<String> = if rng.chance(1, 5) { vec!["nitrogql:model-plugin".into()] } else { vec![] };
    let proj = Project {
        name: format!("p{idx}"), schema_files, op_files: vec![], plugins, gen, yaml_override: None, faults: vec![],
        schema_glob: Some("schema/*.graphql".into()), docs_glob: Some("ops/*.graphql".into()),
    };
    Built { proj, docs, schema, extra_ops: vec![] }
}

/// renders the documents into operation files; fragments of some documents move into a separate imported file
fn render_ops(rng: &mut Rng, b: &mut Built, prefix: &mut Vec<Vec<String>>, suffix: &mut Vec<String>) {
    let mut files: Vec<(String, String)> = vec![];
    for (i, d) in b.docs.iter().enumerate() {
        let main = format!("ops/q{i}.graphql");
        let mut text = String::new();
        for l in &prefix[i] { text.push_str(l); text.push('\n'); }
        if !d.frags.is_empty() && !d.ops.is_empty() && rng.chance(1, 2) {
            // all fragment definitions go to a second file (they may spread each other)
            let ffile = format!("ops/q{i}_fragments.graphql");
            let only_ops = g::Doc { ops: d.ops.clone(), frags: vec![], features: vec![] };
            let only_frags = g::Doc { ops: vec![], frags: d.frags.clone(), features: vec![] };
            if rng.chance(1, 2) { let _ = writeln!(text, "#import * from \"./q{i}_fragments.graphql\""); }
            else { let _ = writeln!(text, "#import {} from \"./q{i}_fragments.graphql\"", d.frags.iter().map(|f| f.name.clone()).collect::<Vec<_>>().join(", ")); }
            text.push_str(&only_ops.render());
            text.push_str(&suffix[i]);
            files.push((main, text));
            files.push((ffile, only_frags.render()));
        } else {
            text.push_str(&d.render());
            text.push_str(&suffix[i]);
            files.push((main, text));
        }
    }
    b.proj.op_files = files;
}

fn line_starts_matching(text: &str, pred: impl Fn(&str) -> bool) -> Vec<usize> {
    // byte offsets of the starts of the lines satisfying pred
    let mut out = vec![]; let mut off = 0;
    for l in text.split_inclusive('\n') { if pred(l.trim_end_matches('\n')) { out.push(off); } off += l.len(); }
    out
}

/// injects one fault; returns false when the kind is not applicable to this project
fn inject(rng: &mut Rng, root: &Path, b: &mut Built, kind: &str, prefix: &mut Vec<Vec<String>>, suffix: &mut Vec<String>, serial: usize, force: Option<usize>) -> bool {
    let ns = b.proj.schema_files.len();
    let nd = b.docs.len();
    let (sj, dj) = match force { Some(i) => (i % ns, i % nd), None => (rng.below(ns), rng.below(nd)) };
    let sfile = abs(root, &b.proj.schema_files[sj].0);
    let dfile = abs(root, &format!("ops/q{dj}.graphql"));
    let mut f = Fault { kind: kind.to_string(), stage: 0, files: vec![], known: vec![], via: None };
    match kind {
        "schema-stray-brace" => {
            let t = &mut b.proj.schema_files[sj].1;
            let cands = line_starts_matching(t, |l| l == "}");
            // (a brace appended after an unclosed definition would repair it: put it first then)
            match if t.contains("Unclosed") { 0 } else { rng.below(3) } {
                0 => t.insert_str(0, "}\n"),
                1 if !cands.is_empty() => { let at = *rng.pick(&cands); t.insert_str(at, "}\n"); }
                _ => t.push_str("}\n"),
            }
            f.stage = 1; f.files = vec![sfile];
        }
        "schema-bad-char" => {
            let t = &mut b.proj.schema_files[sj].1;
            let idxs: Vec<usize> = t.match_indices(" {\n").map(|(i, _)| i).collect();
            if idxs.is_empty() { t.push_str("type ? {\n  a: Int\n}\n"); } else { let at = *rng.pick(&idxs); t.insert_str(at + 2, " ?"); }
            f.stage = 1; f.files = vec![sfile];
        }
        "schema-eof-unclosed" => {
            b.proj.schema_files[sj].1.push_str(&format!("type Unclosed{serial} {{\n  a: Int\n"));
            f.stage = 1; f.files = vec![sfile];
        }
        "op-stray-brace" => {
            if suffix[dj].contains("Unclosed") || rng.chance(1, 2) { prefix[dj].insert(0, "}".into()); } else { suffix[dj].push_str("}\n"); }
            f.stage = 2; f.files = vec![dfile];
        }
        "op-bad-char" => {
            suffix[dj].push_str(&format!("query Bad{serial} {{\n  __typename ?\n}}\n"));
            f.stage = 2; f.files = vec![dfile];
        }
        "op-eof-unclosed" => {
            suffix[dj].push_str(&format!("query Unclosed{serial} {{\n  __typename\n"));
            f.stage = 2; f.files = vec![dfile];
        }
        "op-eof-unclosed-nonl" => {
            // the same fault without a final newline: the line of the error exists, so it is located
            if suffix[dj].ends_with("__typename") || suffix.iter().any(|s| s.contains("Unclosed")) { return false; }
            suffix[dj].push_str(&format!("query Unclosed{serial} {{\n  __typename"));
            f.stage = 2; f.files = vec![dfile];
        }
        "schema-unknown-type" => {
            b.proj.schema_files[sj].1.push_str(&format!("type Extra{serial} {{\n  zz: UndefinedType{serial}\n}}\n"));
            f.stage = 4; f.files = vec![sfile];
        }
        "schema-plugin-misuse" => {
            // the model plugin's own check (runs only when check_type_system_document has nothing to say)
            if !b.proj.plugins.iter().any(|p| p == "nitrogql:model-plugin") { b.proj.plugins.insert(0, "nitrogql:model-plugin".into()); }
            b.proj.schema_files[sj].1.push_str(&format!("type Modelled{serial} @model {{\n  a: Int\n}}\n"));
            f.stage = 5; f.files = vec![sfile];
        }
        "schema-twin-unknown-type" => {
            // the same diagnostic (same message, same line and column) in two schema files: line 1 of each
            if ns < 2 { return false; }
            let other = (sj + 1) % ns;
            b.proj.schema_files[sj].1.insert_str(0, &format!("type TwinA{serial} {{ zz: UndefTwin{serial} }}\n"));
            b.proj.schema_files[other].1.insert_str(0, &format!("type TwinB{serial} {{ zz: UndefTwin{serial} }}\n"));
            let ofile = abs(root, &b.proj.schema_files[other].0);
            f.stage = 4; f.files = vec![sfile];
            b.proj.faults.push(Fault { kind: "schema-twin-unknown-type".into(), stage: 4, files: vec![ofile], known: vec![], via: None });
        }
        "op-deep-unknown-field" | "op-deep-syntax" | "op-deep-tabs" | "op-wide-space-syntax" => {
            // three levels of inline fragments on the query root, blank lines between the fields, the fault on a deeply
            // indented line with an empty line on either side and every column-0 line at least three lines away
            if suffix[dj].contains("Unclosed") { return false; }
            let q = b.schema.query.clone();
            let unit = if kind == "op-deep-tabs" { "\t" } else { "  " };
            let ind = |n: usize| unit.repeat(n);
            let fault_line = match kind {
                "op-deep-syntax" => format!("{}$oops{serial}", ind(4)),
                "op-wide-space-syntax" => format!("{}zzWide{serial}", if rng.chance(1, 2) { "\u{3000}\u{3000}" } else { "\u{a0}\u{a0}\u{a0}" }),
                _ => format!("{}zzDeep{serial}", ind(4)),
            };
            let mut s = String::new();
            let _ = writeln!(s, "query Deep{serial} {{");
            let _ = writeln!(s, "{}... on {q} {{", ind(1));
            let _ = writeln!(s, "{}... on {q} {{", ind(2));
            let _ = writeln!(s, "{}... on {q} {{", ind(3));
            let _ = writeln!(s);
            let _ = writeln!(s, "{}__typename", ind(4));
            let _ = writeln!(s);
            let _ = writeln!(s, "{fault_line}");
            let _ = writeln!(s);
            let _ = writeln!(s, "{}__typename", ind(4));
            let _ = writeln!(s);
            let _ = writeln!(s, "{}}}", ind(3));
            let _ = writeln!(s, "{}}}", ind(2));
            let _ = writeln!(s, "{}}}", ind(1));
            let _ = writeln!(s, "}}");
            suffix[dj].push_str(&s);
            f.stage = if kind == "op-deep-syntax" || kind == "op-wide-space-syntax" { 2 } else { 8 };
            f.files = vec![dfile];
        }
        "schema-deep-unknown-type" | "schema-deep-wide-doc" => {
            // blank lines inside a type body, the fault on an indented field line three lines away from the braces
            let t = &mut b.proj.schema_files[sj].1;
            if t.contains("Unclosed") { return false; }
            let mut s = String::new();
            let _ = writeln!(s, "type DeepType{serial} {{");
            let _ = writeln!(s, "    a: Int");
            let _ = writeln!(s);
            let _ = writeln!(s, "    b: Int");
            let _ = writeln!(s);
            if kind == "schema-deep-wide-doc" {
                // a block-string description whose lines are indented with wide white space
                let _ = writeln!(s, "    \"\"\"");
                let _ = writeln!(s, "\u{3000}\u{3000}wide\u{a0}doc");
                let _ = writeln!(s, "    \"\"\"");
            }
            let _ = writeln!(s, "    zz: UndefDeep{serial}");
            let _ = writeln!(s);
            let _ = writeln!(s, "    c: Int");
            let _ = writeln!(s);
            let _ = writeln!(s, "    d: Int");
            let _ = writeln!(s, "}}");
            t.push_str(&s);
            f.stage = 4; f.files = vec![sfile];
        }
        "import1-frag-undeclared-variable" | "import2-frag-undeclared-variable" | "import1-frag-unknown-field" | "import2-frag-unknown-field" => {
            let q = b.schema.query.clone();
            let two = kind.starts_with("import2");
            let by_name = serial % 2 == 0;
            let n = serial;
            // the fragment file: comment lines first, so that its line numbers do not exist in the short importing file
            let mut fr = String::new();
            for k in 0..rng.range(5, 8) { let _ = writeln!(fr, "# fragments of imp{n}.graphql, line {k}"); }
            let _ = writeln!(fr);
            let _ = writeln!(fr, "fragment ImpF{n} on {q} {{");
            let _ = writeln!(fr, "  __typename");
            if kind.ends_with("undeclared-variable") {
                // valid on its own (variable uses of a fragment nothing spreads are not checked); the importing
                // operation does not declare the variable
                let _ = writeln!(fr, "  again{n}: __typename @include(if: $undeclared{n})");
            } else {
                let _ = writeln!(fr, "  zzImported{n}");
            }
            let _ = writeln!(fr, "}}");
            let frag_file = format!("ops/imp{n}_frags.graphql");
            let mut files = vec![(frag_file.clone(), fr)];
            let imp = |names: &str, by_name: bool, from: &str| if by_name { format!("#import {names} from \"./{from}\"\n") } else { format!("#import * from \"./{from}\"\n") };
            let top_from;
            let top_names;
            if two {
                let mid = format!("#\n{}fragment ImpMid{n} on {q} {{\n  ...ImpF{n}\n}}\n", imp(&format!("ImpF{n}"), !by_name, &format!("imp{n}_frags.graphql")));
                files.push((format!("ops/imp{n}_mid.graphql"), mid));
                top_from = format!("imp{n}_mid.graphql"); top_names = format!("ImpMid{n}");
            } else { top_from = format!("imp{n}_frags.graphql"); top_names = format!("ImpF{n}"); }
            let top = format!("{}query ImpQ{n} {{\n  ...{top_names}\n}}\n", imp(&top_names, by_name, &top_from));
            files.push((format!("ops/imp{n}.graphql"), top));
            b.extra_ops.extend(files);
            f.stage = 8; f.files = vec![abs(root, &frag_file)];
        }
        "schema-duplicate" => {
            // a second definition of an object type that exists somewhere in the schema
            let Some(victim) = b.schema.types.iter().find(|t| matches!(t.kind, g::Kind::Object { .. })).map(|t| t.name.clone()) else { return false };
            let holder = b.proj.schema_files.iter().find(|(_, text)| text.contains(&format!("type {victim} "))).map(|(n, _)| abs(root, n));
            b.proj.schema_files[sj].1.push_str(&format!("type {victim} {{\n  dupe{serial}: Int\n}}\n"));
            f.stage = 3; f.files = vec![sfile]; if let Some(h) = holder { if !f.files.contains(&h) { f.files.push(h); } }
        }
        "schema-extend-missing" => {
            b.proj.schema_files[sj].1.push_str(&format!("extend type NoSuchType{serial} {{\n  a: Int\n}}\n"));
            f.stage = 3; f.files = vec![sfile];
        }
        "op-unknown-field" => {
            let cands: Vec<usize> = (0..b.docs[dj].ops.len()).filter(|k| b.docs[dj].ops[*k].kind != "subscription").collect();
            if cands.is_empty() { return false; }
            let k = *rng.pick(&cands);
            b.docs[dj].ops[k].sel.push(g::Sel::Field { alias: None, name: format!("zzUnknown{serial}"), args: vec![], dirs: vec![], sub: None });
            f.stage = 8; f.files = vec![dfile];
        }
        "op-unknown-fragment" => {
            let cands: Vec<usize> = (0..b.docs[dj].ops.len()).filter(|k| b.docs[dj].ops[*k].kind != "subscription").collect();
            if cands.is_empty() { return false; }
            let k = *rng.pick(&cands);
            b.docs[dj].ops[k].sel.push(g::Sel::Spread { name: format!("MissingFragment{serial}"), dirs: vec![] });
            f.stage = 8; f.files = vec![dfile];
        }
        "op-import-missing-file" => {
            prefix[dj].push(format!("#import * from \"./nope{serial}.graphql\""));
            f.stage = 7; f.files = vec![dfile];
        }
        "op-import-missing-fragment" => {
            if nd < 2 { return false; }
            let other = (dj + 1) % nd;
            prefix[dj].push(format!("#import Zzz{serial} from \"./q{other}.graphql\""));
            f.stage = 7; f.files = vec![dfile]; f.via = Some(abs(root, &format!("ops/q{other}.graphql")));
        }
        "op-wildcard-twice" => {
            if nd < 2 { return false; }
            let other = (dj + 1) % nd;
            prefix[dj].push(format!("#import *, * from \"./q{other}.graphql\""));
            f.stage = 6; f.files = vec![dfile];
        }
        "op-invalid-unspread-fragment" => {
            // a fragment definition nothing spreads, selecting a field that does not exist (checked on its own since c67e45e)
            let q = b.schema.query.clone();
            suffix[dj].push_str(&format!("fragment Unused{serial} on {q} {{\n  zzNowhere{serial}\n}}\n"));
            f.stage = 8; f.files = vec![dfile];
        }
        // run_generate meets generate-stage faults in this order: the two option errors (stage 9, no file to name), the
        // printers (stage 10: a scalar without a TypeScript type, located), writing (stage 11: no file name for the map).
        // The three option/output faults overwrite each other's configuration, so a project gets at most one of them.
        "gen-missing-schema-output" | "gen-output-without-file-name" | "gen-emit-runtime-dts"
            if b.proj.faults.iter().any(|x| matches!(x.kind.as_str(), "gen-missing-schema-output" | "gen-output-without-file-name" | "gen-emit-runtime-dts")) => { return false; }
        "gen-missing-schema-output" => { b.proj.gen.schema_output = None; b.proj.gen.module_specifier = None; f.stage = 9; }
        "gen-output-without-file-name" => { b.proj.gen.schema_output = Some("generated/..".into()); b.proj.gen.emit_runtime = false; f.stage = 11; }
        "gen-emit-runtime-dts" => { b.proj.gen.schema_output = Some("generated/schema.d.ts".into()); b.proj.gen.emit_runtime = true; f.stage = 9; }
        "gen-scalar-type-missing" => {
            // (when the missing-output fault is there the configuration stays without output: that error comes first)
            let no_output_fault = b.proj.faults.iter().any(|x| x.kind == "gen-missing-schema-output");
            if b.proj.gen.schema_output.is_none() && !no_output_fault { b.proj.gen.schema_output = Some("generated/schema.d.ts".into()); b.proj.gen.emit_runtime = false; }
            // make sure there is a custom scalar, and configure no TypeScript type for any
            if b.proj.gen.scalars.is_empty() { b.proj.schema_files[sj].1.push_str(&format!("scalar Stamp{serial}\n")); }
            b.proj.gen.scalars.clear(); b.proj.gen.server_output = None;
            // the printer's error carries the position of the scalar definition (the first scalar without a type): one of the
            // files declaring a scalar has to be named
            f.files = b.proj.schema_files.iter().filter(|(_, t)| t.lines().any(|l| l.starts_with("scalar "))).map(|(n, _)| abs(root, n)).collect();
            f.stage = 10;
        }
        "cfg-unknown-plugin" => { b.proj.plugins.push(format!("no-such-plugin-{serial}")); f.stage = 0; }
        "cfg-invalid" => { b.proj.yaml_override = Some("schema: [\n".into()); f.stage = 0; }
        "cfg-no-schema" => { b.proj.schema_glob = None; f.stage = 0; }
        _ => return false,
    }
    b.proj.faults.push(f);
    true
}

// ------------------------------------------------------------------------------------------------
// the pipeline in process: what each stage answers

#[derive(Default)]
struct Oracles {
    schema_parse: Vec<Option<PE>>,
    op_parse: Vec<Option<PE>>,
    sch_resolve: Option<PE>,
    sch_check: Vec<PE>,
    sch_plugin_check: Vec<PE>,
    virtual_files: Vec<String>,
    op_ext: Vec<Option<PE>>,
    op_imp: Vec<Option<PE>>,
    op_check: Vec<Vec<PE>>,
    print_schema: Option<Step>,
    print_server: Option<Step>,
    print_resolvers: Option<Step>,
    op_print: Vec<Step>,
    config_ok: bool,
    reached: &'static str,
}

struct Ops<'a, 'src> { map: HashMap<&'a Path, (&'a OperationDocument<'src>, &'a OperationExtension<'src>)> }
impl<'src> OperationResolver<'src> for Ops<'_, 'src> {
    fn resolve(&self, path: &Path) -> Option<(&OperationDocument<'src>, &OperationExtension<'src>)> { self.map.get(path).copied() }
}

struct Host { files: Vec<&'static str> }
impl PluginHost for Host {
    fn load_virtual_file(&mut self, content: String) -> &'static str { let s: &'static str = Box::leak(content.into_boxed_str()); self.files.push(s); s }
}

/// cli/src/generate.rs `positioned`: a printer error keeps the position it is about
fn positioned<E: std::error::Error + Send + Sync + 'static>(position: Pos, error: E) -> PositionedError { PositionedError::new(error.into(), Some(position), vec![]) }

fn leak(s: &str) -> &'static str { Box::leak(s.to_string().into_boxed_str()) }

fn step_of<T>(r: Result<Result<T, PE>, String>) -> Step { match r { Ok(Ok(_)) => Step::Ok, Ok(Err(e)) => Step::Err(e), Err(p) => Step::Panic(p) } }

/// schema files and operation files with absolute paths, in file-store order
fn oracles(yaml: &str, schema: &[(String, String)], ops: &[(String, String)], plugin_names: &[String]) -> Oracles {
    let mut o = Oracles::default();
    let ns = schema.len();
    o.schema_parse = vec![None; ns];
    o.op_parse = vec![None; ops.len()];
    o.op_ext = vec![None; ops.len()];
    o.op_imp = vec![None; ops.len()];
    o.op_check = vec![vec![]; ops.len()];
    o.op_print = vec![Step::Ok; ops.len()];
    let config = parse_config(yaml);
    o.config_ok = config.is_some();
    o.reached = "parse";
    // parse
    let mut sdocs = vec![];
    for (i, (_, text)) in schema.iter().enumerate() {
        set_current_file_of_pos(i);
        match parse_type_system_document(leak(text)) { Ok(d) => sdocs.push(d), Err(e) => o.schema_parse[i] = Some(pe(e.into())) }
    }
    if o.schema_parse.iter().any(|x| x.is_some()) {
        // the CLI stops here; operation files are never parsed
        return o;
    }
    // merge, built-ins, plugin additions (each becomes a virtual file of the store, after the schema files)
    let plugins: Vec<Plugin> = plugin_names.iter().filter(|n| n.as_str() == "nitrogql:model-plugin").map(|_| Plugin::new(Box::new(ModelPlugin {}))).collect();
    let mut merged = TypeSystemOrExtensionDocument::merge(sdocs);
    merged.extend(generate_builtins());
    merged.extend(nitrogql_builtins());
    let mut host = Host { files: vec![] };
    for pl in &plugins {
        if let Ok(Some(add)) = pl.schema_addition(&mut host) { merged.extend(add.definitions); }
    }
    o.virtual_files = host.files.iter().map(|s| s.to_string()).collect();
    let nv = o.virtual_files.len();
    let mut odocs = vec![];
    for (i, (_, text)) in ops.iter().enumerate() {
        set_current_file_of_pos(ns + nv + i);
        match parse_operation_document(leak(text)) { Ok(d) => odocs.push(d), Err(e) => o.op_parse[i] = Some(pe(e.into())) }
    }
    if o.op_parse.iter().any(|x| x.is_some()) { return o; }
    o.reached = "schema";
    let resolved = match resolve_schema_extensions(merged) { Ok(d) => d, Err(e) => { o.sch_resolve = Some(pe(e.into())); return o; } };
    o.sch_check = check_type_system_document(&resolved).into_iter().map(|e| pe(e.into())).collect();
    if !o.sch_check.is_empty() { return o; }
    for pl in &plugins {
        for error in pl.check_schema(&resolved).errors {
            // the conversion resolve_schema (cli/src/check.rs) applies
            let ce = CheckError { position: error.position, message: CheckErrorMessage::Plugin { message: error.message },
                additional_info: error.additional_info.into_iter().map(|(pos, message)| (pos, CheckErrorMessage::Plugin { message })).collect() };
            o.sch_plugin_check.push(pe(ce.into()));
        }
    }
    if !o.sch_plugin_check.is_empty() { return o; }
    o.reached = "operations";
    let ts = ast_to_type_system(&resolved);
    let mut exts = vec![];
    for (i, d) in odocs.into_iter().enumerate() {
        match resolve_operation_extensions(d) { Ok(x) => exts.push(Some(x)), Err(e) => { o.op_ext[i] = Some(pe(e.into())); exts.push(None); } }
    }
    if o.op_ext.iter().any(|x| x.is_some()) { return o; }
    let exts: Vec<(PathBuf, OperationDocument, OperationExtension)> = exts.into_iter().enumerate().map(|(i, x)| { let (d, e) = x.unwrap(); (PathBuf::from(&ops[i].0), d, e) }).collect();
    let resolver = Ops { map: exts.iter().map(|(p, d, e)| (p.as_path(), (d, e))).collect() };
    let mut full = vec![];
    for (i, (p, d, e)) in exts.iter().enumerate() {
        match resolve_operation_imports((p.as_path(), d, e), &resolver) { Ok(d) => full.push(Some(d)), Err(e) => { o.op_imp[i] = Some(pe(e.into())); full.push(None); } }
    }
    if o.op_imp.iter().any(|x| x.is_some()) { return o; }
    let full: Vec<OperationDocument> = full.into_iter().map(|x| x.unwrap()).collect();
    let cctx = OperationCheckContext::new(&ts);
    for (i, d) in full.iter().enumerate() {
        o.op_check[i] = check_operation_document(d, &cctx).into_iter().map(|e| pe(e.into())).collect();
    }
    if o.op_check.iter().any(|x| !x.is_empty()) { return o; }
    // generate: the printer calls
    o.reached = "generate";
    let Some(config) = config else { return o };
    o.print_schema = Some(step_of(catch(AssertUnwindSafe(|| {
        let mut w = SourceWriter::new();
        SchemaTypePrinter::new(SchemaTypePrinterOptions::from_config(&config), &mut w).print_document(&resolved).map_err(|e| pe(positioned(e.position(), e)))
    }))));
    o.print_server = Some(step_of(catch(AssertUnwindSafe(|| {
        let mut buffer = String::new();
        let mut w = JsStringWriter::new(&mut buffer);
        let doc = plugins.iter().fold(remove_builtins(&resolved), |doc, pl| match pl.transform_document_for_runtime_server(&doc) { Some(next) => next, None => doc });
        doc.print_graphql(&mut w);
        Ok::<(), PE>(())
    }))));
    o.print_resolvers = Some(step_of(catch(AssertUnwindSafe(|| {
        let mut w = SourceWriter::new();
        let mut options = ResolverTypePrinterOptions::from_config(&config);
        options.schema_source = "./schema".into();
        ResolverTypePrinter::new(options, &mut w).print_document(&resolved, &plugins).map_err(|e| pe(positioned(e.position(), e)))
    }))));
    for (i, d) in full.iter().enumerate() {
        o.op_print[i] = step_of(catch(AssertUnwindSafe(|| {
            let mut w = SourceWriter::new();
            let mut options = OperationTypePrinterOptions::from_config(&config);
            options.schema_source = "./schema".into();
            print_types_for_operation_document(options, &ts, d, &mut w);
            Ok::<(), PE>(())
        })));
    }
    o
}

// ------------------------------------------------------------------------------------------------
// running the real binary

fn fnv(data: &[u8]) -> u64 { let mut h = 0xcbf29ce484222325u64; for b in data { h ^= *b as u64; h = h.wrapping_mul(0x100000001b3); } h }

fn snapshot(root: &Path) -> BTreeMap<String, (u64, u64, u128)> {
    fn walk(dir: &Path, out: &mut BTreeMap<String, (u64, u64, u128)>) {
        let Ok(rd) = fs::read_dir(dir) else { return };
        for e in rd.flatten() {
            let p = e.path();
            let Ok(md) = fs::symlink_metadata(&p) else { continue };
            if md.is_dir() { walk(&p, out); }
            else {
                let data = fs::read(&p).unwrap_or_default();
                let mt = md.modified().ok().and_then(|t| t.duration_since(std::time::UNIX_EPOCH).ok()).map(|d| d.as_nanos()).unwrap_or(0);
                out.insert(p.to_string_lossy().to_string(), (data.len() as u64, fnv(&data), mt));
            }
        }
    }
    let mut m = BTreeMap::new();
    walk(root, &mut m);
    m
}

struct RunObs { exit: i64, stdout: String, stderr: String, written: Vec<String>, disturbed: Vec<String> }

fn run_cli(cli: &Path, root: &Path, args: &[String]) -> RunObs {
    let before = snapshot(root);
    let out = Command::new(cli).current_dir(root).args(args).env_clear().env("NO_COLOR", "1").env("PATH", "/usr/bin:/bin")
        .stdin(Stdio::null()).output().expect("cannot run nitrogql-cli");
    let after = snapshot(root);
    let mut written = vec![]; let mut disturbed = vec![];
    for (p, v) in &after { match before.get(p) { None => written.push(p.clone()), Some(w) if w != v => disturbed.push(p.clone()), _ => {} } }
    for p in before.keys() { if !after.contains_key(p) { disturbed.push(p.clone()); } }
    // reset: remove what the run created
    for p in &written { let _ = fs::remove_file(p); }
    let exit = match out.status.code() { Some(c) => c as i64, None => 1000 };
    RunObs { exit, stdout: String::from_utf8_lossy(&out.stdout).to_string(), stderr: String::from_utf8_lossy(&out.stderr).to_string(), written, disturbed }
}

/// the files `generate` is configured to produce, computed with std::path (independently of the Coq model)
fn planned(root: &Path, p: &Project, op_paths: &[String]) -> Vec<String> {
    let mut out = vec![];
    let with_map = |path: PathBuf, out: &mut Vec<String>| {
        let mut m = path.clone().into_os_string(); m.push(".map");
        out.push(path.to_string_lossy().to_string()); out.push(PathBuf::from(m).to_string_lossy().to_string());
    };
    if let Some(o) = &p.gen.schema_output { with_map(root.join(o), &mut out); }
    if let Some(o) = &p.gen.server_output { out.push(root.join(o).to_string_lossy().to_string()); }
    if let Some(o) = &p.gen.resolvers_output { with_map(root.join(o), &mut out); }
    for op in op_paths { let mut q = PathBuf::from(op); q.set_extension(MODE_EXT[p.gen.mode]); with_map(q, &mut out); }
    out
}

// ------------------------------------------------------------------------------------------------

struct CaseOut { proj_def: String, proj_name: String, term: String, descr: Value }

fn main() {
    silence_panics();
    let args = parse_args();
    let thorough = args.tier == "thorough";
    let get = |k: &str| args.extra.iter().position(|a| a == k).and_then(|i| args.extra.get(i + 1)).cloned();
    let cli = PathBuf::from(get("--cli").expect("--cli <nitrogql-cli binary> is required"));
    let scratch = PathBuf::from(get("--scratch").expect("--scratch <dir outside /repo and /verif> is required"));
    let scratch = fs::canonicalize(&scratch).expect("scratch dir must exist");
    assert!(!scratch.starts_with("/repo") && !scratch.starts_with("/verif"), "scratch directory must be outside /repo and /verif");
    let mut rng = Rng::new(args.seed);
    let n_projects = if thorough { 1200 } else { 66 };
    let mut outs: Vec<CaseOut> = vec![];
    let mut stats: BTreeMap<String, u64> = BTreeMap::new();
    let mut bump = |k: &str, n: u64| { *stats.entry(k.to_string()).or_insert(0) += n; };
    let mut direct: Vec<Value> = vec![];
    let mut distinct: BTreeSet<u64> = BTreeSet::new();
    let mut nontrivial = 0u64;
    let mut serial = 0usize;

    for idx in 0..n_projects {
        let root = scratch.join(format!("p{idx}"));
        // which faults: the first faulty projects walk through the kinds one by one, then pairs of faults of one
        // stage in two different files ("every offending file, not only the first"), then random mixes
        let plan_kinds: Vec<&str> = FAULT_KINDS.iter().chain(KNOWN_FAULT_KINDS.iter()).copied().collect();
        const PAIRS: &[(&str, &str)] = &[("op-unknown-field", "op-unknown-fragment"), ("schema-unknown-type", "schema-unknown-type"),
            ("op-import-missing-file", "op-import-missing-file"), ("op-stray-brace", "op-bad-char"), ("op-wildcard-twice", "op-wildcard-twice"),
            ("op-unknown-field", "op-unknown-field"),
            // byte-identical copies of a faulty operation file: the same diagnostic at the same line and column in 2–3 files
            ("op-unknown-field", "@twin-op"), ("op-unknown-fragment", "@twin-op"),
            // the same unknown type on line 1 of two schema files
            ("schema-twin-unknown-type", "@none")];
        let mut kinds: Vec<(&str, Option<usize>)> = vec![];
        let mut pair = false;
        if idx % 3 == 0 { /* no fault */ }
        else {
            let j = (idx / 3) * 2 + (idx % 3) - 1;     // 0, 1, 2, … over the faulty projects
            if j < plan_kinds.len() {
                kinds.push((plan_kinds[j], None));
                if !KNOWN_FAULT_KINDS.contains(&plan_kinds[j]) && !plan_kinds[j].contains("deep") && !plan_kinds[j].contains("wide") && !plan_kinds[j].starts_with("import") && rng.chance(1, 3) { kinds.push((*rng.pick(FAULT_KINDS), None)); }
            } else if j < plan_kinds.len() + PAIRS.len() {
                let (a, c) = PAIRS[j - plan_kinds.len()];
                kinds.push((a, Some(0))); kinds.push((c, Some(1))); pair = true;
            } else if !KNOWN_FAULT_KINDS.is_empty() && rng.chance(1, 12) { kinds.push((*rng.pick(KNOWN_FAULT_KINDS), None)); }
            else if rng.chance(1, 3) { let (a, c) = *rng.pick(PAIRS); kinds.push((a, Some(0))); kinds.push((c, Some(1))); pair = true; }
            else { let k = rng.range(1, if thorough { 4 } else { 2 }); for _ in 0..k { kinds.push((*rng.pick(FAULT_KINDS), None)); } }
        }
        let mut b = base_project(&mut rng, idx, thorough, pair);
        if let Some(o) = &b.proj.gen.schema_output { if o.starts_with("@ABS@") { b.proj.gen.schema_output = Some(o.replace("@ABS@", &root.to_string_lossy())); } }
        let nd = b.docs.len();
        let mut prefix: Vec<Vec<String>> = vec![vec![]; nd];
        let mut suffix: Vec<String> = vec![String::new(); nd];
        let mut twin_ops = 0usize;
        for (k, force) in kinds {
            serial += 1;
            if k == "@none" { continue; }
            if k == "@twin-op" { twin_ops = rng.range(1, 2); continue; }
            if inject(&mut rng, &root, &mut b, k, &mut prefix, &mut suffix, serial, force) { bump(&format!("fault_{k}"), 1); }
        }
        // resolving the imports of a file descends into the imported file first: an import fault there is what gets
        // reported for the importing file too (positioned in the imported file)
        let stage7: Vec<String> = b.proj.faults.iter().filter(|f| f.stage == 7).flat_map(|f| f.files.first().cloned()).collect();
        for f in b.proj.faults.iter_mut() {
            if let Some(v) = &f.via { if stage7.contains(v) && !f.files.contains(v) { f.files.push(v.clone()); } }
        }
        render_ops(&mut rng, &mut b, &mut prefix, &mut suffix);
        let extra = std::mem::take(&mut b.extra_ops);
        b.proj.op_files.extend(extra);
        if twin_ops > 0 {
            // copies of the first operation file (the one the fault went into), byte for byte
            let src = b.proj.op_files.iter().find(|(n, _)| n == "ops/q0.graphql").map(|(_, t)| t.clone());
            let twin_faults: Vec<Fault> = b.proj.faults.iter().filter(|f| f.stage == 8 && f.files.first().map_or(false, |x| x.ends_with("/ops/q0.graphql"))).cloned().collect();
            if let (Some(src), false) = (src, twin_faults.is_empty()) {
                for c in 0..twin_ops {
                    let name = format!("ops/q0_twin{c}.graphql");
                    for tf in &twin_faults { b.proj.faults.push(Fault { kind: format!("{}-twin", tf.kind), stage: 8, files: vec![abs(&root, &name)], known: vec![], via: None }); }
                    b.proj.op_files.push((name, src.clone()));
                    bump("twin_operation_files", 1);
                }
            }
        }
        let p = b.proj.clone();
        bump(&format!("projects_with_{}_faults", p.faults.len().min(3)), 1);
        bump(&format!("schema_files_{}", p.schema_files.len()), 1);
        bump(&format!("operation_files_{}", p.op_files.len()), 1);

        // write the project
        let _ = fs::remove_dir_all(&root);
        fs::create_dir_all(root.join("schema")).unwrap();
        fs::create_dir_all(root.join("ops")).unwrap();
        let yaml = p.yaml();
        fs::write(root.join("graphql.config.yaml"), &yaml).unwrap();
        for (n, t) in p.schema_files.iter().chain(p.op_files.iter()) { fs::write(root.join(n), t).unwrap(); }

        // file-store order: globmatch returns the matched paths sorted
        let mut sfiles: Vec<(String, String)> = p.schema_files.iter().map(|(n, t)| (abs(&root, n), t.clone())).collect();
        let mut ofiles: Vec<(String, String)> = p.op_files.iter().map(|(n, t)| (abs(&root, n), t.clone())).collect();
        sfiles.sort_by(|a, b| PathBuf::from(&a.0).cmp(&PathBuf::from(&b.0)));
        ofiles.sort_by(|a, b| PathBuf::from(&a.0).cmp(&PathBuf::from(&b.0)));
        let no_schema_glob = p.schema_glob.is_none();
        let orc = oracles(&yaml, &sfiles, &ofiles, &p.plugins);
        bump(&format!("pipeline_reached_{}", orc.reached), 1);
        if let Some(Step::Panic(m)) = &orc.print_schema { bump("panic_print_schema", 1); let _ = m; }
        for s in &orc.op_print { if let Step::Panic(_) = s { bump("panic_print_operation", 1); } }
        let plan = planned(&root, &p, &ofiles.iter().map(|x| x.0.clone()).collect::<Vec<_>>());

        // the project as a Coq function of (commands, format)
        let pname = format!("pj{idx}");
        let mut def = String::new();
        let _ = writeln!(def, "Definition {pname} (cmds : list str) (f : fmt) : proj := mk_proj {} cmds f {} {} {}", cq_str(&root.to_string_lossy()),
            if orc.config_ok { "CfgOk".to_string() } else { format!("(CfgInvalid {})", cq_str(&abs(&root, "graphql.config.yaml"))) },
            cq_strs(&p.plugins), coq_bool(no_schema_glob));
        let _ = writeln!(def, "  {}", coq_list(&(0..sfiles.len()).collect::<Vec<_>>(), |i| format!("mk_schf {} {} {}", cq_str(&sfiles[*i].0), cq_str(&sfiles[*i].1), cq_ope(&orc.schema_parse[*i]))));
        let _ = writeln!(def, "  {}", coq_list(&orc.virtual_files, |c| format!("({}, {})", cq_str("(plugin)"), cq_str(c))));
        let _ = writeln!(def, "  {}", coq_list(&(0..ofiles.len()).collect::<Vec<_>>(), |i| format!("mk_opf {} {} {} {} {} {} {}", cq_str(&ofiles[*i].0), cq_str(&ofiles[*i].1),
            cq_ope(&orc.op_parse[*i]), cq_ope(&orc.op_ext[*i]), cq_ope(&orc.op_imp[*i]), coq_list(&orc.op_check[*i], cq_pe), cq_step(&orc.op_print[*i]))));
        let _ = writeln!(def, "  {} {} {}", cq_ope(&orc.sch_resolve), coq_list(&orc.sch_check, cq_pe), coq_list(&orc.sch_plugin_check, cq_pe));
        let _ = writeln!(def, "  (mk_gencfg {} {} {} {} {} {})", MODE_COQ[p.gen.mode], coq_opt(&p.gen.schema_output, |x| cq_str(x)), coq_opt(&p.gen.server_output, |x| cq_str(x)),
            coq_opt(&p.gen.resolvers_output, |x| cq_str(x)), coq_bool(p.gen.module_specifier.is_some()), coq_bool(p.gen.emit_runtime));
        let _ = writeln!(def, "  {} {} {}.", cq_step(orc.print_schema.as_ref().unwrap_or(&Step::Ok)), cq_step(orc.print_server.as_ref().unwrap_or(&Step::Ok)), cq_step(orc.print_resolvers.as_ref().unwrap_or(&Step::Ok)));
        let spec = format!("(mk_spec {} {})", coq_list(&p.faults, |f| format!("mk_fault {} {}", coq_n(f.stage as u64), cq_strs(&f.files))), cq_strs(&plan));

        // the runs
        let mut runs: Vec<(Vec<&str>, &str)> = vec![];
        for f in ["human", "json", "rdjson"] { runs.push((vec!["check"], f)); runs.push((vec!["generate"], f)); }
        let extras: [Vec<&str>; 7] = [vec!["check", "generate"], vec!["generate", "check"], vec!["check", "check"], vec!["frobnicate"], vec![], vec!["generate", "generate"], vec!["check", "frobnicate"]];
        let n_extra = if thorough { 2 } else { 1 };
        for _ in 0..n_extra { runs.push((rng.pick(&extras).clone(), *rng.pick(&["human", "json", "json", "rdjson"]))); }
        for (cmds, f) in runs {
            let mut argv: Vec<String> = vec!["--output-format".into(), f.into()];
            argv.extend(cmds.iter().map(|c| c.to_string()));
            let obs = run_cli(&cli, &root, &argv);
            bump("cli_runs", 1);
            bump(&format!("exit_{}", obs.exit), 1);
            bump(&format!("format_{f}"), 1);
            // command-sequence faults are part of the run, not of the project
            let mut faults = p.faults.clone();
            let mut state_resolved = false;
            if cmds.is_empty() { faults.push(Fault { kind: "usage-no-command".into(), stage: 0, files: vec![], known: vec![], via: None }); }
            for c in &cmds {
                match *c {
                    "check" => { if state_resolved { faults.push(Fault { kind: "usage-check-after-command".into(), stage: 12, files: vec![], known: vec![], via: None }); } state_resolved = true; }
                    "generate" => { state_resolved = true; }
                    _ => faults.push(Fault { kind: "usage-unknown-command".into(), stage: 12, files: vec![], known: vec![], via: None }),
                }
            }
            // generate-stage faults only count when generate runs
            let has_generate = cmds.iter().any(|c| *c == "generate");
            faults.retain(|x| !(9..=11).contains(&x.stage) || has_generate);
            let spec_run = if faults.len() == p.faults.len() && faults.iter().zip(p.faults.iter()).all(|(a, b)| a.kind == b.kind) { spec.clone() }
                else { format!("(mk_spec {} {})", coq_list(&faults, |f| format!("mk_fault {} {}", coq_n(f.stage as u64), cq_strs(&f.files))), cq_strs(&plan)) };
            let fmt_coq = match f { "human" => "Human", "json" => "Json", _ => "Rdjson" };
            let term = format!("mk_case ({pname} {} {fmt_coq}) (mk_obs {} {} {} {} {}) {spec_run}", cq_strs(&cmds.iter().map(|c| c.to_string()).collect::<Vec<_>>()),
                coq_n(obs.exit.max(0) as u64), cq_str(&obs.stdout), cq_str(&obs.stderr), cq_strs(&obs.written), cq_strs(&obs.disturbed));
            let known: BTreeSet<String> = faults.iter().flat_map(|x| x.known.iter().cloned()).collect();
            let files: BTreeMap<String, String> = p.schema_files.iter().chain(p.op_files.iter()).map(|(n, t)| (n.clone(), t.clone())).collect();
            let descr = json!({
                "kind": "cli-run", "project": p.name, "root": root.to_string_lossy(), "commands": cmds, "format": f,
                "faults": faults.iter().map(|x| json!({"kind": x.kind, "stage": x.stage, "files": x.files, "known": x.known})).collect::<Vec<_>>(),
                "known_classes": known, "config": yaml, "files": files,
                "exit": obs.exit, "stdout": obs.stdout, "stderr": obs.stderr, "written": obs.written, "disturbed": obs.disturbed, "planned": plan,
                "stage_answers": {
                    "reached": orc.reached, "virtual_files": orc.virtual_files,
                    "schema_plugin_check": orc.sch_plugin_check.iter().map(pe_json).collect::<Vec<_>>(),
                    "schema_parse": orc.schema_parse.iter().map(|e| e.as_ref().map(pe_json)).collect::<Vec<_>>(),
                    "operation_parse": orc.op_parse.iter().map(|e| e.as_ref().map(pe_json)).collect::<Vec<_>>(),
                    "schema_resolve": orc.sch_resolve.as_ref().map(pe_json),
                    "schema_check": orc.sch_check.iter().map(pe_json).collect::<Vec<_>>(),
                    "operation_ext": orc.op_ext.iter().map(|e| e.as_ref().map(pe_json)).collect::<Vec<_>>(),
                    "operation_imports": orc.op_imp.iter().map(|e| e.as_ref().map(pe_json)).collect::<Vec<_>>(),
                    "operation_check": orc.op_check.iter().map(|l| l.iter().map(pe_json).collect::<Vec<_>>()).collect::<Vec<_>>(),
                    "printer_panics": orc.op_print.iter().filter_map(|s| if let Step::Panic(m) = s { Some(m.clone()) } else { None }).collect::<Vec<_>>(),
                },
            });
            if obs.exit != 0 && obs.exit != 1 {
                let cls: Vec<String> = known.iter().cloned().collect();
                if direct.len() < 20 { direct.push(json!({"what": format!("nitrogql-cli ended with status {} (neither 0 nor 1) on a generated project: {}", obs.exit, obs.stderr.lines().next().unwrap_or("")), "classes": cls, "case": descr.clone()})); }
            }
            if distinct.insert(fnv(format!("{}|{:?}|{}|{}", yaml, files, cmds.join(" "), f).as_bytes())) && (!faults.is_empty() || !obs.written.is_empty()) { nontrivial += 1; }
            outs.push(CaseOut { proj_def: def.clone(), proj_name: pname.clone(), term, descr });
        }
        let _ = fs::remove_dir_all(&root);
    }

    // ---- write the shards (same layout as verif_harness::Cases, plus the project definitions a shard uses)
    let shard_size = if thorough { 96 } else { 14 };
    fs::create_dir_all(&args.out).unwrap();
    let mut k = 0;
    for chunk in outs.chunks(shard_size) {
        let mut v = String::new();
        v.push_str("From V Require Import Base.Util C18.Model C18.Spec C18.Corr.\n");
        let mut seen: BTreeSet<&str> = BTreeSet::new();
        for c in chunk { if seen.insert(&c.proj_name) { v.push_str(&c.proj_def); } }
        v.push_str("Definition cases : list case := [\n");
        for (i, c) in chunk.iter().enumerate() { let _ = writeln!(v, "  {}{}", c.term, if i + 1 < chunk.len() { ";" } else { "" }); }
        v.push_str("].\n");
        v.push_str("Definition corr_fail := Eval vm_compute in (failing agree cases).\n");
        v.push_str("Definition prop_fail := Eval vm_compute in (failing holds cases).\n");
        v.push_str("Print corr_fail.\nPrint prop_fail.\n");
        fs::write(args.out.join(format!("cases_{k}.v")), v).unwrap();
        k += 1;
    }
    fs::write(args.out.join("shards.json"), serde_json::to_string(&json!({"shards": k, "shard_size": shard_size, "n": outs.len()})).unwrap()).unwrap();
    fs::write(args.out.join("cases.json"), serde_json::to_string(&outs.iter().map(|c| c.descr.clone()).collect::<Vec<_>>()).unwrap()).unwrap();
    let slim = |d: &Value| { let mut d = d.clone(); if let Some(o) = d.as_object_mut() { o.remove("files"); o.remove("stage_answers"); } d };
    let samples: Vec<Value> = [0usize, 1, outs.len() / 3, outs.len() / 2, outs.len() - 1].iter().filter_map(|i| outs.get(*i)).map(|c| slim(&c.descr)).collect();
    write_meta(&args.out, &json!({
        "evaluations": outs.len(),
        "distinct_nontrivial": nontrivial,
        "rule": "one evaluation = one run of the real nitrogql-cli binary on a generated project (schema over 1–3 files, 1–3 operation documents with #import, k injected faults, generate options), compared with the model fed with the in-process stage answers; distinct = distinct (config, files, commands, format); non-trivial = the run has at least one injected fault or writes at least one file",
        "samples": samples,
        "distribution": stats,
        "direct_failures": direct,
    }));
}
