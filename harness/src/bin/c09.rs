//! C09: runs `get_type_for_variable_definitions` of /repo (through the verification hook) on the
//! variable definitions of generated, accepted operations (and of synthetic ones with deeper wrapper
//! nestings) over generated schemas, with the option set directly and through
//! `OperationTypePrinterOptions::from_config`, records `TSType::print_type` of the result, and writes
//! everything as Coq terms for coq/C09/Corr.v.
use nitrogql_ast::operation::ExecutableDefinition;
use nitrogql_config_file::{parse_config, ScalarTypeConfig, SendReceiveScalarTypeConfig, SeparateScalarTypeConfig};
use nitrogql_printer::verif_hooks::{get_type_for_variable_definitions, QueryTypePrinterContext};
use nitrogql_printer::{OperationTypePrinterOptions, SchemaTypePrinter, SchemaTypePrinterOptions};
use serde_json::{json, Value as J};
use std::collections::{BTreeMap, HashMap, HashSet};
use verif_harness::gen::{gen_doc, gen_schema, DocCfg, Kind, Schema, SchemaCfg, BUILTIN_SCALARS};
use verif_harness::pipeline::{check_operation, check_schema, load_operation, load_schema, to_type_system};
use verif_harness::rec::{Rec, Wop};
use verif_harness::*;

fn coq_s(s: &str) -> String {
    if s.chars().all(|c| (' '..='~').contains(&c) || c == '\n') && s.len() < 400000 {
        let mut o = String::from("(s \"");
        for c in s.chars() { if c == '"' { o.push_str("\"\""); } else { o.push(c); } }
        o.push_str("\")");
        o
    } else { coq_str(s) }
}
fn pos_c(p: &nitrogql_ast::base::Pos) -> String {
    if p.builtin && p.line == 0 && p.column == 0 && p.file == 0 { "P0".into() }
    else if !p.builtin && p.file == 0 { format!("(P {} {})", p.line, p.column) }
    else { ast_coq::pos(p) }
}
fn ops_coq(ops: &[Wop]) -> String {
    coq_list(ops, |o| match o {
        Wop::W(s) => format!("W {}", coq_s(s)),
        Wop::WF(s, p, n) => match n {
            Some(n) if n == s => format!("WS {} {}", coq_s(s), pos_c(p)),
            _ => format!("WF {} {} {}", coq_s(s), pos_c(p), coq_opt(n, |x| coq_s(x))),
        },
        Wop::Indent => "Indent".into(),
        Wop::Dedent => "Dedent".into(),
    })
}

const TS_TEXTS: &[&str] = &["string", "number", "boolean", "Date", "Date | string", "Record<string, unknown>", "bigint", "In0", "E0", "unknown"];
/// `others`: names of non-scalar schema types; a scalar's TS text that mentions one of them makes the
/// printer rename that type inside the namespaces (otherwise the declaration would capture the identifier)
fn scalar_cfg(rng: &mut Rng, others: &[String]) -> ScalarTypeConfig {
    let t = |rng: &mut Rng| if !others.is_empty() && rng.chance(1, 4) {
        let n = rng.pick(others).clone();
        match rng.below(3) { 0 => n, 1 => format!("{n} | null"), _ => format!("Array<{n}>") }
    } else { (*rng.pick(TS_TEXTS)).to_string() };
    match rng.below(3) {
        0 => ScalarTypeConfig::Single(t(rng)),
        1 => ScalarTypeConfig::SendReceive(SendReceiveScalarTypeConfig { send: t(rng), receive: t(rng) }),
        _ => ScalarTypeConfig::Separate(SeparateScalarTypeConfig { resolver_output: t(rng), resolver_input: t(rng), operation_output: t(rng), operation_input: t(rng) }),
    }
}
fn cfg_coq(c: &ScalarTypeConfig) -> String {
    match c {
        ScalarTypeConfig::Single(t) => format!("(ScSingle {})", coq_str(t)),
        ScalarTypeConfig::SendReceive(c) => format!("(ScSendRecv {} {})", coq_str(&c.send), coq_str(&c.receive)),
        ScalarTypeConfig::Separate(c) => format!("(ScSeparate {} {} {} {})", coq_str(&c.resolver_output), coq_str(&c.resolver_input),
            coq_str(&c.operation_output), coq_str(&c.operation_input)),
    }
}
fn cfg_json(c: &ScalarTypeConfig) -> J {
    match c {
        ScalarTypeConfig::Single(t) => json!(t),
        ScalarTypeConfig::SendReceive(c) => json!({"send": c.send, "receive": c.receive}),
        ScalarTypeConfig::Separate(c) => json!({"resolverOutput": c.resolver_output, "resolverInput": c.resolver_input,
            "operationOutput": c.operation_output, "operationInput": c.operation_input}),
    }
}
fn cfg_shape(c: &ScalarTypeConfig) -> &'static str {
    match c { ScalarTypeConfig::Single(_) => "single", ScalarTypeConfig::SendReceive(_) => "sendreceive", ScalarTypeConfig::Separate(_) => "separate" }
}

/// a random input type over the schema: scalars, enums, input objects, wrapped up to three list levels
fn input_type(rng: &mut Rng, s: &Schema) -> String {
    let mut names: Vec<String> = BUILTIN_SCALARS.iter().map(|x| x.to_string()).collect();
    for t in &s.types { if matches!(t.kind, Kind::Scalar | Kind::Enum { .. } | Kind::Input { .. }) { names.push(t.name.clone()); } }
    let mut t = rng.pick(&names).clone();
    if rng.chance(1, 2) { t.push('!'); }
    let lists = match rng.below(10) { 0..=3 => 0, 4..=6 => 1, 7..=8 => 2, _ => 3 };
    for _ in 0..lists { t = format!("[{t}]"); if rng.chance(1, 2) { t.push('!'); } }
    t
}

/// options as the CLI builds them: from configuration TEXT; `configured` = the key as written (None = absent)
fn config_options(configured: Option<bool>) -> OperationTypePrinterOptions {
    let key = match configured { Some(b) => format!("      type:\n        allowUndefinedAsOptionalInput: {b}\n"), None => "      mode: with-loader-ts-5.0\n".to_string() };
    let yaml = format!("schema: schema.graphql\ndocuments: ops/*.graphql\nextensions:\n  nitrogql:\n    generate:\n{key}");
    let config = parse_config(&yaml).expect("config");
    OperationTypePrinterOptions::from_config(&config)
}

fn main() {
    silence_panics();
    let args = parse_args();
    let mut rng = Rng::new(args.seed);
    let thorough = args.tier == "thorough";
    let mut cases = Cases::new("From V Require Import Base.Util Gql.Ast Writer.Wop Ts.TsType C10.Model C09.Model C09.Corr.", "case", "agree", "holds", 6);
    let mut distinct: HashSet<String> = HashSet::new();
    let mut dist: BTreeMap<String, u64> = BTreeMap::new();
    let mut bump = |k: &str| { *dist.entry(k.to_string()).or_insert(0) += 1; };
    let n_schemas = if thorough { 1500 } else { 170 };
    let mut samples: Vec<J> = vec![];
    let mut n_lists = 0u64;
    let wrapper_depth = if thorough { 3 } else { 2 };
    for i in 0..(n_schemas + 1) {
        let special = i == 0;
        let s = gen_schema(&mut rng, &SchemaCfg { descriptions: false, custom_directives: true });
        // the first case is the exhaustive small-scope part: a fixed schema and one operation per
        // (leaf kind, wrapper nesting up to `wrapper_depth` list levels), each judged under both option values
        let base_sdl = if special { "scalar Date\nscalar Stamp\nenum E { A B }\ninput In { x: Int, y: [In!], d: Date, s: [Stamp!] }\ntype Query { a: Int }\n".to_string() } else { s.render() };
        // scalar configuration: builtins (sometimes overridden) + every custom scalar, typed by the `scalarTypes`
        // option (one of the three shapes), by a hand-written `@nitrogql_ts_type` directive with four target
        // types (as the graphql-scalars plugin writes them), or by both (the option must win)
        let mut scalars: Vec<(String, ScalarTypeConfig)> = vec![
            ("ID".into(), ScalarTypeConfig::SendReceive(SendReceiveScalarTypeConfig { send: "string | number".into(), receive: "string".into() })),
            ("String".into(), ScalarTypeConfig::Single("string".into())), ("Int".into(), ScalarTypeConfig::Single("number".into())),
            ("Float".into(), ScalarTypeConfig::Single("number".into())), ("Boolean".into(), ScalarTypeConfig::Single("boolean".into()))];
        let others: Vec<String> = if special { vec!["In".into(), "E".into()] } else { s.types.iter().filter(|t| matches!(t.kind, Kind::Enum { .. } | Kind::Input { .. })).map(|t| t.name.clone()).collect() };
        // configurations remap built-in scalars: ID: string; Int: {send: "number | bigint", receive: number}; String: a branded type; or a random one
        let mut remapped: Vec<String> = vec![];
        if special || rng.chance(1, 2) {
            let picks: Vec<usize> = if special { vec![0, 2] } else { (0..rng.range(1, 2)).map(|_| rng.below(5)).collect() };
            for k in picks {
                scalars[k].1 = match (scalars[k].0.as_str(), rng.below(3)) {
                    ("ID", 0 | 1) => ScalarTypeConfig::Single("string".into()),
                    ("Int", 0 | 1) => ScalarTypeConfig::SendReceive(SendReceiveScalarTypeConfig { send: "number | bigint".into(), receive: "number".into() }),
                    ("String", 0 | 1) => ScalarTypeConfig::Single("string & { __brand: 'S' }".into()),
                    _ => scalar_cfg(&mut rng, &others),
                };
                if !remapped.contains(&scalars[k].0) { remapped.push(scalars[k].0.clone()); }
                bump("builtin-scalar-remapped");
            }
        }
        let custom: Vec<String> = if special { vec!["Date".into(), "Stamp".into()] } else { s.types.iter().filter(|t| matches!(t.kind, Kind::Scalar)).map(|t| t.name.clone()).collect() };
        let mut sdl = base_sdl.clone();
        let mut directive_json: Vec<J> = vec![];
        for (k, name) in custom.iter().enumerate() {
            // 0: option only, 1: directive only, 2: both
            let mode = if special { k + 1 } else { rng.below(3) };
            if mode != 1 {
                let c = if special { ScalarTypeConfig::SendReceive(SendReceiveScalarTypeConfig { send: "Date | string".into(), receive: "string".into() }) } else { scalar_cfg(&mut rng, &others) };
                scalars.push((name.clone(), c));
            }
            if mode != 0 {
                // four DIFFERENT target types; operationInput sometimes a primitive so that plain values are admitted
                let oi = if special || rng.chance(1, 2) { (*rng.pick(&["string", "number", "boolean"])).to_string() } else { format!("OpIn{k}") };
                let args = format!("resolverInput: \"ResIn{k}\", resolverOutput: \"ResOut{k} | string\", operationInput: \"{oi}\", operationOutput: \"OpOut{k}\"");
                sdl = sdl.replace(&format!("scalar {name}\n"), &format!("scalar {name} @nitrogql_ts_type({args})\n"));
                if !sdl.contains("directive @nitrogql_ts_type") {
                    sdl.push_str("directive @nitrogql_ts_type(resolverInput: String!, resolverOutput: String!, operationInput: String!, operationOutput: String!) on SCALAR\n");
                }
                bump(if mode == 1 { "scalar-typed-by:directive" } else { "scalar-typed-by:directive+option" });
                directive_json.push(json!({"scalar": name, "operationInput": oi, "overridden_by_option": mode == 2}));
            } else { bump("scalar-typed-by:option"); }
        }
        let _ = &directive_json;
        let doc = match load_schema(&sdl) { Ok(d) => d, Err(_) => { bump("schema-load-error"); continue; } };
        if !check_schema(&doc).is_empty() { bump("schema-invalid"); continue; }
        let ts = to_type_system(&doc);
        for (_, c) in &scalars { bump(&format!("scalar-config:{}", cfg_shape(c))); }
        let ns = if rng.chance(1, 5) { "S".to_string() } else { "Schema".to_string() };
        // operations: generated accepted documents + synthetic variable lists
        let mut op_texts: Vec<(String, &'static str)> = vec![];
        if special {
            let mut nestings: Vec<Vec<String>> = vec![vec!["@".into(), "@!".into()]];
            for d in 0..wrapper_depth { let next: Vec<String> = nestings[d].iter().flat_map(|x| vec![format!("[{x}]"), format!("[{x}]!")]).collect(); nestings.push(next); }
            for leaf in ["Int", "ID", "Date", "Stamp", "E", "In"] {
                for (k, n) in nestings.iter().flatten().enumerate() {
                    for rep in 0..2 { op_texts.push((format!("query W{leaf}{k}x{rep}($v: {}) {{ __typename }}\n", n.replace('@', leaf)), "exhaustive-wrappers")); }
                }
            }
        }
        for _ in 0..(if special { 0 } else { 3 }) {
            let fr = rng.chance(1, 2);
            let d = gen_doc(&mut rng, &s, &DocCfg { fragments: fr, ..DocCfg::default() });
            op_texts.push((d.render(), "generated"));
        }
        if !special {
            let mut vars: Vec<String> = vec![];
            for (j, t) in s.types.iter().filter(|t| matches!(t.kind, Kind::Scalar | Kind::Enum { .. } | Kind::Input { .. })).enumerate().take(6) { vars.push(format!("$u{j}: {}", t.name)); }
            if !vars.is_empty() { op_texts.push((format!("query Uses({}) {{ __typename }}\n", vars.join(", ")), "synthetic")); }
        }
        for k in 0..(if special { 0 } else { 2 }) {
            let n = rng.range(1, 5);
            let vars: Vec<String> = (0..n).map(|j| {
                let ty = input_type(&mut rng, &s);
                let default = if rng.chance(1, 5) && !ty.ends_with('!') { " = null" } else { "" };
                format!("$v{j}: {ty}{default}")
            }).collect();
            op_texts.push((format!("query Syn{k}({}) {{ __typename }}\n", vars.join(", ")), "synthetic"));
        }
        // the schema declaration the implementation prints under each value of the option: C09 reads the
        // Variables types through the `__OperationInput` namespace of THIS text
        // options as the CLI builds them: configuration TEXT -> parse_config -> SchemaTypePrinterOptions::from_config.
        // The text lists the custom scalars typed by the option and the REMAPPED built-ins only; the
        // reference (`scalars`) is the effective mapping: built-in defaults overridden by the configuration.
        let configured: serde_json::Map<String, J> = scalars.iter()
            .filter(|(k, _)| !BUILTIN_SCALARS.contains(&k.as_str()) || remapped.contains(k))
            .map(|(k, c)| (k.clone(), cfg_json(c))).collect();
        let schema_text = |allow: bool| -> Option<String> {
            let yaml = format!("schema: schema.graphql\ndocuments: ops/*.graphql\nextensions:\n  nitrogql:\n    generate:\n      type:\n        allowUndefinedAsOptionalInput: {allow}\n        scalarTypes: {}\n", serde_json::to_string(&configured).unwrap());
            let config = parse_config(&yaml).expect("config");
            let opts = SchemaTypePrinterOptions::from_config(&config);
            catch(std::panic::AssertUnwindSafe(|| { let mut w = Rec::new(); SchemaTypePrinter::new(opts, &mut w).print_document(&doc).ok().map(|_| w.text()) })).ok().flatten()
        };
        let (text_on, text_off) = (schema_text(true), schema_text(false));
        if text_on.is_none() { bump("schema-declaration-error"); }
        let mut runs_coq: Vec<String> = vec![]; let mut runs_j: Vec<J> = vec![];
        let mut any_config_interesting = false;
        for (text, origin) in &op_texts {
            let opdoc = match load_operation(text) { Ok(d) => d, Err(_) => { bump("operation-load-error"); continue; } };
            let accepted = check_operation(&ts, &opdoc).is_empty();
            if *origin == "generated" && !accepted { bump("generated-operation-rejected"); continue; }
            for def in &opdoc.definitions {
                let ExecutableDefinition::OperationDefinition(op) = def else { continue };
                let Some(vars) = op.variables_definition.as_ref() else { continue };
                if vars.definitions.is_empty() { continue; }
                let allow = if *origin == "exhaustive-wrappers" { text.contains("x0(") } else { rng.chance(1, 2) };
                let frags = HashMap::new();
                let direct_opts = OperationTypePrinterOptions { allow_undefined_as_optional_input: allow, schema_root_namespace: ns.clone(), ..Default::default() };
                let direct = get_type_for_variable_definitions(&QueryTypePrinterContext { options: &direct_opts, schema: &ts, fragment_definitions: &frags }, vars);
                // the key is sometimes left out when the option is on (default)
                let configured = if allow && rng.chance(1, 3) { None } else { Some(allow) };
                bump(match configured { None => "config:absent", Some(true) => "config:true", Some(false) => "config:false" });
                let config_opts = config_options(configured);
                let via_config = get_type_for_variable_definitions(&QueryTypePrinterContext { options: &config_opts, schema: &ts, fragment_definitions: &frags }, vars);
                let mut w = Rec::new();
                direct.print_type(&mut w);
                n_lists += 1;
                bump(&format!("operations:{origin}"));
                bump(if allow { "option:on" } else { "option:off" });
                for v in &vars.definitions {
                    let t = format!("{}", ast_coq::ty(&v.r#type));
                    let depth = t.matches("TList").count();
                    bump(&format!("variable:list-depth-{depth}"));
                    bump(if v.r#type.is_nonnull() { "variable:non-null" } else { "variable:nullable" });
                    if v.default_value.is_some() { bump("variable:with-default"); }
                }
                if vars.definitions.iter().any(|v| !v.r#type.is_nonnull()) { any_config_interesting = true; }
                distinct.insert(format!("{sdl}|{text}|{allow}"));
                runs_coq.push(format!("(mkOpRun {} {} {} {} {} {})", ast_coq::vardefs(vars), coq_bool(allow), coq_opt(&configured, |b| coq_bool(*b).to_string()), ts_coq::tstype(&direct), ops_coq(&w.coalesced()), ts_coq::tstype(&via_config)));
                runs_j.push(json!({"operation": text, "origin": origin, "accepted": accepted, "allowUndefinedAsOptionalInput": allow, "configured": configured,
                                   "variables": vars.definitions.iter().map(|v| format!("${}", v.name.name)).collect::<Vec<_>>(), "variables_type": w.text()}));
            }
        }
        if runs_coq.is_empty() { bump("schema-without-variables"); continue; }
        let sopts = format!("(mkSOpts {} (s \"__nitrogql_schema\") true false)", coq_list(&scalars, |(k, c)| format!("({}, {})", coq_str(k), cfg_coq(c))));
        let dj = json!({"kind": "variables", "path": "direct", "schema": sdl, "scalarTypes": scalars.iter().map(|(k, c)| (k.clone(), cfg_json(c))).collect::<serde_json::Map<_, _>>(),
                        "schemaRootNamespace": ns, "configured_scalarTypes": configured, "runs": runs_j, "schema_declaration_option_on": text_on, "schema_declaration_option_off": text_off});
        if samples.len() < 2 && i % 41 == 0 { samples.push(dj.clone()); }
        let body = format!("{} {} {} {} {} [{}]", ast_coq::tsdoc(&doc), sopts, coq_str(&ns), coq_opt(&text_on, |x| coq_s(x)), coq_opt(&text_off, |x| coq_s(x)), runs_coq.join("; "));
        cases.push(format!("CVars false {body}"), dj.clone());
        bump("cases:direct");
        // the same runs judged on the result obtained through from_config (configuration text -> options)
        if any_config_interesting && (thorough || i % 3 == 0) {
            let mut cj = dj; cj["path"] = json!("from_config");
            cases.push(format!("CVars true {body}"), cj);
            bump("cases:from_config");
        }
    }
    cases.write(&args.out);
    if let Some(l) = cases.descr.last() { samples.push(l.clone()); }
    write_meta(&args.out, &json!({
        "evaluations": n_lists,
        "distinct_nontrivial": distinct.len(),
        "rule": "one evaluation = one variable-definition list (of an accepted generated operation, or a synthetic one over input types with up to three list levels) under one option value, run through get_type_for_variable_definitions with the option set directly and through from_config; distinct = distinct (schema, operation text, option) triples; all have at least one variable",
        "samples": samples,
        "distribution": dist,
    }));
}
