//! C20: runs relative_path / resolve_relative_path / normalize_path of /repo on generated paths
//! and writes the case files the Coq model is evaluated on.
use nitrogql_utils::{normalize_path, relative_path, resolve_relative_path};
use serde_json::json;
use std::collections::HashSet;
use std::path::Path;
use verif_harness::*;

fn p2s(p: &Path) -> String { p.to_str().unwrap().to_string() }

fn round_case(a: &str, b: &str) -> (String, serde_json::Value) {
    let (a1, b1) = (a.to_string(), b.to_string());
    let rel = catch(move || p2s(&relative_path(Path::new(&a1), Path::new(&b1)))).ok();
    let res = rel.as_ref().map(|r| p2s(&resolve_relative_path(Path::new(a), Path::new(r))));
    let nb = p2s(&normalize_path(Path::new(b)));
    (
        format!("CRound {} {} {} {} {}", coq_str(a), coq_str(b), coq_opt(&rel, |s| coq_str(s)),
                coq_opt(&res, |s| coq_str(s)), coq_str(&nb)),
        json!({"kind":"round","a":a,"b":b,"relative":rel,"resolved":res,"normalize_b":nb}),
    )
}

fn all_paths(alpha: &[&str], depth: usize, abs: bool) -> Vec<String> {
    let mut out = vec![];
    let mut cur: Vec<Vec<&str>> = vec![vec![]];
    for _ in 0..depth {
        let mut next = vec![];
        for p in &cur { for c in alpha { let mut q = p.clone(); q.push(*c); next.push(q); } }
        for p in &next { out.push(format!("{}{}", if abs { "/" } else { "" }, p.join("/"))); }
        cur = next;
    }
    out
}

fn random_path(rng: &mut Rng, abs_bias: usize) -> String {
    const NAMES: &[&str] = &["a", "b", "src", "x.graphql", "schema.d.ts", "...", "..a", "a..", ".hidden", "é", "日本", "q r", "a.b.c", "😀"];
    let n = rng.range(0, 12);
    let mut s = String::new();
    if rng.chance(abs_bias, 10) { s.push('/'); }
    for i in 0..n {
        if i > 0 || s.is_empty() && false { s.push('/'); }
        match rng.below(12) {
            0 => s.push('.'),
            1 | 2 => s.push_str(".."),
            3 => {} // empty segment => "//"
            _ => s.push_str(*rng.pick(NAMES)),
        }
        if rng.chance(1, 15) { s.push('/'); }
    }
    s
}

fn main() {
    silence_panics();
    let args = parse_args();
    let mut rng = Rng::new(args.seed);
    let thorough = args.tier == "thorough";
    let mut cases = Cases::new("From V Require Import Base.Util C20.Model C20.Corr.", "case", "agree", "holds", if thorough { 4000 } else { 600 });
    let mut distinct: HashSet<String> = HashSet::new();
    let mut stats = json!({});
    // 1. exhaustive absolute pairs
    let depth = if thorough { 5 } else { 3 };
    let paths = all_paths(&["a", "b", ".", ".."], depth, true);
    let mut n_ex = 0u64; let mut n_guard_ok = 0u64;
    for a in &paths { for b in &paths {
        let (t, d) = round_case(a, b);
        if d["relative"].is_string() && d["resolved"] == d["normalize_b"] { n_guard_ok += 1; }
        distinct.insert(format!("{}|{}", a, b));
        cases.push(t, d); n_ex += 1;
    } }
    stats["exhaustive_depth"] = json!(depth); stats["exhaustive_pairs"] = json!(n_ex);
    stats["exhaustive_pairs_roundtrip_holds_on_impl"] = json!(n_guard_ok);
    // 2. random deeper pairs (mostly absolute), incl. odd names, '//' and trailing '/'
    let n_rand = if thorough { 20000 } else { 2000 };
    let mut n_abs = 0u64;
    for _ in 0..n_rand {
        let (mut a, mut b) = (random_path(&mut rng, 9), random_path(&mut rng, 9));
        if rng.chance(2, 3) {
            // two paths under a common (possibly deep) prefix
            let pre = random_path(&mut rng, 10);
            a = format!("{}/{}", pre, a.trim_start_matches('/'));
            b = format!("{}/{}", pre, b.trim_start_matches('/'));
        }
        if a.starts_with('/') && b.starts_with('/') { n_abs += 1; }
        distinct.insert(format!("{}|{}", a, b));
        let (t, d) = round_case(&a, &b); cases.push(t, d);
    }
    stats["random_pairs"] = json!(n_rand); stats["random_pairs_both_absolute"] = json!(n_abs);
    // 3. normalize and resolve on arbitrary (also relative) paths
    let n_nr = if thorough { 6000 } else { 1000 };
    for _ in 0..n_nr {
        let p = random_path(&mut rng, 6);
        let out = p2s(&normalize_path(Path::new(&p)));
        let out2 = p2s(&normalize_path(Path::new(&out)));
        distinct.insert(format!("n|{}", p));
        cases.push(format!("CNorm {} {} {}", coq_str(&p), coq_str(&out), coq_str(&out2)),
                   json!({"kind":"normalize","p":p,"out":out,"out2":out2}));
        let a = random_path(&mut rng, 8); let r = random_path(&mut rng, 1);
        let out = p2s(&resolve_relative_path(Path::new(&a), Path::new(&r)));
        distinct.insert(format!("r|{}|{}", a, r));
        cases.push(format!("CRes {} {} {}", coq_str(&a), coq_str(&r), coq_str(&out)),
                   json!({"kind":"resolve","a":a,"r":r,"out":out}));
    }
    stats["normalize_cases"] = json!(n_nr); stats["resolve_cases"] = json!(n_nr);
    cases.write(&args.out);
    let samples: Vec<_> = [0usize, 17, cases.len() / 2, cases.len() - 1].iter().map(|i| cases.descr[*i].clone()).collect();
    write_meta(&args.out, &json!({
        "evaluations": cases.len(),
        "distinct_nontrivial": distinct.len(),
        "rule": "all pairs of absolute paths over components {a,b,.,..} up to the stated depth, plus random pairs up to 12 components with odd names, '//', trailing '/', relative paths; distinct = distinct input tuples; every case is non-trivial in that it runs the real functions and the model",
        "samples": samples,
        "distribution": stats,
    }));
}
