//! C14: declared exports (operation declaration file, CLI side) vs runtime exports (JS module, loader side).
//!
//! For generated operation documents (one or several operations / fragments / imported fragments) and
//! generated configuration TEXTS (YAML or JSON, run through the real `parse_config`), records the exact
//! writer-operation lists of `print_types_for_operation_document` and `print_js_for_operation_document`
//! with a recording `SourceMapWriter`, plus the text both produce through the real `SourceWriter`, and
//! writes them as Coq terms for coq/C14/Corr.v.
use nitrogql_ast::base::{HasPos, Pos};
use nitrogql_ast::operation::{ExecutableDefinition, OperationType};
use nitrogql_ast::selection_set::{Selection, SelectionSet};
use nitrogql_ast::{set_current_file_of_pos, OperationDocument};
use nitrogql_config_file::{parse_config, Config};
use nitrogql_parser::{parse_operation_document, parse_type_system_document};
use nitrogql_printer::{
    print_js_for_operation_document, print_types_for_operation_document, OperationJSPrinterOptions,
    OperationTypePrinterOptions,
};
use nitrogql_semantics::{
    ast_to_type_system, resolve_operation_extensions, resolve_operation_imports, resolve_schema_extensions,
    OperationExtension, OperationResolver,
};
use serde_json::{json, Map, Value};
use sourcemap_writer::{SourceMapWriter, SourceWriter};
use std::collections::{BTreeMap, HashSet};
use std::fmt::Write as _;
use std::fs;
use std::path::Path;
use verif_harness::*;


// ------------------------------------------------------------------ recording writer

#[derive(Clone, PartialEq, Eq, Debug)]
enum Wop {
    W(String),
    WF(String, Pos, Option<String>),
    Indent,
    Dedent,
}
#[derive(Default)]
struct Rec(Vec<Wop>);
impl SourceMapWriter for Rec {
    fn write(&mut self, chunk: &str) { self.0.push(Wop::W(chunk.to_string())); }
    fn write_for(&mut self, chunk: &str, node: &impl HasPos) {
        self.0.push(Wop::WF(chunk.to_string(), *node.position(), node.name().map(|s| s.to_string())));
    }
    fn indent(&mut self) { self.0.push(Wop::Indent); }
    fn dedent(&mut self) { self.0.push(Wop::Dedent); }
}

fn coq_pos(p: &Pos) -> String { format!("(P {} {} {} {})", p.line, p.column, p.file, coq_bool(p.builtin)) }
fn coq_wop(o: &Wop) -> String {
    match o {
        Wop::W(c) => format!("W {}", coq_str(c)),
        Wop::WF(c, p, n) => format!("WF {} {} {}", coq_str(c), coq_pos(p), coq_opt(n, |s| coq_str(s))),
        Wop::Indent => "Indent".into(),
        Wop::Dedent => "Dedent".into(),
    }
}

// ------------------------------------------------------------------ schema

const SCHEMA: &str = "
type Query { a: Int u: U }
type Mutation { a: Int u: U }
type Subscription { a: Int u: U }
type U { id: ID! name: String u: U }
";

// ------------------------------------------------------------------ documents

#[derive(Clone, Debug)]
enum DefSpec {
    Op { kind: &'static str, name: Option<String>, spreads: Vec<String>, var: bool },
    Frag { name: String, on: &'static str, spreads: Vec<String> },
}
#[derive(Clone, Debug)]
struct FileSpec { idx: usize, defs: Vec<DefSpec>, lead: String }

const NAMES: &[&str] = &["foo", "Foo", "a", "A", "_x", "x1", "getUser", "GetUser", "q", "Q", "fooQuery", "FooQuery",
    "user_by_id", "F", "f", "Frag", "frag", "Query", "query", "Z9", "__a"];

fn render_sel(on_root: bool, spreads: &[String], rng: &mut Rng) -> String {
    // selections valid against SCHEMA: root types and U all have `u: U`; `a` on roots, `id name` on U.
    // Exactly one root field (a subscription must have exactly one).
    let mut s = String::from("{ ");
    if on_root {
        if spreads.is_empty() { s.push_str(if rng.chance(1, 2) { "a " } else { "u { id } " }); }
        else {
            s.push_str("u { id ");
            for sp in spreads { let _ = write!(s, "...{} ", sp); }
            s.push_str("} ");
        }
    } else {
        s.push_str(if rng.chance(1, 2) { "id " } else { "name id " });
        for sp in spreads { let _ = write!(s, "u {{ ...{} }} ", sp); }
    }
    s.push('}');
    s
}

fn render_file(f: &FileSpec, imports: &str, rng: &mut Rng) -> String {
    let mut s = String::new();
    s.push_str(imports);
    s.push_str(&f.lead);
    for d in &f.defs {
        match d {
            DefSpec::Op { kind, name, spreads, var } => {
                let _ = write!(s, "{}", kind);
                if let Some(n) = name { let _ = write!(s, " {}", n); }
                if *var { s.push_str("($v: Int)"); }
                let _ = write!(s, " {}", render_sel(true, spreads, rng));
            }
            DefSpec::Frag { name, on, spreads } => {
                let _ = write!(s, "fragment {} on {} {}", name, on, render_sel(false, spreads, rng));
            }
        }
        s.push_str(*rng.pick(&["\n", "\n\n", " ", "\n  "]));
    }
    s
}

fn leak(s: String) -> &'static str { Box::leak(s.into_boxed_str()) }

struct Parsed { doc: OperationDocument<'static>, ext: OperationExtension<'static> }
fn parse_file(src: &'static str, file_idx: usize) -> Parsed {
    set_current_file_of_pos(file_idx);
    let d = parse_operation_document(src).expect("generated operation document parses");
    let (doc, ext) = resolve_operation_extensions(d).expect("extensions resolve");
    set_current_file_of_pos(0);
    Parsed { doc, ext }
}

struct Resolver<'a>(&'a [(String, Parsed)]);
impl<'a> OperationResolver<'static> for Resolver<'a> {
    fn resolve(&self, path: &Path) -> Option<(&OperationDocument<'static>, &OperationExtension<'static>)> {
        let p = path.to_str().unwrap();
        self.0.iter().find(|(n, _)| n == p).map(|(_, x)| (&x.doc, &x.ext))
    }
}

/// One generated project: the document the CLI would print (distinct file indices) and the document the
/// loader would print (everything parsed with file index 0).
struct Project {
    descr: Value,
    via_resolver: bool,
    sources: Vec<(String, &'static str)>, // (file name under src/, text)
    doc: OperationDocument<'static>,
    doc_l: OperationDocument<'static>,
    /// fragment names spread in the resolved document, in document / depth-first order
    spreads: Vec<String>,
    /// first of them that no definition of the resolved document defines (then the printers cannot run: they expect a
    /// checked document; the loader's emit_js answers with an error since /repo 539df4b)
    broken: Option<String>,
}

fn spreads_of(doc: &OperationDocument) -> (Vec<String>, Option<String>) {
    fn rec(ss: &SelectionSet, out: &mut Vec<String>) {
        for sel in ss.selections.iter() {
            match sel {
                Selection::Field(f) => { if let Some(s) = f.selection_set.as_ref() { rec(s, out); } }
                Selection::FragmentSpread(sp) => out.push(sp.fragment_name.name.to_string()),
                Selection::InlineFragment(i) => rec(&i.selection_set, out),
            }
        }
    }
    let mut out = vec![];
    let mut defined = vec![];
    for d in doc.definitions.iter() {
        match d {
            ExecutableDefinition::OperationDefinition(o) => rec(&o.selection_set, &mut out),
            ExecutableDefinition::FragmentDefinition(f) => { defined.push(f.name.name.to_string()); rec(&f.selection_set, &mut out); }
        }
    }
    let broken = out.iter().find(|n| !defined.contains(n)).cloned();
    (out, broken)
}

fn gen_project(rng: &mut Rng, id: usize) -> Project {
    // names: a small pool so that collisions between kinds and across files do happen. Most projects respect
    // GraphQL's uniqueness rules (distinct fragment names, distinct operation names); some do not.
    let allow_dup = rng.chance(1, 7);
    // GraphQL has one namespace for operations and one for fragments: `query Post` next to `fragment Post` is valid
    // (and their variables differ unless the suffixes say otherwise), so the two kinds draw independently.
    let used: std::cell::RefCell<Vec<String>> = std::cell::RefCell::new(vec![]);
    let used_ops: std::cell::RefCell<Vec<String>> = std::cell::RefCell::new(vec![]);
    let pick_name = |rng: &mut Rng| -> String {
        loop {
            let n = rng.pick(NAMES).to_string();
            if allow_dup || !used.borrow().contains(&n) { used.borrow_mut().push(n.clone()); return n; }
        }
    };
    let pick_op_name = |rng: &mut Rng| -> String {
        loop {
            let n = rng.pick(NAMES).to_string();
            if allow_dup || !used_ops.borrow().contains(&n) { used_ops.borrow_mut().push(n.clone()); return n; }
        }
    };
    let n_files = *rng.pick(&[1usize, 1, 2, 2, 3]);
    let via_resolver = rng.chance(1, 2);
    let mut file_idxs: Vec<usize> = vec![];
    let base = rng.below(4); // the CLI numbers schema files first
    while file_idxs.len() < n_files {
        let k = if via_resolver || rng.chance(1, 2) { base + file_idxs.len() } else { rng.below(9) };
        if !file_idxs.contains(&k) { file_idxs.push(k); }
    }
    // imported files: fragments only (operations in them are never imported; include one sometimes)
    let mut files: Vec<FileSpec> = vec![];
    let mut frag_names_by_file: Vec<Vec<String>> = vec![];
    for fi in 0..n_files {
        let lead = rng.pick(&["", "\n", "\n\n  ", "# c\n"]).to_string();
        let mut defs = vec![];
        let n_frag = if fi == 0 { *rng.pick(&[0usize, 0, 1, 1, 2, 3]) } else { rng.range(1, 2) };
        let mut names = vec![];
        for _ in 0..n_frag { names.push(pick_name(rng)); }
        frag_names_by_file.push(names.clone());
        for n in &names { defs.push(DefSpec::Frag { name: n.clone(), on: "U", spreads: vec![] }); }
        if fi > 0 && rng.chance(1, 4) {
            defs.push(DefSpec::Op { kind: "query", name: Some(pick_op_name(rng)), spreads: vec![], var: false });
        }
        files.push(FileSpec { idx: file_idxs[fi], defs, lead });
    }
    // which imported fragments end up in the document
    let mut wildcard = vec![false; n_files];
    let mut imported: Vec<Vec<String>> = vec![vec![]; n_files];
    for fi in 1..n_files {
        wildcard[fi] = rng.chance(1, 2);
        if wildcard[fi] { imported[fi] = frag_names_by_file[fi].clone(); }
        else {
            let mut v = vec![];
            for n in &frag_names_by_file[fi] { if v.is_empty() || rng.chance(1, 2) { if !v.contains(n) { v.push(n.clone()); } } }
            imported[fi] = v;
        }
    }
    let mut available: Vec<String> = frag_names_by_file[0].clone();
    for fi in 1..n_files { available.extend(imported[fi].iter().cloned()); }
    // operations of the main file
    let n_ops = *rng.pick(&[0usize, 1, 1, 1, 1, 2, 2, 3]);
    let mut ops = vec![];
    for _ in 0..n_ops {
        let kind = *rng.pick(&["query", "query", "mutation", "subscription"]);
        let mut name = if (allow_dup || n_ops == 1) && rng.chance(1, 4) { None } else { Some(pick_op_name(rng)) };
        let mut spreads = vec![];
        if !available.is_empty() && rng.chance(1, 2) { spreads.push(rng.pick(&available).clone()); }
        // deliberately: an operation called like a fragment of the document (local or imported), spread by it or not
        if !available.is_empty() && rng.chance(1, 4) {
            let f = rng.pick(&available).clone();
            if allow_dup || !used_ops.borrow().contains(&f) {
                used_ops.borrow_mut().push(f.clone());
                if rng.chance(1, 2) && !spreads.contains(&f) { spreads.push(f.clone()); }
                name = Some(f);
            }
        }
        ops.push(DefSpec::Op { kind, name, spreads, var: rng.chance(1, 4) });
    }
    // local fragments may spread available fragments (not themselves: keeps the type printer finite)
    for d in files[0].defs.iter_mut() {
        if let DefSpec::Frag { name, spreads, .. } = d {
            if rng.chance(1, 3) {
                let cands: Vec<&String> = available.iter().filter(|n| *n != name && !frag_names_by_file[0].contains(n)).collect();
                if !cands.is_empty() { spreads.push((*rng.pick(&cands)).clone()); }
            }
        }
    }
    let mut main_defs = files[0].defs.clone();
    main_defs.extend(ops);
    // some import-built projects spread a fragment that ends up defined nowhere (a name that exists nowhere, or a
    // fragment of an imported file that the import line does not list)
    if via_resolver && rng.chance(1, 7) {
        let mut missing = "Missing".to_string();
        for fi in 1..n_files { for n in &frag_names_by_file[fi] { if !available.contains(n) && rng.chance(1, 2) { missing = n.clone(); } } }
        if main_defs.is_empty() { main_defs.push(DefSpec::Op { kind: "query", name: Some(pick_op_name(rng)), spreads: vec![], var: false }); }
        let k = rng.below(main_defs.len());
        match &mut main_defs[k] { DefSpec::Op { spreads, .. } | DefSpec::Frag { spreads, .. } => spreads.push(missing) }
    }
    if main_defs.is_empty() {
        main_defs.push(DefSpec::Op { kind: "query", name: Some(pick_op_name(rng)), spreads: vec![], var: false });
    }
    rng.shuffle(&mut main_defs);
    files[0].defs = main_defs;
    // sources
    let paths: Vec<String> = (0..n_files).map(|i| if i == 0 { "/p/main.graphql".to_string() } else { format!("/p/f{}.graphql", i) }).collect();
    let mut import_lines = String::new();
    for fi in 1..n_files {
        let tg = if wildcard[fi] { "*".to_string() } else { imported[fi].join(", ") };
        let _ = writeln!(import_lines, "#import {} from \"./f{}.graphql\"", tg, fi);
    }
    let mut srcs: Vec<&'static str> = vec![];
    for fi in 0..n_files {
        let imp = if fi == 0 && via_resolver { import_lines.clone() } else { String::new() };
        srcs.push(leak(render_file(&files[fi], &imp, rng)));
    }
    let build = |idx_of: &dyn Fn(usize) -> usize, rng_order: &[usize], doc_pos_from: usize| -> OperationDocument<'static> {
        let parsed: Vec<(String, Parsed)> = (0..n_files).map(|fi| (paths[fi].clone(), parse_file(srcs[fi], idx_of(fi)))).collect();
        if via_resolver {
            let (_, main) = &parsed[0];
            resolve_operation_imports((Path::new(&paths[0]), &main.doc, &main.ext), &Resolver(&parsed[1..]))
                .expect("imports resolve")
        } else {
            // hand-assembled: main definitions, then the imported fragments, in a generated order
            let mut defs: Vec<ExecutableDefinition<'static>> = parsed[0].1.doc.definitions.clone();
            for fi in 1..n_files {
                for d in parsed[fi].1.doc.definitions.iter() {
                    if let ExecutableDefinition::FragmentDefinition(f) = d {
                        if imported[fi].iter().any(|n| n == f.name.name) { defs.push(d.clone()); }
                    }
                }
            }
            let mut out = vec![];
            for k in rng_order { if *k < defs.len() { out.push(defs[*k].clone()); } }
            for (k, d) in defs.iter().enumerate() { if !rng_order.contains(&k) { out.push(d.clone()); } }
            OperationDocument { position: parsed[doc_pos_from].1.doc.position, definitions: out }
        }
    };
    let mut order: Vec<usize> = (0..12).collect();
    if rng.chance(1, 2) { rng.shuffle(&mut order); }
    // the document position normally comes from the main file; sometimes (hand-assembled only) from another one
    let doc_pos_from = if !via_resolver && n_files > 1 && rng.chance(1, 5) { rng.range(1, n_files - 1) } else { 0 };
    let idxs = file_idxs.clone();
    let doc = build(&|fi| idxs[fi], &order, doc_pos_from);
    let doc_l = build(&|_| 0, &order, doc_pos_from);
    let descr = json!({
        "project": id, "via": if via_resolver { "resolve_operation_imports" } else { "hand-assembled" },
        "files": (0..n_files).map(|fi| json!({"path": paths[fi], "file_index": file_idxs[fi], "source": srcs[fi]})).collect::<Vec<_>>(),
        "definition_order": if via_resolver { json!(null) } else { json!(order) },
        "document_position_from_file": doc_pos_from,
    });
    let sources = (0..n_files).map(|fi| (if fi == 0 { "main.graphql".to_string() } else { format!("f{}.graphql", fi) }, srcs[fi])).collect();
    let (spreads, broken) = spreads_of(&doc_l);
    Project { descr, via_resolver, sources, doc, doc_l, spreads, broken }
}

/// A project given by its sources (first = main file; imports are written in the main source): the corpus.
fn project_from_sources(id: usize, label: &str, sources: &[(&str, &str)]) -> Project {
    let srcs: Vec<&'static str> = sources.iter().map(|(_, t)| leak(t.to_string())).collect();
    let paths: Vec<String> = sources.iter().map(|(n, _)| format!("/p/{}", n)).collect();
    let build = |idx_of: &dyn Fn(usize) -> usize| -> OperationDocument<'static> {
        let parsed: Vec<(String, Parsed)> = (0..srcs.len()).map(|fi| (paths[fi].clone(), parse_file(srcs[fi], idx_of(fi)))).collect();
        let (_, main) = &parsed[0];
        resolve_operation_imports((Path::new(&paths[0]), &main.doc, &main.ext), &Resolver(&parsed[1..])).expect("imports resolve")
    };
    let doc = build(&|fi| fi + 1);
    let doc_l = build(&|_| 0);
    let descr = json!({
        "project": id, "via": "resolve_operation_imports", "corpus": label,
        "files": (0..srcs.len()).map(|fi| json!({"path": paths[fi], "file_index": fi + 1, "source": srcs[fi]})).collect::<Vec<_>>(),
    });
    let sources = sources.iter().zip(srcs.iter()).map(|((n, _), t)| (n.to_string(), *t)).collect();
    let (spreads, broken) = spreads_of(&doc_l);
    Project { descr, via_resolver: true, sources, doc, doc_l, spreads, broken }
}

/// minimised witnesses of past findings (also stored, for readers, in /verif/corpus/C14/*.json); always run first
fn corpus_projects() -> Vec<(Project, Vec<CfgT>)> {
    let named = Some(GenT { mode: None, ty: None, name: None, export: Some(ExportT { default: Some(false), result: None, vars: None }) });
    vec![
        (project_from_sources(0, "colliding-variable-names/operation-vs-fragment",
            &[("main.graphql", "query Foo { a u { ...FooQuery } }\nfragment FooQuery on U { id }\n")]),
         vec![None, named.clone()]),
        (project_from_sources(1, "colliding-variable-names/capitalisation",
            &[("main.graphql", "query foo { a }\nquery Foo { a }\n")]),
         vec![named.clone(), None]),
        (project_from_sources(2, "same-name/fragment-then-operation-spreading-it",
            &[("main.graphql", "fragment U on U { id }\nquery U { u { ...U } }\n")]),
         vec![None, named.clone()]),
        (project_from_sources(3, "same-name/operation-spreading-it-then-fragment",
            &[("main.graphql", "query U { u { ...U } }\nfragment U on U { id }\n")]),
         vec![None, named.clone()]),
        (project_from_sources(4, "same-name/operation-then-fragment-not-spread",
            &[("main.graphql", "mutation name { a }\nfragment name on U { name }\n")]),
         vec![named.clone(), None]),
        (project_from_sources(5, "colliding-variable-names/imported-fragment-vs-operation",
            &[("main.graphql", "#import UserQuery from \"./f1.graphql\"\nquery User { u { ...UserQuery } }\n"),
              ("f1.graphql", "fragment UserQuery on U { id }\n")]),
         vec![None, named]),
    ]
}

/// names read off an op list the way the Coq side does (used only to describe a case / to classify it narrowly)
fn op_level_names(ops: &[Wop]) -> (Vec<String>, Vec<String>, Vec<String>) {
    let (mut decls, mut named, mut dflt) = (vec![], vec![], vec![]);
    let mut i = 0;
    while i < ops.len() {
        if is_w(ops.get(i), "export ") && is_w(ops.get(i + 1), "const ") {
            if let Some(Wop::WF(n, _, _)) = ops.get(i + 2) { decls.push(n.clone()); named.push(n.clone()); i += 3; continue; }
        }
        if is_w(ops.get(i), "const ") {
            if let Some(Wop::WF(n, _, _)) = ops.get(i + 1) { decls.push(n.clone()); i += 2; continue; }
        }
        if is_w(ops.get(i), "export { ") && is_w(ops.get(i + 2), " as default };\n\n") {
            if let Some(Wop::W(n)) = ops.get(i + 1) { dflt.push(n.clone()); i += 3; continue; }
        }
        i += 1;
    }
    (decls, named, dflt)
}
fn duplicates(v: &[String]) -> Vec<String> {
    let mut d = vec![];
    for (i, x) in v.iter().enumerate() { if v[..i].contains(x) && !d.contains(x) { d.push(x.clone()); } }
    d
}

const JS_RESERVED: &[&str] = &["break", "case", "catch", "class", "const", "continue", "debugger", "default", "delete", "do", "else",
    "enum", "export", "extends", "false", "finally", "for", "function", "if", "import", "in", "instanceof", "new", "null", "return",
    "super", "switch", "this", "throw", "true", "try", "typeof", "var", "void", "while", "with", "yield", "let", "static",
    "implements", "interface", "package", "private", "protected", "public", "await", "async", "of", "get", "set", "arguments", "eval"];
fn is_plain_identifier(s: &str) -> bool {
    let mut cs = s.chars();
    match cs.next() { Some(c) if c.is_ascii_alphabetic() || c == '_' || c == '$' => {} _ => return false }
    cs.all(|c| c.is_ascii_alphanumeric() || c == '_' || c == '$') && !JS_RESERVED.contains(&s)
}

fn coq_doc(d: &OperationDocument) -> String {
    let defs: Vec<String> = d.definitions.iter().map(|x| match x {
        ExecutableDefinition::OperationDefinition(o) => {
            let k = match o.operation_type { OperationType::Query => "KQuery", OperationType::Mutation => "KMutation", OperationType::Subscription => "KSubscription" };
            let name = match &o.name { None => "None".to_string(), Some(i) => format!("(Some ({}, {}))", coq_str(i.name), coq_pos(&i.position)) };
            format!("OpDef {} {} {} {}", k, name, coq_pos(&o.position), coq_pos(&o.selection_set.position))
        }
        ExecutableDefinition::FragmentDefinition(f) => format!("FragDef {} {}", coq_str(f.name.name), coq_pos(&f.position)),
    }).collect();
    format!("(Doc {} {})", d.position.file, coq_list(&defs, |s| s.clone()))
}

// ------------------------------------------------------------------ configuration texts

#[derive(Clone, Debug, Default)]
struct NameT { result: Option<String>, vars: Option<String>, ftype: Option<String>, cap: Option<bool>,
               q: Option<String>, m: Option<String>, s: Option<String>, f: Option<String> }
#[derive(Clone, Debug, Default)]
struct ExportT { default: Option<bool>, result: Option<bool>, vars: Option<bool> }
#[derive(Clone, Debug, Default)]
struct GenT { mode: Option<u8>, ty: Option<Option<bool>>, name: Option<NameT>, export: Option<ExportT> }
type CfgT = Option<GenT>;

const MODES: [&str; 3] = ["with-loader-ts-5.0", "with-loader-ts-4.0", "standalone-ts-4.0"];
const COQ_MODES: [&str; 3] = ["WithLoaderTS5_0", "WithLoaderTS4_0", "StandaloneTS4_0"];

/// suffix pool: identifier-like ones (text-safe) and a few odd ones (op-list level only)
const SAFE_SFX: &[&str] = &["", "Query", "Q", "_", "Doc", "$", "Document", "Mutation", "Result", "Variables", "X1", "Ünï", "Type", "Fragment", "Subscription"];
const ODD_SFX: &[&str] = &[" ", "a b", "export ", "const ", "type ", "\n", "-x", "default", "\"q\"", "😀", " as default };\n\n", "export { "];

fn is_text_safe(s: &str) -> bool {
    s.chars().all(|c| c.is_alphanumeric() || c == '_' || c == '$')
}

fn coq_cfg(c: &CfgT) -> String {
    let ob = |b: &Option<bool>| coq_opt(b, |x| coq_bool(*x).to_string());
    let os = |s: &Option<String>| coq_opt(s, |x| coq_str(x));
    match c {
        None => "None".into(),
        Some(g) => format!("(Some (GenT {} {} {} {}))",
            coq_opt(&g.mode, |m| COQ_MODES[*m as usize].to_string()),
            coq_opt(&g.ty, |t| format!("(TypeT {})", ob(t))),
            coq_opt(&g.name, |n| format!("(NameT {} {} {} {} {} {} {} {})", os(&n.result), os(&n.vars), os(&n.ftype), ob(&n.cap), os(&n.q), os(&n.m), os(&n.s), os(&n.f))),
            coq_opt(&g.export, |e| format!("(ExportT {} {} {})", ob(&e.default), ob(&e.result), ob(&e.vars)))),
    }
}

/// Renders the abstract configuration as a config file text. Key names are the documented ones
/// (camelCase); absent = key omitted (or `null` for the optional string/bool keys of `name`).
/// Third component: the text has `schemaModuleSpecifier` and no `schemaOutput` (legal for `generate`: no schema file is written).
fn render_cfg(c: &CfgT, rng: &mut Rng) -> (String, &'static str, bool) {
    let mut sms = false;
    let mut root = Map::new();
    root.insert("schema".into(), json!("./schema/*.graphql"));
    if rng.chance(1, 2) { root.insert("documents".into(), json!(["./src/**/*.graphql"])); }
    match c {
        None => match rng.below(5) {
            0 => {}
            1 => { root.insert("extensions".into(), json!({})); }
            2 => { root.insert("extensions".into(), json!({"nitrogql": {}})); }
            3 => { root.insert("extensions".into(), json!({"nitrogql": {"plugins": ["nitrogql:model-plugin"]}})); }
            _ => { root.insert("extensions".into(), json!({"nitrogql": {"generate": null}, "other": {"x": 1}})); }
        },
        Some(g) => {
            let mut gen = Map::new();
            if let Some(m) = g.mode { gen.insert("mode".into(), json!(MODES[m as usize])); }
            if rng.chance(1, 3) { gen.insert("schemaModuleSpecifier".into(), json!("@/generated/schema")); sms = true; }
            else if rng.chance(1, 3) { gen.insert("schemaOutput".into(), json!("./src/generated/schema.d.ts")); }
            if rng.chance(1, 6) { gen.insert("emitSchemaRuntime".into(), json!(true)); }
            if let Some(t) = &g.ty {
                let mut tm = Map::new();
                if let Some(b) = t { tm.insert("allowUndefinedAsOptionalInput".into(), json!(b)); }
                if rng.chance(1, 4) { tm.insert("scalarTypes".into(), json!({"Date": "string"})); }
                gen.insert("type".into(), Value::Object(tm));
            }
            if let Some(n) = &g.name {
                let mut nm = Map::new();
                let mut put_s = |k: &str, v: &Option<String>, rng: &mut Rng| match v {
                    Some(x) => { nm.insert(k.into(), json!(x)); }
                    None => { if rng.chance(1, 8) { nm.insert(k.into(), Value::Null); } }
                };
                put_s("operationResultTypeSuffix", &n.result, rng);
                put_s("variablesTypeSuffix", &n.vars, rng);
                put_s("fragmentTypeSuffix", &n.ftype, rng);
                put_s("queryVariableSuffix", &n.q, rng);
                put_s("mutationVariableSuffix", &n.m, rng);
                put_s("subscriptionVariableSuffix", &n.s, rng);
                put_s("fragmentVariableSuffix", &n.f, rng);
                match n.cap { Some(b) => { nm.insert("capitalizeOperationNames".into(), json!(b)); }
                              None => { if rng.chance(1, 8) { nm.insert("capitalizeOperationNames".into(), Value::Null); } } }
                gen.insert("name".into(), Value::Object(nm));
            }
            if let Some(e) = &g.export {
                let mut em = Map::new();
                if let Some(b) = e.default { em.insert("defaultExportForOperation".into(), json!(b)); }
                if let Some(b) = e.result { em.insert("operationResultType".into(), json!(b)); }
                if let Some(b) = e.vars { em.insert("variablesType".into(), json!(b)); }
                gen.insert("export".into(), Value::Object(em));
            }
            let mut ng = Map::new();
            if rng.chance(1, 4) { ng.insert("plugins".into(), json!([])); }
            ng.insert("generate".into(), Value::Object(gen));
            root.insert("extensions".into(), json!({"nitrogql": Value::Object(ng)}));
        }
    }
    let v = Value::Object(root);
    match rng.below(3) {
        0 => (serde_json::to_string(&v).unwrap(), "json", sms),
        1 => (serde_json::to_string_pretty(&v).unwrap(), "json-pretty", sms),
        _ => (serde_yaml::to_string(&v).unwrap(), "yaml", sms),
    }
}

fn gen_sfx(rng: &mut Rng, odd: bool) -> Option<String> {
    match rng.below(10) {
        0..=3 => None,
        _ => Some(if odd && rng.chance(1, 3) { rng.pick(ODD_SFX).to_string() } else { rng.pick(SAFE_SFX).to_string() }),
    }
}

/// tri-state option value from a digit 0..2
fn tri(d: usize) -> Option<bool> { match d { 0 => None, 1 => Some(true), _ => Some(false) } }

fn make_cfg(rng: &mut Rng, d: [usize; 4], mode: usize, suffixes: u8) -> CfgT {
    // d = (default, result, vars, capitalize) each in 0..3 ; mode in 0..4 (0 = absent)
    let export = ExportT { default: tri(d[0]), result: tri(d[1]), vars: tri(d[2]) };
    let mut name = NameT { cap: tri(d[3]), ..Default::default() };
    if suffixes > 0 {
        let odd = suffixes > 1;
        name.result = gen_sfx(rng, odd); name.vars = gen_sfx(rng, odd); name.ftype = gen_sfx(rng, odd);
        name.q = gen_sfx(rng, odd); name.m = gen_sfx(rng, odd); name.s = gen_sfx(rng, odd); name.f = gen_sfx(rng, odd);
        // never the one combination that makes the op-level reading see a phantom default export
        if name.result.as_deref() == Some("export { ") && name.vars.as_deref() == Some(" as default };\n\n") { name.vars = None; }
    }
    let all_absent = d == [0, 0, 0, 0] && mode == 0 && suffixes == 0;
    if all_absent && rng.chance(1, 2) { return None; }
    let name_absent = name.cap.is_none() && suffixes == 0;
    let export_absent = d[0] == 0 && d[1] == 0 && d[2] == 0;
    // generate.type.allowUndefinedAsOptionalInput: section absent / empty / true / false
    let ty = match rng.below(8) { 0 | 1 => Some(Some(false)), 2 => Some(Some(true)), 3 => Some(None), _ => None };
    Some(GenT {
        mode: if mode == 0 { None } else { Some((mode - 1) as u8) },
        ty,
        name: if name_absent && rng.chance(1, 2) { None } else { Some(name) },
        export: if export_absent && rng.chance(1, 2) { None } else { Some(export) },
    })
}

// ------------------------------------------------------------------ running the real code

fn run_dts(cfg: &Config, schema: &graphql_type_system::Schema<std::borrow::Cow<'_, str>, Pos>, doc: &OperationDocument) -> Vec<Wop> {
    let mut rec = Rec::default();
    print_types_for_operation_document(OperationTypePrinterOptions::from_config(cfg), schema, doc, &mut rec);
    rec.0
}
fn run_js(cfg: &Config, doc: &OperationDocument) -> Vec<Wop> {
    let mut rec = Rec::default();
    print_js_for_operation_document(OperationJSPrinterOptions::from_config(cfg), doc, &mut rec);
    rec.0
}
/// what `nitrogql generate` writes as the declaration file's text
fn text_dts(cfg: &Config, schema: &graphql_type_system::Schema<std::borrow::Cow<'_, str>, Pos>, doc: &OperationDocument) -> String {
    let mut w = SourceWriter::new();
    print_types_for_operation_document(OperationTypePrinterOptions::from_config(cfg), schema, doc, &mut w);
    w.into_buffers().buffer
}
/// what the loader's emit_js returns for the resolved document
fn text_js(cfg: &Config, doc: &OperationDocument) -> String {
    // the JS printer with the options derived from THIS configuration (what js_printer.rs::print_js of the loader is
    // meant to do); the loader's own code runs through harness/c14-loader and is compared with this text
    let mut w = SourceWriter::new();
    print_js_for_operation_document(OperationJSPrinterOptions::from_config(cfg), doc, &mut w);
    w.into_buffers().buffer
}

/// export statements read off the generated TEXT: lines `export const NAME<sep>` and `export { NAME as default };`
fn text_exports(text: &str, sep: &str) -> (Vec<String>, Vec<String>) {
    let mut named = vec![]; let mut dflt = vec![];
    for line in text.split('\n') {
        if let Some(r) = line.strip_prefix("export const ") {
            if let Some(i) = r.find(sep) { named.push(r[..i].to_string()); } else { named.push(r.to_string()); }
        } else if let Some(r) = line.strip_prefix("export { ") {
            if let Some(x) = r.strip_suffix(" as default };") { dflt.push(x.to_string()); }
        }
    }
    (named, dflt)
}
fn coq_text_exports(t: &(Vec<String>, Vec<String>)) -> String {
    format!("({}, {})", coq_list(&t.0, |s| coq_str(s)), coq_list(&t.1, |s| coq_str(s)))
}

// ------------------------------------------------------------------ end to end through the real CLI binary

/// Writes the project and the configuration text to a directory, runs `nitrogql-cli generate` and returns the
/// text of the declaration file it wrote for main.graphql (None: the CLI refused the project, e.g. `check` failed).
fn cli_generate(cli: &str, dir: &Path, pr: &Project, cfg_text: &str, format: &str, mode: Option<u8>, schema_output_arg: bool) -> Option<String> {
    let _ = fs::remove_dir_all(dir);
    fs::create_dir_all(dir.join("schema")).ok()?;
    fs::create_dir_all(dir.join("src")).ok()?;
    fs::write(dir.join("schema/s.graphql"), SCHEMA).ok()?;
    for (name, text) in &pr.sources { fs::write(dir.join("src").join(name), text).ok()?; }
    let cfg_name = if format == "yaml" { "graphql.config.yaml" } else { "graphql.config.json" };
    fs::write(dir.join(cfg_name), cfg_text).ok()?;
    // with `schemaModuleSpecifier` in the text no schema output is named anywhere (the CLI then writes no schema file)
    let mut argv = vec!["--config-file", cfg_name, "--schema", "./schema/*.graphql", "--operation", "./src/*.graphql"];
    if schema_output_arg { argv.extend(["--schema-output", "./src/generated/schema.ts"]); }
    argv.push("generate");
    let out = std::process::Command::new(cli).current_dir(dir).args(&argv).output().ok()?;
    if !out.status.success() && std::env::var("C14_DEBUG").is_ok() {
        eprintln!("CLI rejected: {}\n{}\n---\n{}", String::from_utf8_lossy(&out.stderr), String::from_utf8_lossy(&out.stdout),
            pr.sources.iter().map(|(n, t)| format!("== {}\n{}", n, t)).collect::<Vec<_>>().join("\n"));
    }
    let res = if out.status.success() {
        let ext = match mode { Some(1) => "graphql.d.ts", Some(2) => "graphql.ts", _ => "d.graphql.ts" };
        fs::read_to_string(dir.join("src").join(format!("main.{}", ext))).ok()
    } else { None };
    let _ = fs::remove_dir_all(dir);
    res
}

// ------------------------------------------------------------------ bodies (the unmodelled sub-sequences)

struct Bodies { ty: Vec<Vec<Wop>>, vars: Vec<Vec<Wop>>, vars_strict: Vec<Vec<Wop>>, rt: Vec<String> }

fn is_w(o: Option<&Wop>, c: &str) -> bool { matches!(o, Some(Wop::W(x)) if x == c) }

/// Cuts the printed types out of the declaration-file op list of the reference configuration and the
/// runtime JSON out of the JS op list. A wrong cut cannot hide anything: the Coq side re-assembles the
/// model's op list from these pieces and compares it with the complete recorded list.
fn cut_bodies(doc: &OperationDocument, dts: &[Wop], js: &[Wop]) -> Bodies {
    let n = doc.definitions.len();
    let mut b = Bodies { ty: vec![vec![]; n], vars: vec![vec![]; n], vars_strict: vec![vec![]; n], rt: vec![String::new(); n] };
    let mut i = 2usize; // header: two chunks
    let until = |i: &mut usize, stop: &str| -> Vec<Wop> {
        let mut v = vec![];
        while *i < dts.len() && !is_w(dts.get(*i), stop) { v.push(dts[*i].clone()); *i += 1; }
        v
    };
    for (k, d) in doc.definitions.iter().enumerate() {
        match d {
            ExecutableDefinition::OperationDefinition(_) => {
                if is_w(dts.get(i), "export ") { i += 1; }
                i += 3; b.ty[k] = until(&mut i, ";\n\n"); i += 1;
                if is_w(dts.get(i), "export ") { i += 1; }
                i += 3; b.vars[k] = until(&mut i, ";\n\n"); i += 1;
                let _ = until(&mut i, ">;\n\n"); i += 1;
                if is_w(dts.get(i), "export { ") { i += 3; }
            }
            ExecutableDefinition::FragmentDefinition(_) => {
                if is_w(dts.get(i), "export ") { i += 1; }
                i += 3; b.ty[k] = until(&mut i, ";\n\n"); i += 1;
                let _ = until(&mut i, ";\n\n"); i += 1;
            }
        }
    }
    let mut j = 0usize;
    for k in 0..n {
        while j < js.len() && !is_w(js.get(j), "const ") { j += 1; }
        if let Some(Wop::W(r)) = js.get(j + 3) { b.rt[k] = r.clone(); }
        j += 4;
    }
    b
}

/// (kind, name) of the first definition of a runtime document, read from its JSON
fn json_id(rt: &str) -> Option<String> {
    let v: Value = serde_json::from_str(rt).ok()?;
    let d = v.get("definitions")?.get(0)?;
    let name = d.get("name").and_then(|n| n.get("value")).and_then(|x| x.as_str()).map(|s| s.to_string());
    let kind = match d.get("kind")?.as_str()? {
        "OperationDefinition" => match d.get("operation")?.as_str()? {
            "query" => "ROp KQuery", "mutation" => "ROp KMutation", "subscription" => "ROp KSubscription", _ => return None },
        "FragmentDefinition" => "RFrag",
        _ => return None,
    };
    Some(format!("({}, {})", kind, coq_opt(&name, |s| coq_str(s))))
}

/// lossless, shorter rendering of an op list: known body sequences are referred to by the name of the
/// Coq definition that holds them (written once per project in the shard's prelude)
fn coq_ops(ops: &[Wop], named_seqs: &[(String, &Vec<Wop>)], named_strs: &[(String, &String)]) -> String {
    let mut parts: Vec<String> = vec![];
    let mut lit: Vec<String> = vec![];
    let mut i = 0;
    while i < ops.len() {
        let mut hit = None;
        for (nm, seq) in named_seqs {
            if seq.len() >= 2 && ops.len() - i >= seq.len() && ops[i..i + seq.len()] == seq[..] {
                if hit.map_or(true, |(_, l)| seq.len() > l) { hit = Some((nm, seq.len())); }
            }
        }
        if let Some((nm, l)) = hit {
            if !lit.is_empty() { parts.push(format!("[{}]", lit.join("; "))); lit.clear(); }
            parts.push(nm.clone()); i += l; continue;
        }
        let mut s = None;
        if let Wop::W(c) = &ops[i] {
            if c.len() > 40 { if let Some((nm, _)) = named_strs.iter().find(|(_, x)| *x == c) { s = Some(format!("W {}", nm)); } }
        }
        lit.push(s.unwrap_or_else(|| coq_wop(&ops[i])));
        i += 1;
    }
    if !lit.is_empty() || parts.is_empty() { parts.push(format!("[{}]", lit.join("; "))); }
    format!("({})", parts.join(" ++ "))
}

// ------------------------------------------------------------------ main

struct CaseInfo { pid: usize, cfg: CfgT, text: String, text_safe: bool }
struct CaseOut { term: String, descr: Value, projects: Vec<usize>, node_file: Option<String>,
                 js_text: String, loader_req: Option<Value> }

fn main() {
    silence_panics();
    let args = parse_args();
    let mut rng = Rng::new(args.seed);
    let thorough = args.tier == "thorough";
    let cli: Option<String> = args.extra.iter().position(|a| a == "--cli").and_then(|i| args.extra.get(i + 1)).cloned();
    let mut e2e_budget: usize = if cli.is_none() { 0 } else if thorough { 1500 } else { 250 };
    // scratch directories are private to this process (two checks of C14 may run at the same time and share `--out`)
    let scratch_root = args.out.parent().unwrap_or(Path::new(".")).join(format!("C14-scratch-{}", std::process::id()));
    let _ = fs::remove_dir_all(&scratch_root);
    let e2e_dir = scratch_root.join("e2e");
    let node: Option<String> = args.extra.iter().position(|a| a == "--node").and_then(|i| args.extra.get(i + 1)).cloned();
    let node_dir = scratch_root.join("node-modules-under-test");
    if node.is_some() { let _ = fs::remove_dir_all(&node_dir); fs::create_dir_all(&node_dir).unwrap(); }
    let loader_exe: Option<String> = args.extra.iter().position(|a| a == "--loader").and_then(|i| args.extra.get(i + 1)).cloned();
    let mut loader_budget: usize = if loader_exe.is_none() { 0 } else if thorough { 8000 } else { 2000 };
    let mut node_budget: usize = if node.is_none() { 0 } else if thorough { 3000 } else { 400 };

    let schema_doc = {
        let doc = parse_type_system_document(SCHEMA).expect("schema parses");
        resolve_schema_extensions(doc).expect("schema extensions resolve")
    };
    let schema = ast_to_type_system(&schema_doc);

    let n_projects = if thorough { 80 } else { 44 };
    let mut cases: Vec<CaseOut> = vec![];
    let mut infos: Vec<CaseInfo> = vec![];
    let mut projects: Vec<Project> = vec![];
    let mut cli_refuses: Vec<Option<bool>> = vec![];
    let mut preludes: Vec<String> = vec![];
    let mut distinct: HashSet<String> = HashSet::new();
    let mut direct_failures: Vec<Value> = vec![];
    let mut dist: BTreeMap<String, u64> = BTreeMap::new();
    let bump = |k: &str, dist: &mut BTreeMap<String, u64>| { *dist.entry(k.to_string()).or_insert(0) += 1; };

    let mut corpus: Vec<Option<(Project, Vec<CfgT>)>> = corpus_projects().into_iter().map(Some).collect();
    let n_corpus = corpus.len();
    for pid in 0..(n_corpus + n_projects) {
        let (pr, fixed_cfgs) = if pid < n_corpus { let (p, c) = corpus[pid].take().unwrap(); (p, Some(c)) }
                               else { (gen_project(&mut rng, pid), None) };
        let n_ops = pr.doc.definitions.iter().filter(|d| matches!(d, ExecutableDefinition::OperationDefinition(_))).count();
        let n_frag = pr.doc.definitions.len() - n_ops;
        let n_imported = pr.doc.definitions.iter().filter(|d| d.position().file != pr.doc.position.file).count();
        bump(&format!("projects_with_{}_operations", n_ops.min(3)), &mut dist);
        bump(&format!("projects_with_{}_fragments", n_frag.min(4)), &mut dist);
        if n_imported > 0 { bump("projects_with_imported_fragments", &mut dist); }
        if pr.doc.definitions.iter().any(|d| matches!(d, ExecutableDefinition::OperationDefinition(o) if o.name.is_none())) { bump("projects_with_anonymous_operation", &mut dist); }

        if pr.broken.is_some() {
            // printers expect a checked document; only the histories use this project. What the CLI does with it is
            // observed once: it has to refuse (check: fragment not defined), i.e. declare nothing.
            bump("projects_spreading_an_undefined_fragment", &mut dist);
            let p = format!("p{}", pid);
            let mut prelude = String::new();
            let _ = writeln!(prelude, "Definition {p}_B : list defbody := [].");
            let _ = writeln!(prelude, "Definition {p}_sp : list str := {}.", coq_list(&pr.spreads, |s| coq_str(s)));
            let _ = writeln!(prelude, "Definition {p}_doc : doc := {}.", coq_doc(&pr.doc));
            preludes.push(prelude);
            let refused = cli.as_ref().map(|c| cli_generate(c, &e2e_dir, &pr, "schema: ./schema/*.graphql\n", "yaml", None, true).is_none());
            if refused == Some(false) {
                direct_failures.push(json!({"what": "nitrogql-cli generate writes a declaration file for a document that spreads an undefined fragment (the loader produces no module for it)",
                    "classes": [], "project": pr.descr}));
            }
            cli_refuses.push(refused);
            projects.push(pr);
            continue;
        }
        cli_refuses.push(None);
        // reference run (empty configuration) -> bodies
        let ref_cfg = parse_config("schema: x\n").expect("reference config");
        let ref_dts = run_dts(&ref_cfg, &schema, &pr.doc);
        let ref_js = run_js(&ref_cfg, &pr.doc);
        let mut bodies = cut_bodies(&pr.doc, &ref_dts, &ref_js);
        // second reference run: the variables types as printed with allowUndefinedAsOptionalInput: false
        let ref_cfg2 = parse_config("schema: x\nextensions:\n  nitrogql:\n    generate:\n      type:\n        allowUndefinedAsOptionalInput: false\n").expect("reference config 2");
        let ref_dts2 = run_dts(&ref_cfg2, &schema, &pr.doc);
        bodies.vars_strict = cut_bodies(&pr.doc, &ref_dts2, &ref_js).vars;
        let n = pr.doc.definitions.len();
        let p = format!("p{}", pid);
        let mut prelude = String::new();
        let mut named_seqs: Vec<(String, &Vec<Wop>)> = vec![];
        let mut named_strs: Vec<(String, &String)> = vec![];
        for k in 0..n {
            let _ = writeln!(prelude, "Definition {p}_t{k} : list wop := {}.", coq_list(&bodies.ty[k], coq_wop));
            let _ = writeln!(prelude, "Definition {p}_v{k} : list wop := {}.", coq_list(&bodies.vars[k], coq_wop));
            let _ = writeln!(prelude, "Definition {p}_s{k} : list wop := {}.", coq_list(&bodies.vars_strict[k], coq_wop));
            let _ = writeln!(prelude, "Definition {p}_r{k} : str := {}.", coq_str(&bodies.rt[k]));
            named_seqs.push((format!("{p}_t{k}"), &bodies.ty[k]));
            named_seqs.push((format!("{p}_v{k}"), &bodies.vars[k]));
            named_seqs.push((format!("{p}_s{k}"), &bodies.vars_strict[k]));
            named_strs.push((format!("{p}_r{k}"), &bodies.rt[k]));
        }
        let _ = writeln!(prelude, "Definition {p}_B : list defbody := {}.",
            coq_list(&(0..n).collect::<Vec<_>>(), |k| format!("Body {p}_t{k} {p}_v{k} {p}_s{k} {p}_r{k}")));
        let ids: Vec<String> = (0..n).filter_map(|k| json_id(&bodies.rt[k]).map(|id| format!("({p}_r{k}, {id})"))).collect();
        let _ = writeln!(prelude, "Definition {p}_ids : list (str * rid) := {}.", coq_list(&ids, |s| s.clone()));
        let _ = writeln!(prelude, "Definition {p}_sp : list str := {}.", coq_list(&pr.spreads, |s| coq_str(s)));
        let _ = writeln!(prelude, "Definition {p}_doc : doc := {}.", coq_doc(&pr.doc));
        let _ = writeln!(prelude, "Definition {p}_docL : doc := {}.", coq_doc(&pr.doc_l));

        // configurations for this project
        let mut cfgs: Vec<CfgT> = vec![];
        if let Some(fc) = &fixed_cfgs {
            cfgs = fc.clone();
        } else if thorough {
            // the full product of the four tri-state booleans and the four mode states
            for code in 0..(81 * 4) {
                let d = [code % 3, (code / 3) % 3, (code / 9) % 3, (code / 27) % 3];
                let mode = code / 81;
                let sfx = if code % 2 == 0 { 0 } else { 1 + (rng.below(4) == 0) as u8 };
                cfgs.push(make_cfg(&mut rng, d, mode, sfx));
            }
        } else {
            // all 16 explicit true/false combinations (modes cycling), the all-absent text, and random points
            // of the product with generated suffixes
            for code in 0..16usize {
                let d = [1 + (code & 1), 1 + ((code >> 1) & 1), 1 + ((code >> 2) & 1), 1 + ((code >> 3) & 1)];
                cfgs.push(make_cfg(&mut rng, d, (code + pid) % 4, (code % 3 == 0) as u8));
            }
            cfgs.push(make_cfg(&mut rng, [0, 0, 0, 0], 0, 0));
            for _ in 0..15 {
                let d = [rng.below(3), rng.below(3), rng.below(3), rng.below(3)];
                let sfx = 1 + (rng.below(4) == 0) as u8;
                let mode = rng.below(4);
                cfgs.push(make_cfg(&mut rng, d, mode, sfx));
            }
        }
        for cfg in cfgs {
            let (text, format, sms) = render_cfg(&cfg, &mut rng);
            let t2 = text.clone();
            let parsed = catch(move || parse_config(&t2));
            let config = match parsed {
                Ok(Some(c)) => c,
                other => {
                    direct_failures.push(json!({"what": format!("parse_config rejects or panics on a well-formed configuration text: {:?}", other.err()),
                        "classes": [], "config_text": text}));
                    continue;
                }
            };
            let doc = &pr.doc; let doc_l = &pr.doc_l;
            let run = catch(std::panic::AssertUnwindSafe(|| {
                (run_dts(&config, &schema, doc), run_js(&config, doc), run_js(&config, doc_l),
                 text_dts(&config, &schema, doc), text_js(&config, doc_l))
            }));
            let (dts, js, js_l, tdts, tjs_l) = match run {
                Ok(x) => x,
                Err(e) => {
                    direct_failures.push(json!({"what": format!("printer panics: {}", e), "classes": [], "config_text": text, "project": pr.descr}));
                    continue;
                }
            };
            let sfx_all: Vec<&String> = match &cfg { Some(GenT { name: Some(nm), .. }) =>
                [&nm.result, &nm.vars, &nm.ftype, &nm.q, &nm.m, &nm.s, &nm.f].iter().filter_map(|x| x.as_ref()).collect(), _ => vec![] };
            let text_safe = sfx_all.iter().all(|s| is_text_safe(s));
            let te_dts = text_exports(&tdts, ": ");
            let te_js = text_exports(&tjs_l, " = ");
            // a share of the cases also goes through the real CLI binary (cli/src/generate.rs, load_config, file store)
            let mut te_cli: Option<(Vec<String>, Vec<String>)> = None;
            if pr.via_resolver && e2e_budget > 0 && rng.chance(1, 3) {
                e2e_budget -= 1;
                let mode = match &cfg { Some(GenT { mode: Some(m), .. }) => Some(*m), _ => None };
                if sms { bump("e2e_cli_runs_with_schemaModuleSpecifier_and_no_schemaOutput", &mut dist); }
                match cli_generate(cli.as_ref().unwrap(), &e2e_dir, &pr, &text, format, mode, !sms) {
                    Some(t) => { bump("e2e_cli_runs_ok", &mut dist); te_cli = Some(text_exports(&t, ": ")); }
                    None => { bump("e2e_cli_rejected_project(check)", &mut dist); }
                }
            }
            let (js_decls, js_named, js_dflt) = op_level_names(&js_l);
            let (_, dts_named, dts_dflt) = op_level_names(&dts);
            let dups = duplicates(&js_decls);
            if !dups.is_empty() { bump("cases_with_colliding_variable_names", &mut dist); }
            // a share of the loader's modules is really loaded by node (runtime oracle), when every binding is a plain identifier
            let mut node_file = None;
            if node_budget > 0 && (fixed_cfgs.is_some() || rng.chance(1, 3)) {
                if js_decls.iter().all(|n| is_plain_identifier(n)) {
                    node_budget -= 1;
                    // written after the loader batch below: node imports what the real emit_js returned when there is one
                    let f = node_dir.join(format!("m{}.mjs", cases.len()));
                    node_file = Some(f.to_str().unwrap().to_string());
                } else { bump("node_skipped_not_plain_identifiers", &mut dist); }
            }
            // the loader's real ABI (load_config, initiate_task, get_required_files, load_file, emit_js) on the same
            // sources and configuration text, for projects whose imports the loader can resolve itself
            let mut loader_req = None;
            if pr.via_resolver && loader_budget > 0 {
                loader_budget -= 1;
                let mut files = Map::new();
                for (name, t) in &pr.sources { files.insert(format!("/p/{}", name), json!(t)); }
                loader_req = Some(json!({"id": cases.len(), "steps": [{"config": text, "root": "/p/main.graphql", "files": Value::Object(files)}]}));
            }
            let term = format!("Case {p}_doc {p}_docL {p}_B {p}_ids {} {} {} {} {} {} {} {}",
                coq_cfg(&cfg), coq_ops(&dts, &named_seqs, &named_strs), coq_ops(&js, &named_seqs, &named_strs),
                coq_ops(&js_l, &named_seqs, &named_strs), coq_bool(text_safe), coq_text_exports(&te_dts), coq_text_exports(&te_js), coq_opt(&te_cli, coq_text_exports));
            let mode_s = match &cfg { Some(GenT { mode: Some(m), .. }) => MODES[*m as usize], _ => "(absent)" };
            bump(&format!("mode={}", mode_s), &mut dist);
            bump(&format!("format={}", format), &mut dist);
            if !text_safe { bump("configs_with_odd_suffix", &mut dist); }
            if !sfx_all.is_empty() { bump("configs_with_suffix_keys", &mut dist); }
            if cfg.is_none() { bump("configs_without_generate_section", &mut dist); }
            if !te_dts.1.is_empty() { bump("cases_with_default_export", &mut dist); }
            if !te_dts.0.is_empty() { bump("cases_with_named_value_export", &mut dist); }
            if te_js.0.len() > te_dts.0.len() { bump("cases_where_loader_exports_more", &mut dist); }
            // non-trivial: the declaration file declares at least one value export (named or default)
            if !dts_named.is_empty() || !dts_dflt.is_empty() { distinct.insert(format!("{}|{}", pid, text)); }
            infos.push(CaseInfo { pid, cfg: cfg.clone(), text: text.clone(), text_safe });
            cases.push(CaseOut {
                term,
                descr: json!({"project": pr.descr, "config_text": text, "config_format": format,
                    "dts_text": if thorough { Value::Null } else { json!(tdts) },
                    "loader_js_text_head": if thorough { Value::Null } else { json!(tjs_l.chars().take(400).collect::<String>()) },
                    "dts_exports_from_text": {"named": te_dts.0, "default": te_dts.1},
                    "js_exports_from_text": {"named": te_js.0, "default": te_js.1},
                    "cli_dts_exports_from_text": te_cli.as_ref().map(|t| json!({"named": t.0, "default": t.1})),
                    "op_level": {"dts_named": dts_named, "dts_default": dts_dflt, "js_named": js_named, "js_default": js_dflt,
                                 "js_declared": js_decls, "js_duplicate_bindings": dups}}),
                projects: vec![pid], node_file, js_text: tjs_l.clone(), loader_req,
            });
        }
        preludes.push(prelude);
        projects.push(pr);
    }

    // ---- histories on ONE loader instance: load_config / emit sequences; each emission is compared with the declaration
    // file printed from the configuration text that is current at that step (default configuration before any load_config)
    struct PlanStep { load: bool, pid: usize, cur_cfg: CfgT, safe: bool, tdts: (Vec<String>, Vec<String>), js: Option<String>, cur_text: Option<String> }
    let mut plans: Vec<Vec<PlanStep>> = vec![];
    let mut hist_reqs: Vec<Value> = vec![];
    if loader_exe.is_some() {
        // projects that spread an undefined fragment take part when the CLI was seen to refuse them (nothing is declared)
        let res_projects: Vec<usize> = (0..projects.len()).filter(|i| projects[*i].via_resolver
            && (projects[*i].broken.is_none() || cli_refuses[*i] == Some(true))).collect();
        let safe_infos: Vec<usize> = (0..infos.len()).filter(|i| infos[*i].text_safe).collect();
        let n_hist = if res_projects.is_empty() || infos.is_empty() { 0 } else if thorough { 2500 } else { 300 };
        for k in 0..n_hist {
            let n_steps = rng.range(2, 4);
            let same_project = rng.chance(1, 2);
            let p0 = *rng.pick(&res_projects);
            let mut cur_text: Option<String> = None; let mut cur_cfg: CfgT = None; let mut cur_safe = true;
            let mut steps = vec![]; let mut req_steps = vec![];
            for i in 0..n_steps {
                let load = if i == 0 { !rng.chance(1, 4) } else { !rng.chance(1, 6) };
                if load {
                    let ii = if !safe_infos.is_empty() && !rng.chance(1, 10) { *rng.pick(&safe_infos) } else { rng.below(infos.len()) };
                    cur_text = Some(infos[ii].text.clone()); cur_cfg = infos[ii].cfg.clone(); cur_safe = infos[ii].text_safe;
                }
                let pid = if same_project { p0 } else { *rng.pick(&res_projects) };
                let config = match &cur_text { None => Config::default(), Some(t) => parse_config(t).expect("config parsed before") };
                let pr = &projects[pid];
                let (tdts, js) = if pr.broken.is_some() { ((vec![], vec![]), None) }
                    else { (text_exports(&text_dts(&config, &schema, &pr.doc), ": "), Some(text_js(&config, &pr.doc_l))) };
                let mut files = Map::new();
                for (name, t) in &pr.sources { files.insert(format!("/p/{}", name), json!(t)); }
                req_steps.push(json!({"config": if load { json!(cur_text) } else { Value::Null }, "root": "/p/main.graphql", "files": Value::Object(files)}));
                steps.push(PlanStep { load, pid, cur_cfg: cur_cfg.clone(), safe: cur_safe, tdts, js, cur_text: cur_text.clone() });
            }
            hist_reqs.push(json!({"id": 1_000_000 + k, "steps": req_steps}));
            plans.push(steps);
        }
    }

    // ---- the real loader: one batch through harness/c14-loader's driver
    let mut emitted: BTreeMap<usize, Vec<Result<String, String>>> = BTreeMap::new();
    if let Some(exe) = &loader_exe {
        let mut reqs: Vec<Value> = cases.iter().filter_map(|c| c.loader_req.clone()).collect();
        reqs.extend(hist_reqs.iter().cloned());
        if !reqs.is_empty() {
            fs::create_dir_all(&scratch_root).unwrap();
            let inp = scratch_root.join("loader-requests.json");
            let outp = scratch_root.join("loader-answers.jsonl");
            let _ = fs::remove_file(&outp);
            fs::write(&inp, serde_json::to_string(&reqs).unwrap()).unwrap();
            let st = std::process::Command::new(exe).arg(&inp).arg(&outp).env("RUST_BACKTRACE", "0")
                .stdout(std::process::Stdio::null()).stderr(std::process::Stdio::piped()).output();
            let stderr = st.as_ref().map(|o| String::from_utf8_lossy(&o.stderr).into_owned()).unwrap_or_default();
            for line in fs::read_to_string(&outp).unwrap_or_default().lines() {
                if let Ok(v) = serde_json::from_str::<Value>(line) {
                    let id = v["id"].as_u64().unwrap_or(u64::MAX) as usize;
                    let steps = v["steps"].as_array().cloned().unwrap_or_default().iter().map(|st|
                        if st["ok"] == json!(true) { Ok(st["js"].as_str().unwrap_or("").to_string()) }
                        else { Err(st["error"].as_str().unwrap_or("").to_string()) }).collect();
                    emitted.insert(id, steps);
                }
            }
            // a request without an answer: the process aborted there (a panic inside an extern "C" function)
            for r in &reqs {
                let id = r["id"].as_u64().unwrap() as usize;
                if !emitted.contains_key(&id) {
                    emitted.insert(id, vec![Err(format!("loader process ended without answering (abort?): {}", stderr.chars().take(300).collect::<String>()))]);
                    break; // the driver stops at the first abort; later requests were not attempted
                }
            }
            let _ = fs::remove_file(&inp); let _ = fs::remove_file(&outp);
        }
    }
    for (i, c) in cases.iter_mut().enumerate() {
        let field = match (c.loader_req.is_some(), emitted.get(&i).and_then(|v| v.first())) {
            (true, Some(Ok(js))) => {
                *dist.entry("loader_emit_js_ok".into()).or_insert(0) += 1;
                let same = *js == c.js_text;
                if !same { *dist.entry("loader_emit_js_differs_from_print_js_on_resolved_document".into()).or_insert(0) += 1; }
                let te = text_exports(js, " = ");
                c.descr["loader_emit_js"] = json!({"same_text_as_in_process": same, "named": te.0, "default": te.1});
                let f = format!("(Some ({}, {}))", coq_bool(same), coq_text_exports(&te));
                c.js_text = js.clone();
                f
            }
            (true, Some(Err(e))) => {
                *dist.entry("loader_emit_js_failed".into()).or_insert(0) += 1;
                direct_failures.push(json!({"what": format!("the loader fails on a project the CLI-side printers accept: {}", e), "classes": [],
                    "config_text": c.descr["config_text"], "project": c.descr["project"]}));
                "None".to_string()
            }
            _ => "None".to_string(),
        };
        c.term.push(' ');
        c.term.push_str(&field);
    }
    for c in cases.iter() { if let Some(f) = &c.node_file { fs::write(f, &c.js_text).unwrap(); } }

    // ---- runtime oracle: one node process imports every module written above and reports its export names
    let mut node_results: BTreeMap<String, Value> = BTreeMap::new();
    if let Some(node) = &node {
        let files: Vec<String> = cases.iter().filter_map(|c| c.node_file.clone()).collect();
        if !files.is_empty() {
            let script = node_dir.join("run.mjs");
            fs::write(&script, "import { pathToFileURL } from 'node:url';\nimport { readFileSync } from 'node:fs';\nconst out = {};\nfor (const f of JSON.parse(readFileSync(process.argv[2], 'utf8'))) {\n  try { const m = await import(pathToFileURL(f).href); out[f] = { ok: true, exports: Object.keys(m) }; }\n  catch (e) { out[f] = { ok: false, error: String(e) }; }\n}\nconsole.log(JSON.stringify(out));\n").unwrap();
            let list = node_dir.join("files.json");
            fs::write(&list, serde_json::to_string(&files).unwrap()).unwrap();
            if let Ok(o) = std::process::Command::new(node).arg(&script).arg(&list).output() {
                if let Ok(Value::Object(m)) = serde_json::from_slice::<Value>(&o.stdout) { for (k, v) in m { node_results.insert(k, v); } }
            }
        }
    }
    for c in cases.iter_mut() {
        let field = match c.node_file.as_ref().and_then(|f| node_results.get(f)) {
            None => "None".to_string(),
            Some(r) if r["ok"] == json!(true) => {
                let keys: Vec<String> = r["exports"].as_array().map(|a| a.iter().filter_map(|x| x.as_str().map(|s| s.to_string())).collect()).unwrap_or_default();
                *dist.entry("node_module_loaded".into()).or_insert(0) += 1;
                c.descr["node"] = json!({"loaded": true, "exports": keys});
                format!("(Some (Some {}))", coq_list(&keys, |s| coq_str(s)))
            }
            Some(r) => {
                *dist.entry("node_module_failed_to_load".into()).or_insert(0) += 1;
                c.descr["node"] = json!({"loaded": false, "error": r["error"]});
                "(Some None)".to_string()
            }
        };
        c.term.push(' ');
        c.term.push_str(&field);
    }
    if node.is_some() { let _ = fs::remove_dir_all(&node_dir); }

    // ---- history cases
    for (k, steps) in plans.iter().enumerate() {
        let ans = match emitted.get(&(1_000_000 + k)) { Some(a) if a.len() == steps.len() => a, _ => {
            if loader_exe.is_some() { *dist.entry("loader_histories_unanswered".into()).or_insert(0) += 1; }
            continue; } };
        // an emit may fail legitimately: the resolved document spreads an undefined fragment ("no module"); anything else is a failure of the loader
        let undefined_of = |e: &str| -> Option<String> {
            let i = e.find("Fragment '")?; let r = &e[i + 10..]; let j = r.find("' is not defined")?; Some(r[..j].to_string()) };
        if let Some((_, Err(e))) = steps.iter().zip(ans.iter()).find(|(st, r)| match r { Err(e) => projects[st.pid].broken.is_none() || undefined_of(e).is_none(), Ok(_) => false }) {
            direct_failures.push(json!({"what": format!("the loader fails inside a load_config/emit history: {}", e), "classes": [], "history": hist_reqs[k]}));
            continue;
        }
        let mut terms = vec![]; let mut dsteps = vec![]; let mut pids = vec![];
        for (st, a) in steps.iter().zip(ans.iter()) {
            let p = format!("p{}", st.pid);
            let (same, temit, err, te_descr) = match a {
                Ok(js) => {
                    let te = text_exports(js, " = ");
                    let same = st.js.as_ref() == Some(js);
                    if !same { *dist.entry("history_steps_where_emit_js_differs_from_current_config".into()).or_insert(0) += 1; }
                    (same, format!("(Some {})", coq_text_exports(&te)), "None".to_string(), json!({"named": te.0, "default": te.1}))
                }
                Err(e) => {
                    *dist.entry("history_steps_where_emit_js_reports_undefined_fragment".into()).or_insert(0) += 1;
                    let n = undefined_of(e).unwrap_or_default();
                    (true, "None".to_string(), format!("(Some {})", coq_str(&n)), json!({"error": e}))
                }
            };
            terms.push(format!("HStep {} {p}_doc {p}_B {p}_sp {} {} {} {} {}",
                if st.load { format!("(Some {})", coq_cfg(&st.cur_cfg)) } else { "None".to_string() },
                coq_bool(st.safe), coq_bool(same), coq_text_exports(&st.tdts), temit, err));
            dsteps.push(json!({"load_config_called": st.load, "current_config_text": st.cur_text, "files": projects[st.pid].descr["files"],
                "declared_by_dts_under_current_config": {"named": st.tdts.0, "default": st.tdts.1},
                "cli_refuses_this_project": cli_refuses[st.pid],
                "exported_by_emit_js": te_descr, "emit_js_text_equals_printer_under_current_config": same}));
            if !pids.contains(&st.pid) { pids.push(st.pid); }
            *dist.entry("history_steps".into()).or_insert(0) += 1;
            if !st.load { *dist.entry("history_steps_without_load_config".into()).or_insert(0) += 1; }
        }
        *dist.entry("histories".into()).or_insert(0) += 1;
        distinct.insert(format!("hist|{}", hist_reqs[k]));
        cases.push(CaseOut { term: format!("Hist [{}]", terms.join("; ")), descr: json!({"kind": "loader-history", "steps": dsteps}),
            projects: pids, node_file: None, js_text: String::new(), loader_req: None });
    }

    let _ = fs::remove_dir_all(&scratch_root);

    // ---- write shards: each shard carries the prelude of the projects it mentions
    let out = &args.out;
    fs::create_dir_all(out).unwrap();
    let shard_size = if thorough { 120 } else { 100 };
    let mut k = 0;
    for chunk in cases.chunks(shard_size) {
        let mut v = String::new();
        let _ = writeln!(v, "From V Require Import Base.Util C14.Model C14.Corr.");
        let mut seen = vec![];
        for c in chunk { for pj in &c.projects { if !seen.contains(pj) { seen.push(*pj); v.push_str(&preludes[*pj]); } } }
        let _ = writeln!(v, "Definition cases : list tcase := [");
        for (i, c) in chunk.iter().enumerate() { let t = if c.term.starts_with("Hist ") { c.term.clone() } else { format!("One ({})", c.term) };
            let _ = writeln!(v, "  {}{}", t, if i + 1 < chunk.len() { ";" } else { "" }); }
        let _ = writeln!(v, "].");
        let _ = writeln!(v, "Definition corr_fail := Eval vm_compute in (failing agree_t cases).");
        let _ = writeln!(v, "Definition prop_fail := Eval vm_compute in (failing holds_t cases).");
        let _ = writeln!(v, "Print corr_fail.\nPrint prop_fail.");
        fs::write(out.join(format!("cases_{}.v", k)), v).unwrap();
        k += 1;
    }
    fs::write(out.join("shards.json"), serde_json::to_string(&json!({"shards": k, "shard_size": shard_size, "n": cases.len()})).unwrap()).unwrap();
    fs::write(out.join("cases.json"), serde_json::to_string(&cases.iter().map(|c| c.descr.clone()).collect::<Vec<_>>()).unwrap()).unwrap();

    let samples: Vec<Value> = [0usize, cases.len() / 3, cases.len() / 2, cases.len().saturating_sub(1)].iter()
        .filter_map(|i| cases.get(*i)).map(|c| json!({"config_text": c.descr["config_text"], "files": c.descr["project"]["files"],
            "dts_exports_from_text": c.descr["dts_exports_from_text"], "js_exports_from_text": c.descr["js_exports_from_text"]})).collect();
    // report at most 2 direct failures per distinct message and 8 in all (each is a VIOLATION line); the totals go to the distribution
    {
        let total = direct_failures.len();
        let mut seen: BTreeMap<String, usize> = BTreeMap::new();
        let mut kept = vec![];
        for f in direct_failures.drain(..) {
            let k = f["what"].as_str().unwrap_or("").to_string();
            let n = seen.entry(k).or_insert(0);
            *n += 1;
            if *n <= 2 && kept.len() < 8 { kept.push(f); }
        }
        if total > 0 { dist.insert("direct_failures_observed_in_all".into(), total as u64); }
        direct_failures = kept;
    }
    write_meta(out, &json!({
        "evaluations": cases.len(),
        "distinct_nontrivial": distinct.len(),
        "rule": "one case = (generated operation project, configuration text); both real printers run on it (complete op lists recorded, texts through SourceWriter / the loader's print_js; a share also through the real nitrogql-cli binary and through node). distinct_nontrivial = distinct (project, configuration text) pairs whose declaration file declares at least one value export (named or default); cases with nothing declared are still compared but not counted",
        "samples": samples,
        "distribution": dist,
        "direct_failures": direct_failures,
    }));
}
