//! C16: runs nitrogql's GraphQL printer (`GraphQLPrinter::print_graphql`), `print_string`, `JustWriter`,
//! `JsStringWriter`, `remove_builtins`, the model plugin's runtime transform and (optionally) the real
//! CLI's `serverGraphqlOutput` on generated inputs; re-parses every printed text with the real parser;
//! writes the inputs and everything observed as Coq terms for coq/C16/Corr.v.
//!
//! extra arguments: `--cli <path to nitrogql-cli>` (end-to-end module cases), `--no-node`.
use nitrogql_ast::operation_ext::{ExecutableDefinitionExt, OperationDocumentExt};
use nitrogql_ast::selection_set::{Selection, SelectionSet};
use nitrogql_ast::type_system::*;
use nitrogql_ast::value::Value;
use nitrogql_ast::{TypeSystemDocument, TypeSystemOrExtensionDocument};
use nitrogql_parser::{parse_operation_document, parse_type_system_document};
use nitrogql_plugin::{ModelPlugin, PluginV1Beta};
use nitrogql_printer::verif_hooks::print_string;
use nitrogql_printer::GraphQLPrinter;
use nitrogql_semantics::resolve_schema_extensions;
use serde_json::{json, Value as J};
use sourcemap_writer::{JsStringWriter, JustWriter, SourceMapWriter};
use std::collections::{BTreeMap, HashSet};
use std::panic::AssertUnwindSafe;
use std::path::{Path, PathBuf};
use std::process::Command;
use verif_harness::gen::{gen_doc, gen_schema, DocCfg, SchemaCfg};
use verif_harness::rec::{wops_coq, Rec, Wop};
use verif_harness::*;

#[allow(dead_code)]
// `c16_repo` is a symlink next to this file: to /repo here; under VERIF_REPO the harness is copied (without it) to
// <alt>/harness and tools/checks/c16.py creates <alt>/harness/src/bin/c16_repo -> the worktree, so the in-process
// remove_builtins is the worktree's
#[path = "c16_repo/crates/cli/src/builtins.rs"]
mod cli_builtins;

// ------------------------------------------------------------------ Coq printing of texts

/// multi-line texts as `(nl [line; line; …])` so that printable lines stay Coq string literals
fn coq_text(s: &str) -> String {
    if !s.contains('\n') { return coq_str(s); }
    let lines: Vec<&str> = s.split('\n').collect();
    format!("(nl {})", coq_list(&lines, |l| coq_str(l)))
}
fn coq_ops(ops: &[Wop]) -> String {
    // same as rec::wops_coq but with multi-line chunks printed through `nl`
    if ops.iter().all(|o| match o { Wop::W(s) | Wop::WF(s, _, _) => !s.contains('\n') || s.len() < 3, _ => true }) {
        return wops_coq(ops);
    }
    coq_list(ops, |o| match o {
        Wop::W(s) => format!("W {}", coq_text(s)),
        Wop::WF(s, p, n) => format!("WF {} {} {}", coq_text(s), ast_coq::pos(p), coq_opt(n, |x| coq_str(x))),
        Wop::Indent => "Indent".into(),
        Wop::Dedent => "Dedent".into(),
    })
}

/// Rewrites a Coq term produced by the shared printers: `(s "…")` becomes `(b "…")` (byte-list string
/// notation of C16/Corr.v, much cheaper to elaborate) and, when `erase_pos`, every `(mkPos l c f b)` becomes `P`.
/// String literals are skipped over, so text inside them is never touched.
fn compact(term: &str, erase_pos: bool) -> String {
    let bs = term.as_bytes();
    let mut o: Vec<u8> = Vec::with_capacity(bs.len());
    let mut i = 0;
    while i < bs.len() {
        if bs[i] == b'"' {
            // copy the literal ("" is an escaped quote)
            o.push(b'"'); i += 1;
            loop {
                if bs[i] == b'"' { if i + 1 < bs.len() && bs[i + 1] == b'"' { o.extend_from_slice(b"\"\""); i += 2; continue; } o.push(b'"'); i += 1; break; }
                o.push(bs[i]); i += 1;
            }
        } else if bs[i..].starts_with(b"(s \"") {
            o.extend_from_slice(b"(b "); i += 3;
        } else if erase_pos && bs[i..].starts_with(b"(mkPos ") {
            while bs[i] != b')' { i += 1; }
            i += 1;
            o.push(b'P');
        } else { o.push(bs[i]); i += 1; }
    }
    String::from_utf8(o).unwrap()
}
fn reparse_term(a_erased: &str, b_full: &Option<String>) -> String {
    match b_full {
        None => "ReNone".into(),
        Some(b) => { let be = compact(b, true); if be == a_erased { "ReSame".into() } else { format!("(ReDiff {})", be) } }
    }
}

// ------------------------------------------------------------------ running the printers

fn run_ops<W: SourceMapWriter>(w: &mut W, ops: &[Wop]) {
    for o in ops {
        match o {
            Wop::W(s) => w.write(s),
            Wop::WF(s, p, n) => w.write_for(s, &nitrogql_ast::base::NamePos { name: n.as_deref(), pos: *p }),
            Wop::Indent => w.indent(),
            Wop::Dedent => w.dedent(),
        }
    }
}
fn just_of<T: GraphQLPrinter>(d: &T) -> String {
    let mut b = String::new();
    { let mut w = JustWriter::new(&mut b); d.print_graphql(&mut w); }
    b
}
fn js_of<T: GraphQLPrinter>(d: &T) -> String {
    let mut b = String::new();
    { let mut w = JsStringWriter::new(&mut b); d.print_graphql(&mut w); }
    b
}
fn rec_of<T: GraphQLPrinter>(d: &T) -> Vec<Wop> {
    let mut r = Rec::new();
    d.print_graphql(&mut r);
    r.0
}

// ------------------------------------------------------------------ string values of a document (for classification)

#[derive(Default)]
struct Strs(Vec<String>);
impl Strs {
    fn value(&mut self, v: &Value) {
        match v {
            Value::StringValue(s) => self.0.push(s.value.clone()),
            Value::ListValue(l) => for x in &l.values { self.value(x) },
            Value::ObjectValue(o) => for (_, x) in &o.fields { self.value(x) },
            _ => {}
        }
    }
    fn dirs(&mut self, ds: &[nitrogql_ast::directive::Directive]) {
        for d in ds { if let Some(a) = &d.arguments { for (_, v) in &a.arguments { self.value(v) } } }
    }
    fn desc(&mut self, d: &Option<nitrogql_ast::value::StringValue>) { if let Some(d) = d { self.0.push(d.value.clone()) } }
    fn inputval(&mut self, i: &InputValueDefinition) {
        self.desc(&i.description);
        if let Some(v) = &i.default_value { self.value(v) }
        self.dirs(&i.directives);
    }
    fn fields(&mut self, fs: &[FieldDefinition]) {
        for f in fs {
            self.desc(&f.description);
            if let Some(a) = &f.arguments { for i in &a.input_values { self.inputval(i) } }
            self.dirs(&f.directives);
        }
    }
    fn enumvals(&mut self, vs: &[EnumValueDefinition]) { for v in vs { self.desc(&v.description); self.dirs(&v.directives); } }
    fn typedef(&mut self, t: &TypeDefinition) {
        match t {
            TypeDefinition::Scalar(d) => { self.desc(&d.description); self.dirs(&d.directives) }
            TypeDefinition::Object(d) => { self.desc(&d.description); self.dirs(&d.directives); self.fields(&d.fields) }
            TypeDefinition::Interface(d) => { self.desc(&d.description); self.dirs(&d.directives); self.fields(&d.fields) }
            TypeDefinition::Union(d) => { self.desc(&d.description); self.dirs(&d.directives) }
            TypeDefinition::Enum(d) => { self.desc(&d.description); self.dirs(&d.directives); self.enumvals(&d.values) }
            TypeDefinition::InputObject(d) => { self.desc(&d.description); self.dirs(&d.directives); for i in &d.fields { self.inputval(i) } }
        }
    }
    fn typeext(&mut self, t: &TypeExtension) {
        match t {
            TypeExtension::Scalar(d) => self.dirs(&d.directives),
            TypeExtension::Object(d) => { self.dirs(&d.directives); self.fields(&d.fields) }
            TypeExtension::Interface(d) => { self.dirs(&d.directives); self.fields(&d.fields) }
            TypeExtension::Union(d) => self.dirs(&d.directives),
            TypeExtension::Enum(d) => { self.dirs(&d.directives); self.enumvals(&d.values) }
            TypeExtension::InputObject(d) => { self.dirs(&d.directives); for i in &d.fields { self.inputval(i) } }
        }
    }
    fn directivedef(&mut self, d: &DirectiveDefinition) {
        self.desc(&d.description);
        if let Some(a) = &d.arguments { for i in &a.input_values { self.inputval(i) } }
    }
    fn tsdoc_ext(&mut self, d: &TypeSystemOrExtensionDocument) {
        for x in &d.definitions {
            match x {
                TypeSystemDefinitionOrExtension::SchemaDefinition(s) => { self.desc(&s.description); self.dirs(&s.directives) }
                TypeSystemDefinitionOrExtension::TypeDefinition(t) => self.typedef(t),
                TypeSystemDefinitionOrExtension::DirectiveDefinition(d) => self.directivedef(d),
                TypeSystemDefinitionOrExtension::SchemaExtension(s) => self.dirs(&s.directives),
                TypeSystemDefinitionOrExtension::TypeExtension(t) => self.typeext(t),
            }
        }
    }
    fn tsdoc(&mut self, d: &TypeSystemDocument) {
        for x in &d.definitions {
            match x {
                TypeSystemDefinition::SchemaDefinition(s) => { self.desc(&s.description); self.dirs(&s.directives) }
                TypeSystemDefinition::TypeDefinition(t) => self.typedef(t),
                TypeSystemDefinition::DirectiveDefinition(d) => self.directivedef(d),
            }
        }
    }
    fn selset(&mut self, s: &SelectionSet) {
        for x in &s.selections {
            match x {
                Selection::Field(f) => {
                    if let Some(a) = &f.arguments { for (_, v) in &a.arguments { self.value(v) } }
                    self.dirs(&f.directives);
                    if let Some(s) = &f.selection_set { self.selset(s) }
                }
                Selection::FragmentSpread(f) => self.dirs(&f.directives),
                Selection::InlineFragment(f) => { self.dirs(&f.directives); self.selset(&f.selection_set) }
            }
        }
    }
    fn opdoc(&mut self, d: &OperationDocumentExt) {
        for x in &d.definitions {
            match x {
                ExecutableDefinitionExt::OperationDefinition(o) => {
                    if let Some(vs) = &o.variables_definition {
                        for v in &vs.definitions { if let Some(d) = &v.default_value { self.value(d) } self.dirs(&v.directives) }
                    }
                    self.dirs(&o.directives);
                    self.selset(&o.selection_set);
                }
                ExecutableDefinitionExt::FragmentDefinition(f) => { self.dirs(&f.directives); self.selset(&f.selection_set) }
                ExecutableDefinitionExt::Import(i) => self.0.push(i.path.value.clone()),
            }
        }
    }
}

/// features of a printed document that decide which known-finding classes a failure may belong to
fn features(strs: &[String], ops: &[Wop]) -> J {
    let mut unescaped = vec![];     // single-line value with a double quote or a backslash
    let mut block_delim = vec![];   // multi-line value containing three quotes in a row, or ending in a quote or a backslash
    let mut cr_in_block = false;    // multi-line value with a carriage return (template literal: CR, CRLF -> LF)
    for v in strs {
        if !v.contains('\n') {
            if v.contains('"') || v.contains('\\') { unescaped.push(v.clone()); }
        } else {
            if v.contains("\"\"\"") || v.ends_with('"') || v.ends_with('\\') { block_delim.push(v.clone()); }
            if v.contains('\r') { cr_in_block = true; }
        }
    }
    // a block-string chunk with a non-empty continuation line, written while the indent level is > 0
    let mut reindented = 0;
    let mut level: i64 = 0;
    for o in ops {
        match o {
            Wop::Indent => level += 1,
            Wop::Dedent => level = (level - 1).max(0),
            Wop::W(c) | Wop::WF(c, _, _) => {
                if level > 0 && c.starts_with("\"\"\"") && c.split('\n').skip(1).any(|l| !l.is_empty()) { reindented += 1; }
            }
        }
    }
    json!({"unescaped": unescaped, "block_delimiter": block_delim, "cr_in_block": cr_in_block, "block_reindented": reindented})
}

// ------------------------------------------------------------------ document cases

struct Out { cases: Cases, distinct: HashSet<String>, stats: BTreeMap<String, u64>, reparse_fail: u64 }
impl Out {
    fn bump(&mut self, k: &str) { *self.stats.entry(k.to_string()).or_insert(0) += 1; }
}

/// a type-system (or extension) document given as source text
fn ts_case(out: &mut Out, src: &str, stream: &str, full: bool) -> bool {
    let doc = match catch(AssertUnwindSafe(|| parse_type_system_document(src).map_err(|e| e.into_message()))) {
        Ok(Ok(d)) => d,
        _ => { out.bump(&format!("{stream}:source-rejected-by-parser")); return false; }
    };
    let ops = rec_of(&doc);
    let text = just_of(&doc);
    let js = js_of(&doc);
    let re = catch(AssertUnwindSafe(|| parse_type_system_document(&text).map(|d| ast_coq::tsdoc_ext(&d)).map_err(|e| e.into_message())));
    let (re_term, re_err) = match &re { Ok(Ok(t)) => (Some(t.clone()), None), Ok(Err(e)) => (None, Some(e.clone())), Err(p) => (None, Some(format!("panic: {p}"))) };
    if re_term.is_none() { out.reparse_fail += 1; }
    let mut st = Strs::default();
    st.tsdoc_ext(&doc);
    let mut feat = features(&st.0, &ops);
    let ext_schema_no_ops = doc.definitions.iter().any(|d| matches!(d, TypeSystemDefinitionOrExtension::SchemaExtension(s) if s.definitions.is_empty()));
    let ext_union_no_members = doc.definitions.iter().any(|d| matches!(d, TypeSystemDefinitionOrExtension::TypeExtension(TypeExtension::Union(u)) if u.members.is_empty()));
    feat["extend_schema_without_operations"] = json!(ext_schema_no_ops);
    feat["extend_union_without_members"] = json!(ext_union_no_members);
    out.distinct.insert(format!("ts|{src}"));
    out.bump(&format!("{stream}:documents"));
    let a_full = ast_coq::tsdoc_ext(&doc);
    let a_erased = compact(&a_full, true);
    let re_c = reparse_term(&a_erased, &re_term);
    let term = if full {
        format!("CTs {} (Some {}) {} (Some {}) {}", compact(&a_full, false), compact(&coq_ops(&ops), false), compact(&coq_text(&text), false), compact(&coq_text(&js), false), re_c)
    } else {
        format!("CTs {} None {} None {}", a_erased, compact(&coq_text(&text), false), re_c)
    };
    out.cases.push(term,
        json!({"kind":"ts","stream":stream,"full":full,"source":src,"printed":text,"template":js,"reparse_error":re_err,"reparsed_same":re_c == "ReSame","features":feat}));
    true
}

fn op_case(out: &mut Out, src: &str, stream: &str, full: bool) -> bool {
    let doc = match catch(AssertUnwindSafe(|| parse_operation_document(src).map_err(|e| e.into_message()))) {
        Ok(Ok(d)) => d,
        _ => { out.bump(&format!("{stream}:source-rejected-by-parser")); return false; }
    };
    let ops = rec_of(&doc);
    let text = just_of(&doc);
    let js = js_of(&doc);
    let re = catch(AssertUnwindSafe(|| parse_operation_document(&text).map(|d| ast_coq::opdoc_ext(&d)).map_err(|e| e.into_message())));
    let (re_term, re_err) = match &re { Ok(Ok(t)) => (Some(t.clone()), None), Ok(Err(e)) => (None, Some(e.clone())), Err(p) => (None, Some(format!("panic: {p}"))) };
    if re_term.is_none() { out.reparse_fail += 1; }
    let mut st = Strs::default();
    st.opdoc(&doc);
    let feat = features(&st.0, &ops);
    out.distinct.insert(format!("op|{src}"));
    out.bump(&format!("{stream}:documents"));
    let a_full = ast_coq::opdoc_ext(&doc);
    let a_erased = compact(&a_full, true);
    let re_c = reparse_term(&a_erased, &re_term);
    let term = if full {
        format!("COp {} (Some {}) {} (Some {}) {}", compact(&a_full, false), compact(&coq_ops(&ops), false), compact(&coq_text(&text), false), compact(&coq_text(&js), false), re_c)
    } else {
        format!("COp {} None {} None {}", a_erased, compact(&coq_text(&text), false), re_c)
    };
    out.cases.push(term,
        json!({"kind":"op","stream":stream,"full":full,"source":src,"printed":text,"template":js,"reparse_error":re_err,"reparsed_same":re_c == "ReSame","features":feat}));
    true
}

const MODEL_ADDITION: &str = "\ndirective @model(\n  # TypeScript type of this object. Only applicable for whole objects.\n  type: String\n) on OBJECT | FIELD_DEFINITION\n";

/// the resolved schema as the CLI builds it: parse, built-ins, nitrogql built-ins, plugin additions, resolve
fn resolved<'a>(src: &'a str, plugin: bool) -> Result<TypeSystemDocument<'a>, String> {
    let mut doc = parse_type_system_document(src).map_err(|e| format!("parse: {}", e.into_message()))?;
    doc.extend(graphql_builtins::generate_builtins());
    doc.extend(cli_builtins::nitrogql_builtins());
    if plugin {
        let add = parse_type_system_document(MODEL_ADDITION).map_err(|e| format!("addition: {}", e.into_message()))?;
        doc.extend(add.definitions);
    }
    resolve_schema_extensions(doc).map_err(|e| format!("resolve: {e:?}"))
}

/// where a directive is applied, for the classes of the server-schema stream
fn server_features(doc: &TypeSystemDocument, plugin: bool) -> J {
    let has = |ds: &[nitrogql_ast::directive::Directive], n: &str| ds.iter().any(|d| d.name.name == n);
    let mut model_elsewhere = false; // @model somewhere the runtime transform does not look (valid: interface fields)
    if plugin {
        for d in &doc.definitions {
            if let TypeSystemDefinition::TypeDefinition(t) = d {
                match t {
                    TypeDefinition::Interface(i) => { if has(&i.directives, "model") || i.fields.iter().any(|f| has(&f.directives, "model")) { model_elsewhere = true; } }
                    _ => {}
                }
            }
        }
    }
    json!({"model_on_interface": model_elsewhere})
}

fn server_case(out: &mut Out, src: &str, plugin: bool, stream: &str) -> bool {
    let doc = match catch(AssertUnwindSafe(|| resolved(src, plugin))) {
        Ok(Ok(d)) => d,
        _ => { out.bump(&format!("{stream}:source-rejected")); return false; }
    };
    // "valid schema model": the schema check and the plugin's own check accept it
    let invalid = !nitrogql_checker::check_type_system_document(&doc).is_empty()
        || (plugin && !(ModelPlugin {}).check_schema(&doc).errors.is_empty());
    if invalid {
        if std::env::var("C16_DEBUG").is_ok() { eprintln!("REJECTED {:?}\n{src}", nitrogql_checker::check_type_system_document(&doc).iter().map(|e| format!("{:?}", e.message)).collect::<Vec<_>>()); }
        out.bump(&format!("{stream}:schema-rejected-by-check")); return false;
    }
    let mut stripped = cli_builtins::remove_builtins(&doc);
    if plugin {
        if let Some(next) = (ModelPlugin {}).transform_document_for_runtime_server(&stripped) { stripped = next; }
    }
    let ops = rec_of(&stripped);
    let text = just_of(&stripped);
    let js = js_of(&stripped);
    let re = catch(AssertUnwindSafe(|| parse_type_system_document(&text).map(|d| ast_coq::tsdoc_ext(&d)).map_err(|e| e.into_message())));
    let (re_term, re_err) = match &re { Ok(Ok(t)) => (Some(t.clone()), None), Ok(Err(e)) => (None, Some(e.clone())), Err(p) => (None, Some(format!("panic: {p}"))) };
    if re_term.is_none() { out.reparse_fail += 1; }
    let mut st = Strs::default();
    st.tsdoc(&stripped);
    let mut feat = features(&st.0, &ops);
    feat["server"] = server_features(&doc, plugin);
    out.distinct.insert(format!("server|{plugin}|{src}"));
    out.bump(&format!("{stream}:documents"));
    let stripped_full = ast_coq::tsdoc(&stripped);
    let re_c = reparse_term(&compact(&stripped_full, true), &re_term);
    out.cases.push(
        format!("CServer {} {} {} {} {} {} {}", coq_bool(plugin), compact(&ast_coq::tsdoc(&doc), false), compact(&stripped_full, false), compact(&coq_ops(&ops), false),
                compact(&coq_text(&text), false), compact(&coq_text(&js), false), re_c),
        json!({"kind":"server","stream":stream,"model_plugin":plugin,"source":src,"printed":text,"template":js,"reparse_error":re_err,"reparsed_same":re_c == "ReSame","features":feat}));
    true
}

// ------------------------------------------------------------------ generators of source text

const PLAIN_STRS: &[&str] = &["", "a description", "x", "unicode \u{e9} \u{65e5}\u{672c} \u{1F600}", "tick ` and ${x} and $ { }", "tab\there", "cr\rhere", "bell\u{7}del\u{7f}nel\u{85}", "  padded  ", "# not a comment", "a, b", "{}[]()!@$&|=:...", "'single'", "/* c */ // d"];
const PLAIN_MULTI: &[&str] = &["multi\nline", "first\n\nthird", "trailing newline\n", "\nleading newline", "a\n  indented\n    more\n", "ends in two \"\"\n\"quotes\" inside\nfine", "dollar ${\nbrace} `tick`\n"];
const ADV_STRS: &[&str] = &["with \"quotes\"", "back\\slash", "\\", "\"", "ends with backslash\\", "\\n not a newline", "\\u{41}", "\\\"", "a\"b\\c", "\\u0041 \\t \\/", "quote \" and ${x} and `"];
const ADV_MULTI: &[&str] = &["ends with quote\n\"", "tri\"\"\"ple\n", "x\\\"\"\"y\n", "ends with backslash\n\\", "cr\r\nlf", "lone cr\rthen\nlf", "\"\"\"\n", "a\n\"\"\"\"\"\"b"];

fn lit_normal(v: &str, rng: &mut Rng) -> String {
    let mut o = String::from("\"");
    for c in v.chars() {
        match c {
            '"' => o.push_str("\\\""),
            '\\' => o.push_str("\\\\"),
            '\n' => o.push_str("\\n"),
            '\r' => o.push_str("\\r"),
            '\t' => o.push_str(if rng.chance(1, 2) { "\\t" } else { "\\u0009" }),
            '/' if rng.chance(1, 3) => o.push_str("\\/"),
            c if (c as u32) < 0x20 || (0x7f..0xa0).contains(&(c as u32)) => o.push_str(&if rng.chance(1, 2) { format!("\\u{:04x}", c as u32) } else { format!("\\u{{{:X}}}", c as u32) }),
            c if (c as u32) > 0xffff && rng.chance(2, 3) => {
                // variable-width escape, or a surrogate pair of fixed-width escapes (decoded since /repo a4a3647)
                if rng.chance(1, 2) { o.push_str(&format!("\\u{{{:x}}}", c as u32)); }
                else { let v = c as u32 - 0x10000; o.push_str(&format!("\\u{:04x}\\u{:04X}", 0xd800 + (v >> 10), 0xdc00 + (v & 0x3ff))); }
            }
            c => o.push(c),
        }
    }
    o.push('"');
    o
}
/// a literal whose nitrogql value is `v`: a quoted string with escapes, or (when `v` can be written that way) a block string
fn lit(v: &str, rng: &mut Rng) -> String {
    let block_ok = !v.contains("\"\"\"") && !v.ends_with('"') && !v.ends_with('\\');
    if block_ok && (v.contains('\n') && rng.chance(1, 2) || rng.chance(1, 8)) { format!("\"\"\"{v}\"\"\"") } else { lit_normal(v, rng) }
}

#[derive(Clone, Copy, PartialEq)]
enum Mode { Plain, Adversarial }

struct Syn<'a> { rng: &'a mut Rng, mode: Mode, top: bool }
impl<'a> Syn<'a> {
    fn name(&mut self) -> String {
        (*self.rng.pick(&["a", "b", "id", "user", "Node", "T1", "_x", "__y", "on", "query", "type", "input", "extend", "schema", "fragment", "implements", "repeatable", "from", "import", "E_1", "nullable", "trueish", "Float"])).to_string()
    }
    fn tyname(&mut self) -> String { (*self.rng.pick(&["Int", "String", "Boolean", "ID", "Float", "T", "U", "In", "E", "Node", "on", "type"])).to_string() }
    fn ty(&mut self, d: usize) -> String {
        match self.rng.below(if d > 2 { 2 } else { 4 }) {
            0 => self.tyname(),
            1 => format!("{}!", self.tyname()),
            2 => format!("[{}]", self.ty(d + 1)),
            _ => format!("[{}]!", self.ty(d + 1)),
        }
    }
    /// a string value; multi-line values only where the caller says the literal is printed at indent 0
    fn string(&mut self, multi_ok: bool) -> String {
        let v: &str = match self.mode {
            Mode::Plain => if multi_ok && self.rng.chance(1, 3) { *self.rng.pick(PLAIN_MULTI) } else { *self.rng.pick(PLAIN_STRS) },
            Mode::Adversarial => match self.rng.below(6) {
                0 => *self.rng.pick(PLAIN_STRS), 1 => *self.rng.pick(PLAIN_MULTI), 2 | 3 => *self.rng.pick(ADV_STRS), _ => *self.rng.pick(ADV_MULTI),
            },
        };
        lit(v, self.rng)
    }
    fn value(&mut self, d: usize, konst: bool) -> String {
        let n = if d > 2 { 7 } else { 9 };
        match self.rng.below(n) {
            0 => (*self.rng.pick(&["0", "-0", "7", "-12", "123456789012345678901234567890"])).to_string(),
            1 => (*self.rng.pick(&["1.5", "-0.25", "2e3", "1.0E-2", "6.02e+23", "0.0", "1."])).to_string(),
            2 => self.string(false),
            3 => (*self.rng.pick(&["true", "false"])).to_string(),
            4 => "null".to_string(),
            5 => (*self.rng.pick(&["RED", "on", "type", "nullx", "truely", "query", "E_1"])).to_string(),
            6 => if konst { "1".into() } else { format!("${}", self.name()) },
            7 => { let k = self.rng.below(4); let xs: Vec<String> = (0..k).map(|_| self.value(d + 1, konst)).collect(); format!("[{}]", xs.join(if self.rng.chance(1, 2) { ", " } else { " " })) }
            _ => { let k = self.rng.below(4); let xs: Vec<String> = (0..k).map(|_| format!("{}: {}", self.name(), self.value(d + 1, konst))).collect(); format!("{{{}}}", xs.join(", ")) }
        }
    }
    fn args(&mut self, konst: bool) -> String {
        let k = self.rng.range(1, 3);
        let xs: Vec<String> = (0..k).map(|_| format!("{}: {}", self.name(), self.value(0, konst))).collect();
        format!("({})", xs.join(", "))
    }
    fn dirs(&mut self, konst: bool) -> String {
        let mut o = String::new();
        for _ in 0..(match self.rng.below(6) { 0..=3 => 0, 4 => 1, _ => 2 }) {
            o.push_str(" @");
            o.push_str(&self.name());
            if self.rng.chance(1, 2) { o.push_str(&self.args(konst)); }
        }
        o
    }
    /// description: `top` = printed at indent 0
    fn desc(&mut self, top: bool, ind: &str) -> String {
        if !self.rng.chance(1, 3) { return String::new(); }
        format!("{}{}\n", ind, self.string(top))
    }
    fn inputval(&mut self, ind: &str, sep: &str) -> String {
        format!("{}{}{}: {}{}{}{}", self.desc(false, ind), ind, self.name(), self.ty(0),
                if self.rng.chance(1, 3) { format!(" = {}", self.value(0, true)) } else { String::new() }, self.dirs(true), sep)
    }
    fn argsdef(&mut self) -> String {
        if !self.rng.chance(1, 3) { return String::new(); }
        let k = self.rng.range(1, 3);
        let mut o = String::from("(");
        for i in 0..k { o.push_str(&self.inputval(" ", if i + 1 < k { "," } else { "" })); }
        o.push(')');
        o
    }
    fn fields(&mut self) -> String {
        let k = self.rng.range(1, 4);
        let mut o = String::from(" {\n");
        for _ in 0..k { o.push_str(&format!("{}  {}{}: {}{}\n", self.desc(false, "  "), self.name(), self.argsdef(), self.ty(0), self.dirs(true))); }
        o.push('}');
        o
    }
    fn implements(&mut self) -> String {
        match self.rng.below(5) { 0 => " implements Node".into(), 1 => " implements & Node & T1".into(), 2 => " implements A & B & C".into(), _ => String::new() }
    }
    fn enumvals(&mut self) -> String {
        let k = self.rng.range(1, 4);
        let mut o = String::from(" {\n");
        for _ in 0..k { o.push_str(&format!("{}  {}{}\n", self.desc(false, "  "), self.rng.pick(&["RED", "GREEN", "on", "type", "nullable", "E_1"]), self.dirs(true))); }
        o.push('}');
        o
    }
    fn inputfields(&mut self) -> String {
        let k = self.rng.range(1, 3);
        let mut o = String::from(" {\n");
        for _ in 0..k { o.push_str(&self.inputval("  ", "\n")); }
        o.push('}');
        o
    }
    fn rootops(&mut self) -> String {
        let mut ops = vec!["query", "mutation", "subscription"];
        self.rng.shuffle(&mut ops);
        let k = self.rng.range(1, 3);
        let mut o = String::from(" {");
        for t in &ops[..k] { o.push_str(&format!(" {}: {}", t, self.tyname())); }
        o.push_str(" }");
        o
    }
    /// one type-system definition or extension; `exts`: extensions allowed
    fn tsdef(&mut self, exts: bool) -> String {
        let n = if exts { 16 } else { 8 };
        match self.rng.below(n) {
            0 => format!("{}scalar {}{}", self.desc(true, ""), self.name(), self.dirs(true)),
            1 => { let d = self.desc(true, ""); let n = self.name(); let im = self.implements(); let ds = self.dirs(true); let body = if self.rng.chance(4, 5) { self.fields() } else { String::new() }; format!("{d}type {n}{im}{ds}{body}") }
            2 => { let d = self.desc(true, ""); let n = self.name(); let im = self.implements(); let ds = self.dirs(true); let body = if self.rng.chance(3, 4) { self.fields() } else { String::new() }; format!("{d}interface {n}{im}{ds}{body}") }
            3 => { let d = self.desc(true, ""); let n = self.name(); let ds = self.dirs(true); let ms = match self.rng.below(5) { 0 => " = A".to_string(), 1 => " = | A | B".into(), 2 => " = A | B | on".into(), 3 => String::new(), _ => " = A|B".into() }; format!("{d}union {n}{ds}{ms}") }
            4 => { let d = self.desc(true, ""); let n = self.name(); let ds = self.dirs(true); let body = if self.rng.chance(3, 4) { self.enumvals() } else { String::new() }; format!("{d}enum {n}{ds}{body}") }
            5 => { let d = self.desc(true, ""); let n = self.name(); let ds = self.dirs(true); let body = if self.rng.chance(3, 4) { self.inputfields() } else { String::new() }; format!("{d}input {n}{ds}{body}") }
            6 => { let d = self.desc(true, ""); let n = self.name(); let a = self.argsdef(); let rep = if self.rng.chance(1, 3) { " repeatable" } else { "" };
                   let locs = match self.rng.below(4) { 0 => "FIELD", 1 => "| QUERY | FIELD_DEFINITION", 2 => "SCALAR | OBJECT | ENUM_VALUE | INPUT_FIELD_DEFINITION", _ => "FRAGMENT_SPREAD|INLINE_FRAGMENT|VARIABLE_DEFINITION" };
                   format!("{d}directive @{n}{a}{rep} on {locs}") }
            7 => format!("{}schema{}{}", self.desc(true, ""), self.dirs(true), self.rootops()),
            8 => format!("extend scalar {} @{}", self.name(), self.name()),
            9 => { let n = self.name(); match self.rng.below(3) { 0 => format!("extend type {n}{}{}{}", self.implements(), self.dirs(true), self.fields()), 1 => format!("extend type {n}{} @d", self.implements()), _ => format!("extend type {n} implements Node") } }
            10 => { let n = self.name(); match self.rng.below(3) { 0 => format!("extend interface {n}{}{}{}", self.implements(), self.dirs(true), self.fields()), 1 => format!("extend interface {n} @d"), _ => format!("extend interface {n} implements Node") } }
            11 => { let n = self.name(); if self.mode == Mode::Adversarial && self.rng.chance(1, 3) { format!("extend union {n} @d") } else { format!("extend union {n}{} = A | B", self.dirs(true)) } }
            12 => { let n = self.name(); if self.rng.chance(1, 3) { format!("extend enum {n} @d") } else { format!("extend enum {n}{}{}", self.dirs(true), self.enumvals()) } }
            13 => { let n = self.name(); if self.rng.chance(1, 3) { format!("extend input {n} @d") } else { format!("extend input {n}{}{}", self.dirs(true), self.inputfields()) } }
            14 => if self.rng.chance(1, 3) { format!("extend schema @{}{}", self.name(), if self.rng.chance(1, 2) { " @d(a: 1)" } else { "" }) } else { format!("extend schema{}{}", self.dirs(true), self.rootops()) },
            _ => format!("{}scalar {}", self.desc(true, ""), self.name()),
        }
    }
    fn tsdoc(&mut self, exts: bool) -> String {
        let k = self.rng.range(1, 6);
        let mut o = String::new();
        for _ in 0..k {
            o.push_str(&self.tsdef(exts));
            o.push_str(*self.rng.pick(&["\n", "\n\n", "\n# a comment\n", " ,\n"]));
        }
        o
    }
    fn selset(&mut self, d: usize) -> String {
        let k = self.rng.range(1, if d > 2 { 2 } else { 4 });
        let mut o = String::from("{");
        for _ in 0..k {
            o.push(' ');
            match self.rng.below(if d > 2 { 6 } else { 10 }) {
                0..=4 => {
                    if self.rng.chance(1, 4) { o.push_str(&format!("{}: ", self.name())); }
                    o.push_str(&self.name());
                    if self.rng.chance(1, 3) { o.push_str(&self.args(false)); }
                    o.push_str(&self.dirs(false));
                    if d <= 2 && self.rng.chance(1, 3) { o.push(' '); o.push_str(&self.selset(d + 1)); }
                }
                5 => { let n = *self.rng.pick(&["F", "G", "fragment", "query", "onx", "type"]); o.push_str(&format!("...{}{}", n, self.dirs(false))); }
                6 | 7 => { o.push_str(&format!("... on {}{} {}", self.tyname(), self.dirs(false), self.selset(d + 1))); }
                _ => { o.push_str(&format!("...{} {}", self.dirs(false), self.selset(d + 1))); }
            }
        }
        o.push_str(" }");
        o
    }
    fn vardefs(&mut self) -> String {
        if !self.rng.chance(1, 2) { return String::new(); }
        let k = self.rng.range(1, 3);
        let xs: Vec<String> = (0..k).map(|_| format!("${}: {}{}{}", self.name(), self.ty(0), if self.rng.chance(1, 2) { format!(" = {}", self.value(0, true)) } else { String::new() }, self.dirs(true))).collect();
        format!("({})", xs.join(", "))
    }
    fn opdoc(&mut self, imports: bool) -> String {
        let mut o = String::new();
        if imports {
            for _ in 0..self.rng.below(3) {
                let t = *self.rng.pick(&["*", "A", "A, B", "A B , C", "*, A", "query, on"]);
                let p = match self.mode { Mode::Plain => *self.rng.pick(&["./frag.graphql", "../a b/c.graphql", "x", "\u{e9}.graphql"]), Mode::Adversarial => *self.rng.pick(&["./fr\"ag.graphql", "C:\\dir\\f.graphql", "./ok.graphql"]) };
                o.push_str(&format!("#import {} from {}\n", t, lit_normal(p, self.rng)));
            }
        }
        let k = self.rng.range(1, 3);
        for _ in 0..k {
            match self.rng.below(6) {
                0 => o.push_str(&self.selset(0)),
                1 | 2 | 3 => {
                    let t = *self.rng.pick(&["query", "mutation", "subscription"]);
                    let n = if self.rng.chance(2, 3) { format!(" {}", self.name()) } else { String::new() };
                    o.push_str(&format!("{}{}{}{} {}", t, n, self.vardefs(), self.dirs(false), self.selset(0)));
                }
                _ => { let n = *self.rng.pick(&["F", "G", "fragment", "query", "onx"]); o.push_str(&format!("fragment {} on {}{} {}", n, self.tyname(), self.dirs(false), self.selset(0))); }
            }
            o.push_str(*self.rng.pick(&["\n", "\n\n", " # c\n"]));
        }
        o
    }
}

// ------------------------------------------------------------------ node: real template-literal evaluation

const NODE_EVAL: &str = r#"
import fs from 'node:fs';
const srcs = JSON.parse(fs.readFileSync(process.argv[2], 'utf8'));
let calls = 0, last = null;
globalThis.__T = (strs, ...subs) => { calls++; last = (subs.length === 0 && strs.length === 1 && strs[0] !== undefined) ? { v: strs[0], raw: strs.raw[0] } : null; return last; };
const out = srcs.map(src => {
  calls = 0; last = null;
  try { const r = (0, eval)('__T' + src); if (!(calls === 1 && r !== null && r === last)) return null;
    // the whole source must be one template literal (the specification side evaluates a literal, not a program:
    // `a`// comment  or  `a` ;  are programs): its raw text is the source between the backticks, CR / CR LF as LF
    if (!(src.length >= 2 && src[0] === '`' && src[src.length - 1] === '`' && r.raw === src.slice(1, -1).replace(/\r\n?/g, '\n'))) return null;
    return r.v.isWellFormed() ? r.v : false; } catch (e) { return null; }
});
fs.writeFileSync(process.argv[3], JSON.stringify(out));
"#;
const NODE_IMPORT: &str = r#"
import fs from 'node:fs';
import { pathToFileURL } from 'node:url';
const files = JSON.parse(fs.readFileSync(process.argv[2], 'utf8'));
const out = [];
for (const f of files) { try { const m = await import(pathToFileURL(f).href); out.push(typeof m.schema === 'string' ? m.schema : null); } catch (e) { out.push(null); } }
fs.writeFileSync(process.argv[3], JSON.stringify(out));
"#;

/// one entry per input: Some(Some(v)) a value, Some(None) no value (error / substitution), None = outside the model
/// (a string with a lone surrogate, which a Rust string cannot hold)
fn node_run(script: &str, input: &J, dir: &Path) -> Option<Vec<Option<Option<String>>>> {
    std::fs::create_dir_all(dir).ok()?;
    let sp = dir.join("script.mjs"); let ip = dir.join("in.json"); let op = dir.join("out.json");
    std::fs::write(&sp, script).ok()?;
    std::fs::write(&ip, serde_json::to_string(input).ok()?).ok()?;
    let _ = std::fs::remove_file(&op);
    let st = Command::new("node").arg(&sp).arg(&ip).arg(&op).output().ok()?;
    if !st.status.success() { return None; }
    let txt = std::fs::read_to_string(&op).ok()?;
    let v: Vec<J> = serde_json::from_str(&txt).ok()?;
    Some(v.into_iter().map(|x| match x { J::String(s) => Some(Some(s)), J::Null => Some(None), _ => None }).collect())
}

fn random_template(rng: &mut Rng) -> String {
    const PIECES: &[&str] = &["a", "b", " ", "\n", "\r", "\r\n", "$", "{", "}", "${", "\\", "\\\\", "\\`", "\\$", "\\{", "`", "\\n", "\\r", "\\t", "\\b", "\\f", "\\v", "\\0", "\\00", "\\1", "\\8", "\\x41", "\\x4", "\\xg1", "\\u0041", "\\u00e9", "\\u004", "\\u{41}", "\\u{1F600}", "\\u{110000}", "\\u{}", "\\u{0000041}", "\\ud800", "\\'", "\\\"", "\\q", "\\\n", "\\\r\n", "\\\u{2028}", "\u{2028}", "\u{e9}", "\u{1F600}", "0", "7", "x", "u", "/*", "//", "'", "\""];
    let n = rng.below(7);
    let mut b = String::from("`");
    for _ in 0..n {
        // mostly well-formed bodies: an unescaped backtick or substitution only now and then
        let p = *rng.pick(PIECES);
        if (p == "`" || p == "${") && !rng.chance(1, 4) { continue; }
        b.push_str(p);
    }
    if !rng.chance(1, 25) { b.push('`'); }
    if rng.chance(1, 40) { b.push_str(*rng.pick(&["x", "`a`"])); }
    b
}

// ------------------------------------------------------------------ end-to-end: the real CLI

fn cli_cases(out: &mut Out, rng: &mut Rng, cli: &Path, n: usize, work: &Path, use_node: bool) -> J {
    let _ = std::fs::remove_dir_all(work);
    let mut jobs: Vec<(bool, String, PathBuf)> = vec![];
    let mut failed = 0;
    for i in 0..n {
        let plugin = i % 2 == 1;
        let src = server_source(rng, plugin, Mode::Plain);
        let dir = work.join(format!("p{i}"));
        std::fs::create_dir_all(&dir).unwrap();
        std::fs::write(dir.join("schema.graphql"), &src).unwrap();
        let cfg = format!("schema: ./schema.graphql\nextensions:\n  nitrogql:\n{}    generate:\n      schemaOutput: ./out/schema.d.ts\n      serverGraphqlOutput: ./out/schema.mjs\n      type:\n        scalarTypes:\n          Extra: string\n          Date: string\n          JSON: string\n          Url: string\n",
                          if plugin { "    plugins:\n      - \"nitrogql:model-plugin\"\n" } else { "" });
        std::fs::write(dir.join("graphql.config.yaml"), cfg).unwrap();
        let st = Command::new(cli).arg("generate").current_dir(&dir).output();
        let ok = matches!(&st, Ok(o) if o.status.success()) && dir.join("out/schema.mjs").exists();
        if !ok { failed += 1; continue; }
        jobs.push((plugin, src, dir.join("out/schema.mjs")));
    }
    let values: Option<Vec<Option<String>>> = if use_node {
        node_run(NODE_IMPORT, &json!(jobs.iter().map(|j| j.2.to_str().unwrap().to_string()).collect::<Vec<_>>()), &work.join("node"))
            .map(|vs| vs.into_iter().map(|v| v.flatten()).collect())
    } else { None };
    let mut emitted = 0;
    for (k, (plugin, src, file)) in jobs.iter().enumerate() {
        let text = std::fs::read_to_string(file).unwrap();
        let doc = match catch(AssertUnwindSafe(|| resolved(src, *plugin))) { Ok(Ok(d)) => d, _ => continue };
        let v: Option<String> = values.as_ref().and_then(|vs| vs[k].clone());
        // without node the exported value is not observed: the case then only ties the module text
        let re = v.as_ref().and_then(|v| catch(AssertUnwindSafe(|| parse_type_system_document(v).map(|d| ast_coq::tsdoc_ext(&d)).ok())).ok().flatten());
        emitted += 1;
        // the strings of the stripped schema decide the known-finding classes, as for the server stream
        let mut stripped = cli_builtins::remove_builtins(&doc);
        if *plugin { if let Some(next) = (ModelPlugin {}).transform_document_for_runtime_server(&stripped) { stripped = next; } }
        let mut st = Strs::default();
        st.tsdoc(&stripped);
        let mut feat = features(&st.0, &rec_of(&stripped));
        feat["server"] = server_features(&doc, *plugin);
        out.distinct.insert(format!("module|{plugin}|{src}"));
        out.cases.push(
            format!("CModule {} {} {} {} {} {}", coq_bool(*plugin), compact(&ast_coq::tsdoc(&doc), true), compact(&coq_text(&text), false), coq_bool(values.is_some()),
                    coq_opt(&v, |x| compact(&coq_text(x), false)), match &re { Some(t) => format!("(ReDiff {})", compact(t, true)), None => "ReNone".into() }),
            json!({"kind":"module","model_plugin":plugin,"source":src,"module_text":text,"node_value":v,"node_used":values.is_some(),"features":feat}));
    }
    json!({"cli_projects": n, "cli_failed": failed, "module_cases": emitted, "node_used": values.is_some()})
}

/// user-defined directives named like the nitrogql-only `nitrogql_ts_type` (same prefix / containing it / extending it)
const LOOKALIKE_DIRECTIVES: &str = "directive @nitrogql_cache(ttl: Int = 60) repeatable on FIELD_DEFINITION | OBJECT | SCALAR | ARGUMENT_DEFINITION | ENUM_VALUE\n\"not the built-in\"\ndirective @nitrogql_ts_type2 on FIELD_DEFINITION | OBJECT | SCALAR | ARGUMENT_DEFINITION | ENUM_VALUE\ndirective @my_nitrogql_ts_type(resolverInput: String) on FIELD_DEFINITION | OBJECT | SCALAR | ARGUMENT_DEFINITION | ENUM_VALUE\n";
/// directives that may stand next to @model (all valid on object types and their fields)
const MIX_DIRECTIVES: &str = "directive @da on OBJECT | FIELD_DEFINITION\ndirective @db(x: Int) repeatable on OBJECT | FIELD_DEFINITION\ndirective @dc on OBJECT | FIELD_DEFINITION\ndirective @dx on OBJECT\ndirective @dy on OBJECT\n";
/// `model` among 2-3 other directive applications, at the first, a middle or the last position: removing it must keep
/// the others in their order
fn dir_mix(rng: &mut Rng, model: &str) -> String {
    let mut ds: Vec<String> = vec!["@da".into(), format!("@db(x: {})", rng.below(3)), "@dc".into()];
    if rng.chance(1, 2) { ds.push(format!("@db(x: {})", 3 + rng.below(3))); }
    if rng.chance(1, 4) { ds.remove(rng.below(3)); }
    rng.shuffle(&mut ds);
    let pos = rng.below(ds.len() + 1);
    ds.insert(pos, model.to_string());
    ds.join(" ")
}
/// corpus: @model first / middle / last among four applications, on object types and on fields, and with an extension
const MODEL_ORDER_CORPUS: &str = "type Query @model(type: \"M\") @da @db(x: 1) @dc { a: Int }\ntype A @da @model(type: \"M\") @db(x: 1) @dc { a: Int }\ntype B @da @db(x: 1) @dc @model(type: \"M\") { a: Int }\ntype C {\n  f: Int @model @da @db(x: 1) @dc\n  g: Int @da @model @db(x: 1) @dc\n  h: Int @da @db(x: 1) @dc @model\n  i: Int @deprecated @model @db(x: 1) @db(x: 2)\n}\ntype D @model(type: \"M\") @da { a: Int }\nextend type D @dx @dy\ntype E @da @model(type: \"M\") { a: Int }\nextend type E @db(x: 1) @dx\n";

/// a valid schema (gen.rs) decorated with what the server output must strip
fn server_source(rng: &mut Rng, plugin: bool, mode: Mode) -> String {
    let s = gen_schema(rng, &SchemaCfg { descriptions: mode == Mode::Adversarial, custom_directives: true });
    let mut src = s.render();
    // descriptions with template- and string-relevant characters on types (printed at indent 0: multi-line allowed
    // in the plain stream) and on fields / enum values / input fields (indent 2)
    {
        let mut o = String::new();
        let mut in_schema_block = false;
        let mut in_block_string = false;
        let mut prev_desc = false;
        for line in src.lines() {
            // descriptions the generator already wrote: leave them and what they describe alone
            let quotes3 = line.matches("\"\"\"").count();
            if in_block_string || quotes3 > 0 || line.trim_start().starts_with('"') {
                if quotes3 % 2 == 1 { in_block_string = !in_block_string; }
                prev_desc = true;
                o.push_str(line); o.push('\n');
                continue;
            }
            if prev_desc { prev_desc = false; o.push_str(line); o.push('\n'); continue; }
            if line.starts_with("schema") { in_schema_block = true; }
            let top = ["type ", "interface ", "union ", "enum ", "input ", "scalar "].iter().any(|k| line.starts_with(k));
            let member = line.starts_with("  ") && !line.starts_with("   ") && !line.starts_with("  \"") && !in_schema_block;
            if (top || member) && rng.chance(1, 4) {
                let mut syn = Syn { rng, mode, top: true };
                let d = syn.string(top);
                // a block literal keeps its text: do not indent it
                if member && !d.contains('\n') { o.push_str("  "); }
                o.push_str(&d); o.push('\n');
            }
            if line.starts_with('}') { in_schema_block = false; }
            o.push_str(line); o.push('\n');
        }
        src = o;
    }
    // nitrogql_ts_type on scalars; @model(type: …) on object types, or @model on fields of objects without it
    // (what the plugin's check accepts); in the adversarial stream also on interface / input fields (rejected by the checks)
    let mut o = String::new();
    let mut kind = "";          // kind of the definition the current line belongs to
    let mut obj_model = false;
    let mut extensions: Vec<String> = vec![];
    for line in src.lines() {
        if !line.starts_with(' ') && !line.starts_with('}') { kind = line.split(' ').next().unwrap_or(""); obj_model = false; }
        if line.starts_with("scalar ") && rng.chance(2, 3) {
            o.push_str(&format!("{line} @nitrogql_ts_type(resolverInput: \"string\", resolverOutput: \"Date | string\", operationInput: \"string\", operationOutput: \"string\")\n"));
        } else if plugin && line.starts_with("type ") && line.ends_with(" {") && rng.chance(1, 3) {
            obj_model = true;
            let name = line.split(' ').nth(1).unwrap_or("").to_string();
            let ds = dir_mix(rng, "@model(type: \"import('./m').M\")");
            o.push_str(&line.replacen(" {", &format!(" {ds} {{"), 1)); o.push('\n');
            // directives appended by an extension are merged after the definition's own
            if rng.chance(1, 2) { extensions.push(format!("extend type {name} {}", if rng.chance(1, 2) { "@dx" } else { "@dx @dy" })); }
        } else if plugin && line.starts_with("  ") && line.contains(": ") && !obj_model && rng.chance(1, 5)
            && (kind == "type" || (mode == Mode::Adversarial && (kind == "interface" || kind == "input"))) {
            let ds = if kind == "type" { dir_mix(rng, "@model") } else { "@model".to_string() };
            o.push_str(&format!("{line} {ds}\n"));
        } else { o.push_str(line); o.push('\n'); }
    }
    src = o;
    // user-defined directives whose names merely resemble the nitrogql-only one: they are part of the checked schema and
    // must survive, definition and every application (objects, fields, arguments, enum values, scalars)
    {
        let mut o = String::new();
        let mut kind = "";
        let mut used = false;
        for line in src.lines() {
            if !line.starts_with(' ') && !line.starts_with('}') { kind = line.split(' ').next().unwrap_or(""); }
            let is_desc = line.trim_start().starts_with('"');
            let mut l = line.to_string();
            if !is_desc && rng.chance(1, 4) {
                let d = match rng.below(4) { 0 => "@nitrogql_cache".to_string(), 1 => format!("@nitrogql_cache(ttl: {})", rng.below(9)), 2 => "@nitrogql_ts_type2".to_string(), _ => "@my_nitrogql_ts_type(resolverInput: \"x\")".to_string() };
                if line.starts_with("scalar ") { l = format!("{l} {d}"); used = true; }
                else if line.starts_with("type ") && line.ends_with(" {") { l = l.replacen(" {", &format!(" {d} {{"), 1); used = true; }
                else if (kind == "type" || kind == "interface") && line.starts_with("  ") && line.contains(": ") {
                    if line.contains("): ") && rng.chance(1, 2) { l = l.replacen("): ", &format!(" {d}): "), 1); } else { l = format!("{l} {d}"); }
                    used = true;
                }
                else if kind == "enum" && line.starts_with("  ") && !line.contains(':') { l = format!("{l} {d}"); used = true; }
            }
            o.push_str(&l); o.push('\n');
        }
        src = o;
        if used || rng.chance(1, 2) { src.push_str(LOOKALIKE_DIRECTIVES); }
        else { src = src.replace(" @nitrogql_cache", ""); }
    }
    if plugin {
        src.push_str(MIX_DIRECTIVES);
        for e in &extensions { src.push_str(e); src.push('\n'); }
    }
    // descriptions and an extension, so that merging and description printing are exercised
    let mut syn = Syn { rng, mode, top: true };
    let _ = syn.top;
    let d = syn.string(true);
    src = format!("{d}\nscalar Extra\nextend scalar Extra @specifiedBy(url: {})\n{src}", syn.string(false));
    src
}

// ------------------------------------------------------------------ main

/// the guard `plain` of coq/C16/Model.v (statistics only)
fn is_plain(x: &str) -> bool {
    if x.contains('\n') { !x.contains("\"\"\"") && !x.ends_with('"') && !x.ends_with('\\') } else { !x.contains('"') && !x.contains('\\') }
}
fn str_case(out: &mut Out, x: &str) {
    out.bump(if is_plain(x) { "strings:plain (theorem applies)" } else { "strings:not plain" });
    let mut b = String::new();
    { let mut w = JustWriter::new(&mut b); print_string(x, &mut w); }
    out.distinct.insert(format!("str|{x}"));
    out.cases.push(format!("CStr {} {}", compact(&coq_str(x), false), compact(&coq_str(&b), false)), json!({"kind":"string","value":x,"printed":b}));
}

fn writer_case(out: &mut Out, ops: &[Wop]) {
    let mut b = String::new();
    { let mut w = JustWriter::new(&mut b); run_ops(&mut w, ops); }
    let mut j = String::new();
    { let mut w = JsStringWriter::new(&mut j); run_ops(&mut w, ops); }
    let chunks: Vec<&str> = ops.iter().filter_map(|o| match o { Wop::W(s) | Wop::WF(s, _, _) => Some(s.as_str()), _ => None }).collect();
    let non_empty: Vec<&str> = chunks.iter().cloned().filter(|c| !c.is_empty()).collect();
    let split_dollar = non_empty.windows(2).any(|w| w[0].ends_with('$') && w[1].starts_with('{'));
    let has_cr = chunks.iter().any(|c| c.contains('\r'));
    out.distinct.insert(format!("w|{:?}", ops));
    out.cases.push(format!("CWriter {} {} {}", compact(&coq_ops(ops), false), compact(&coq_text(&b), false), compact(&coq_text(&j), false)),
                   json!({"kind":"writer","ops":format!("{:?}", ops),"just":b,"template":j,"features":{"dollar_brace_split_across_writes":split_dollar,"carriage_return":has_cr}}));
}

fn main() {
    silence_panics();
    let args = parse_args();
    let thorough = args.tier == "thorough";
    let mut rng = Rng::new(args.seed);
    let mut cli: Option<PathBuf> = None;
    let mut use_node = true;
    let mut i = 0;
    while i < args.extra.len() {
        match args.extra[i].as_str() { "--cli" => { cli = Some(PathBuf::from(&args.extra[i + 1])); i += 2; } "--no-node" => { use_node = false; i += 1; } _ => { i += 1; } }
    }
    let cases = Cases::new("From V Require Import Base.Util Gql.Ast Writer.Wop C16.Model C16.Spec C16.Corr.", "case", "agree", "holds", if thorough { 800 } else { 170 });
    let mut out = Out { cases, distinct: HashSet::new(), stats: BTreeMap::new(), reparse_fail: 0 };

    // 0. corpus: witnesses of the known findings and past disagreements
    for x in ["say \"hi\" \\ there", "\"", "\\", "multi\nline ending in \"", "a \"\"\" b\nc", "x\n\\", "", "plain", "tab\tcr\rbell\u{7}", "a\nb", "\u{1F600}\u{9f}\u{a0}"] { str_case(&mut out, x); }
    for src in ["extend schema @a", "extend union U @d", "scalar S @d(a: \"q\\\"z\")", "type Q {\n  \"\"\"\n  desc\n  \"\"\"\n  f: Int\n}", "union V\n\"x\" scalar S", "union W @d", "type A", "type B implements I", "\"d\" type C\ntype D @d",
                "type Q { f(a: String = \"x\", b: [Int] = [1, 2] @d(x: {a: 1, b: \"s\"})): Int @d }\ninterface I\nextend type Q implements I\nenum E\ninput In @d\nschema @a @b(x: 1) { query: Q }"] {
        ts_case(&mut out, src, "corpus", true);
    }
    for src in ["query Q($a: Int = 3 @dir) { x }", "{ a }", "#import A, B, * from \"./x.graphql\"\nquery ($a: Int = 1 @d, $b: [In!]! = [{a: 1, b: [true, null, E, 1.5e3, \"s\", $x]}]) @e { ...F @d ... on T @d { a } ... @d { b } ... { c } x: y(a: $a, b: {}) @d z(a: []) }\nfragment F on T @d { on: query }\nmutation M { type }\nsubscription { on }"] {
        op_case(&mut out, src, "corpus", true);
    }

    server_case(&mut out, &format!("{MODEL_ORDER_CORPUS}{MIX_DIRECTIVES}"), true, "corpus");
    for plugin in [false, true] {
        server_case(&mut out, &format!("scalar Date @nitrogql_ts_type(resolverInput: \"string\", resolverOutput: \"string\", operationInput: \"string\", operationOutput: \"string\") @nitrogql_cache @nitrogql_ts_type2\nscalar Url @my_nitrogql_ts_type\nenum E {{\n  A @nitrogql_cache(ttl: 1)\n  B\n}}\ntype Query @nitrogql_cache {{\n  a(x: Int @nitrogql_ts_type2, y: E = A @my_nitrogql_ts_type(resolverInput: \"q\")): Date @nitrogql_cache(ttl: 5) @deprecated\n  u: Url\n}}\n{LOOKALIKE_DIRECTIVES}"), plugin, "corpus");
    }
    // 1. print_string: every string over an adversarial alphabet up to a length, then random longer ones
    let alpha: Vec<char> = vec!['a', '"', '\\', '\n', '\r', '`', '$', '{', ' ', '\u{7}', '\u{e9}'];
    let maxlen = if thorough { 5 } else { 2 };
    let mut cur: Vec<String> = vec![String::new()];
    for _ in 0..maxlen {
        let mut next = vec![];
        for p in &cur { for c in &alpha { let mut q = p.clone(); q.push(*c); next.push(q); } }
        for q in &next { str_case(&mut out, q); }
        cur = next;
    }
    let n_rand_str = if thorough { 6000 } else { 500 };
    for _ in 0..n_rand_str {
        let n = rng.range(3, 14);
        let mut x = String::new();
        for _ in 0..n {
            match rng.below(12) {
                0 => x.push('"'), 1 => x.push('\\'), 2 => x.push('\n'), 3 => x.push(*rng.pick(&['\r', '\t', '\u{0}', '\u{1b}', '\u{7f}', '\u{85}', '\u{9f}', '\u{a0}', '\u{2028}', '\u{feff}'])),
                4 => x.push(*rng.pick(&['`', '$', '{', '}'])), 5 => x.push(*rng.pick(&['\u{e9}', '\u{65e5}', '\u{1F600}', '\u{10FFFF}', '\u{ffff}'])),
                6 => x.push_str(*rng.pick(&["\"\"\"", "\\\"\"\"", "\"\"", "${", "\\u{41}", "\\n"])),
                _ => x.push(*rng.pick(&['a', 'b', ' ', 'z', '0', '#', ','])),
            }
        }
        str_case(&mut out, &x);
    }
    out.stats.insert("string_cases".into(), out.cases.len() as u64);

    // 2. the writers on arbitrary operation lists
    let n_w = if thorough { 6000 } else { 500 };
    const CHUNKS: &[&str] = &["", "a", "$", "{", "${", "$$", "{{", "`", "\\", "\n", "\n\n", "a\nb", "\na", "a\n", "x$", "{x", "$\n{", "\r", "\r\n", "a\rb", "  ", " \n ", "\\`${\\", "\u{e9}", "\u{1F600}", "}\n", "\"\"\"a\n  b\"\"\"", "q: \"$\"", "$\\{"];
    for _ in 0..n_w {
        let n = rng.range(1, 9);
        let mut ops = vec![];
        for _ in 0..n {
            match rng.below(10) {
                0 | 1 => ops.push(Wop::Indent),
                2 | 3 => ops.push(Wop::Dedent),
                4 => ops.push(Wop::WF((*rng.pick(CHUNKS)).to_string(), nitrogql_ast::base::Pos { line: rng.below(9), column: rng.below(9), file: rng.below(2), builtin: false }, if rng.chance(1, 2) { Some("n".into()) } else { None })),
                _ => ops.push(Wop::W((*rng.pick(CHUNKS)).to_string())),
            }
        }
        writer_case(&mut out, &ops);
    }

    // 3. type-system documents: valid generated schemas, then syntactic documents (plain / adversarial strings)
    let n_schema = if thorough { 400 } else { 60 };
    for k in 0..n_schema {
        let s = gen_schema(&mut rng, &SchemaCfg { descriptions: k % 2 == 0, custom_directives: true });
        ts_case(&mut out, &s.render(), if k % 2 == 0 { "gen-schema-with-descriptions" } else { "gen-schema" }, k % 10 < 2);
        // 4. operation documents over it
        for _ in 0..(if thorough { 3 } else { 2 }) {
            let d = gen_doc(&mut rng, &s, &DocCfg { shorthand: true, ..DocCfg::default() });
            op_case(&mut out, &d.render(), "gen-doc", k % 10 < 2);
        }
    }
    let n_syn = if thorough { 3000 } else { 300 };
    for k in 0..n_syn {
        let mode = if k % 3 == 2 { Mode::Adversarial } else { Mode::Plain };
        let label = if mode == Mode::Plain { "syntactic-plain" } else { "syntactic-adversarial" };
        let src = Syn { rng: &mut rng, mode, top: true }.tsdoc(true);
        ts_case(&mut out, &src, &format!("{label}-schema"), k % 6 < 2);
        let src = Syn { rng: &mut rng, mode, top: true }.opdoc(true);
        op_case(&mut out, &src, &format!("{label}-operation"), k % 6 < 2);
    }

    // 5. the server schema: resolved document -> remove_builtins -> plugin -> print
    let n_server = if thorough { 400 } else { 50 };
    for k in 0..n_server {
        let plugin = k % 2 == 1;
        let mode = if k % 4 >= 2 { Mode::Adversarial } else { Mode::Plain };
        let src = server_source(&mut rng, plugin, mode);
        server_case(&mut out, &src, plugin, if mode == Mode::Plain { "server-plain" } else { "server-adversarial" });
    }

    // 6. template literals through a real JavaScript engine
    let mut node_stats = json!({"node_used": false});
    if use_node {
        let n_t = if thorough { 6000 } else { 600 };
        let mut srcs: Vec<String> = vec!["`a\\`b`".into(), "`${1}`".into(), "`\\1`".into(), "`a\r\nb`".into(), "`\\u{1F600}`".into(), "`$\\{x}`".into(), "`$`".into(), "`a`b`".into(), "``".into(), "`".into(), "`\\'\\\\`// 0".into(), "`a` ".into(), "`a`;".into(), "`\\'\\\"\\0\\\n\\q`".into()];
        for _ in 0..n_t { srcs.push(random_template(&mut rng)); }
        let work = PathBuf::from("/verif/.build/c16-node");
        match node_run(NODE_EVAL, &json!(srcs), &work) {
            Some(vals) if vals.len() == srcs.len() => {
                let mut n_some = 0;
                for (src, v) in srcs.iter().zip(vals.iter()) {
                    let Some(v) = v else { continue };   // lone surrogate: outside the model
                    if v.is_some() { n_some += 1; }
                    out.distinct.insert(format!("tpl|{src}"));
                    out.cases.push(format!("CTemplate {} {}", compact(&coq_text(src), false), coq_opt(v, |x| compact(&coq_text(x), false))), json!({"kind":"template","source":src,"node_value":v}));
                }
                node_stats = json!({"node_used": true, "templates": srcs.len(), "templates_with_value": n_some});
            }
            _ => { node_stats = json!({"node_used": false, "note": "node is not available or failed; the template-literal specification is not cross-checked against an engine in this run"}); }
        }
    }

    // 7. end to end through the real CLI
    let mut cli_stats = json!({"cli_used": false});
    if let Some(cli) = &cli {
        if cli.exists() {
            cli_stats = cli_cases(&mut out, &mut rng, cli, if thorough { 60 } else { 12 }, Path::new("/verif/.build/c16-cli"), use_node);
        }
    }

    // spread the (large) document cases evenly over the shards
    {
        let n = out.cases.len();
        let shards = (n + out.cases.shard_size - 1) / out.cases.shard_size.max(1);
        let mut order: Vec<usize> = vec![];
        for k in 0..shards.max(1) { let mut i = k; while i < n { order.push(i); i += shards.max(1); } }
        out.cases.terms = order.iter().map(|i| out.cases.terms[*i].clone()).collect();
        out.cases.descr = order.iter().map(|i| out.cases.descr[*i].clone()).collect();
    }
    out.cases.write(&args.out);
    let n = out.cases.len();
    let samples: Vec<_> = [3usize, n / 3, n / 2, (2 * n) / 3].iter().map(|i| {
        let mut d = out.cases.descr[*i].clone();
        for k in ["template", "module_text"] { if let Some(o) = d.as_object_mut() { o.remove(k); } }
        d
    }).collect();
    let stats: J = out.stats.iter().map(|(k, v)| (k.clone(), json!(v))).collect::<serde_json::Map<_, _>>().into();
    write_meta(&args.out, &json!({
        "evaluations": n,
        "distinct_nontrivial": out.distinct.len(),
        "rule": "distinct inputs (string / operation list / source text / template source); every case runs the real code (print_string, JustWriter, JsStringWriter, parser + GraphQLPrinter + parser again, remove_builtins + model plugin, node, nitrogql-cli) and the model; documents rejected by the parser are not counted",
        "samples": samples,
        "distribution": {"streams": stats, "printed_documents_not_reparsed": out.reparse_fail, "node": node_stats, "cli": cli_stats,
                         "string_alphabet_exhaustive_to_length": maxlen},
    }));
}
