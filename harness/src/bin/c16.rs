//! C16 probe (temporary first version)
use nitrogql_parser::{parse_operation_document, parse_type_system_document};
use nitrogql_printer::GraphQLPrinter;
use sourcemap_writer::{JsStringWriter, JustWriter};
use verif_harness::*;

fn just<T: GraphQLPrinter>(d: &T) -> String {
    let mut b = String::new();
    { let mut w = JustWriter::new(&mut b); d.print_graphql(&mut w); }
    b
}
fn js<T: GraphQLPrinter>(d: &T) -> String {
    let mut b = String::new();
    { let mut w = JsStringWriter::new(&mut b); d.print_graphql(&mut w); }
    b
}

fn main() {
    silence_panics();
    let args = parse_args();
    let kind = args.extra[0].clone();
    let src = std::fs::read_to_string(&args.extra[1]).unwrap();
    if kind == "ts" {
        match parse_type_system_document(&src) {
            Err(e) => println!("PARSE ERR {}", e.into_message()),
            Ok(d) => {
                let t = just(&d);
                println!("--- just\n{t}--- js\n{}\n---", js(&d));
                match catch(std::panic::AssertUnwindSafe(|| parse_type_system_document(&t).map(|d2| ast_coq::tsdoc_ext(&d2)).map_err(|e| e.into_message()))) {
                    Err(p) => println!("REPARSE PANIC {p}"),
                    Ok(Err(e)) => println!("REPARSE ERR {e}"),
                    Ok(Ok(s)) => println!("A = {}\nB = {}", ast_coq::tsdoc_ext(&d), s),
                }
            }
        }
    } else {
        match parse_operation_document(&src) {
            Err(e) => println!("PARSE ERR {}", e.into_message()),
            Ok(d) => {
                let t = just(&d);
                println!("--- just\n{t}--- js\n{}\n---", js(&d));
                match catch(std::panic::AssertUnwindSafe(|| parse_operation_document(&t).map(|d2| ast_coq::opdoc_ext(&d2)).map_err(|e| e.into_message()))) {
                    Err(p) => println!("REPARSE PANIC {p}"),
                    Ok(Err(e)) => println!("REPARSE ERR {e}"),
                    Ok(Ok(s)) => println!("A = {}\nB = {}", ast_coq::opdoc_ext(&d), s),
                }
            }
        }
    }
}
