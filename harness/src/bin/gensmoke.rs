//! Smoke test of the shared generators: how many generated schemas/documents does nitrogql accept?
use verif_harness::gen::*;
use verif_harness::pipeline::*;
use verif_harness::*;
fn main() {
    if std::env::var("LOUD").is_err() { silence_panics(); }
    let args = parse_args();
    let mut rng = Rng::new(args.seed);
    let (mut n, mut schema_bad, mut doc_bad, mut panics) = (0, 0, 0, 0);
    for i in 0..300 {
        let s = gen_schema(&mut rng, &SchemaCfg::default());
        let sdl = s.render();
        let tsdoc = match load_schema(&sdl) { Ok(d) => d, Err(e) => { println!("SCHEMA LOAD ERR {e}\n{sdl}"); schema_bad += 1; continue; } };
        let errs = check_schema(&tsdoc);
        if !errs.is_empty() { schema_bad += 1; if schema_bad < 4 { println!("SCHEMA ERR {:?}\n{sdl}", errs.iter().map(error_summary).collect::<Vec<_>>()); } continue; }
        let ts = to_type_system(&tsdoc);
        for _ in 0..5 {
            let d = gen_doc(&mut rng, &s, &DocCfg::default());
            let text = d.render();
            n += 1;
            let r = catch(std::panic::AssertUnwindSafe(|| { let doc = load_operation(&text)?; Ok::<_, String>(check_operation(&ts, &doc).iter().map(error_summary).collect::<Vec<_>>()) }));
            match r {
                Err(p) => { panics += 1; if panics < 3 { println!("PANIC {p}\n{text}"); } }
                Ok(Err(e)) => { doc_bad += 1; if doc_bad < 6 { println!("DOC LOAD ERR {e}\n{text}"); } }
                Ok(Ok(errs)) => if !errs.is_empty() { doc_bad += 1; if doc_bad < 6 { println!("DOC ERR {:?}\n--schema\n{sdl}\n--doc\n{text}", errs); } }
            }
        }
        if i == 0 { println!("SAMPLE SCHEMA\n{sdl}\nSAMPLE DOC\n{}", gen_doc(&mut rng, &s, &DocCfg::default()).render()); }
    }
    println!("docs {n} schema_bad {schema_bad} doc_bad {doc_bad} panics {panics}");
}
