//! C06: runs the source-map machinery of /repo (base64_vlq and MappingWriter through the verif hooks,
//! SourceWriter / print_source_map_json through the public API, and the real `nitrogql-cli generate`
//! on generated projects) and writes the case files the Coq model and the spec-side decoder are
//! evaluated on.
use nitrogql_ast::base::{NamePos, Pos};
use serde_json::{json, Value};
use sourcemap_writer::verif_hooks::{base64_vlq, MappingWriter};
use sourcemap_writer::{print_source_map_json, SourceMapWriter, SourceWriter};
use std::collections::{BTreeMap, HashSet};
use std::panic::AssertUnwindSafe;
use std::path::{Path, PathBuf};
use verif_harness::*;

// ------------------------------------------------------------------------------------- CLI layer
mod cli {
    use super::*;
    pub struct CliRun { pub cases: Vec<(String, Value)>, pub stats: Vec<(String, u64)>, pub direct_failures: Vec<Value> }
    pub fn run_projects(_rng: &mut Rng, _bin: &Path, _work: &Path, _n: usize, _thorough: bool) -> CliRun {
        CliRun { cases: vec![], stats: vec![], direct_failures: vec![] }
    }
}

// ------------------------------------------------------------------------------------------- VLQ

fn vlq_case(n: isize) -> (String, Value) {
    let out = base64_vlq(n);
    (format!("CVlq {} {}", coq_z(n as i128), coq_str(&out)), json!({"kind":"vlq","n":n.to_string(),"out":out}))
}

fn digest_step(h: u64, c: u64) -> u64 {
    h.wrapping_mul(1099511628211).wrapping_add(c).wrapping_add(1)
}

fn vlq_range_case(lo: isize, cnt: u64) -> (String, Value) {
    let mut h: u64 = 14695981039346656037;
    for k in 0..cnt {
        for c in base64_vlq(lo + k as isize).chars() { h = digest_step(h, c as u64); }
        h = digest_step(h, 255);
    }
    (format!("CVlqRange {} {} {}", coq_z(lo as i128), coq_n(cnt), coq_n(h)),
     json!({"kind":"vlq_range","lo":lo.to_string(),"count":cnt,"digest":h.to_string()}))
}

// ----------------------------------------------------------------------------------- MappingWriter

#[derive(Clone, Debug)]
struct Entry { gl: usize, gc: usize, ol: usize, oc: usize, fi: usize, ni: Option<usize> }

fn coq_entry(e: &Entry) -> String {
    format!("(mkent {} {} {} {} {} {})", coq_n(e.gl as u64), coq_n(e.gc as u64), coq_n(e.ol as u64), coq_n(e.oc as u64),
            coq_n(e.fi as u64), coq_opt(&e.ni, |k| coq_n(*k as u64)))
}

fn odd_usize(rng: &mut Rng) -> usize {
    match rng.below(8) {
        0 => usize::MAX,
        1 => usize::MAX - rng.below(3),
        2 => 1usize << 63,
        3 => (1usize << 63) - 1 - rng.below(2),
        4 => (1usize << 63) + rng.below(3),
        5 => 1usize << rng.range(30, 62),
        _ => rng.next() as usize,
    }
}

fn small_or_odd(rng: &mut Rng, max: usize, odd_per_1000: usize) -> usize {
    if rng.chance(odd_per_1000, 1000) { odd_usize(rng) } else { rng.below(max + 1) }
}

fn gen_entries(rng: &mut Rng, odd: usize) -> Vec<Entry> {
    let n = rng.range(0, 14);
    let mut es = vec![];
    let (mut gl, mut gc) = (0usize, 0usize);
    for _ in 0..n {
        match rng.below(10) {
            0 | 1 | 2 => { gl += rng.range(1, 3); gc = rng.below(12); }
            3 => { gl += 1; gc = 0; }
            4 if rng.chance(1, 6) => { gl = gl.saturating_sub(rng.range(1, 2)); }   // going back: add_entry panics
            5 if rng.chance(1, 3) => { gc = gc.saturating_sub(rng.range(1, 5)); }   // negative column delta
            _ => { gc += rng.below(40); }
        }
        let big = rng.chance(1, 5);
        es.push(Entry {
            gl,   // never huge: `";".repeat(delta)` would abort the process on allocation failure (not a panic)
            gc: if rng.chance(odd, 2000) { odd_usize(rng) } else if big { gc * 1000 } else { gc },
            ol: small_or_odd(rng, if big { 100000 } else { 60 }, odd),
            oc: small_or_odd(rng, if big { 5000 } else { 80 }, odd),
            fi: small_or_odd(rng, 4, odd * 2),
            ni: if rng.chance(1, 2) { Some(small_or_odd(rng, 20, odd)) } else { None },
        });
    }
    es
}

fn map_case(es: &[Entry]) -> (String, Value) {
    let es2 = es.to_vec();
    let out = catch(AssertUnwindSafe(move || {
        let mut m = MappingWriter::new();
        for e in &es2 { m.add_entry(e.gl, e.gc, e.ol, e.oc, e.fi, e.ni); }
        m.into_buffer()
    }));
    let o = out.as_ref().ok().cloned();
    (format!("CMap {} {}", coq_list(es, coq_entry), coq_opt(&o, |s| coq_str(s))),
     json!({"kind":"map","entries": es.iter().map(|e| json!([e.gl.to_string(), e.gc.to_string(), e.ol.to_string(), e.oc.to_string(), e.fi.to_string(), e.ni.map(|k| k.to_string())])).collect::<Vec<_>>(),
            "out": o, "panic": out.err()}))
}

// ------------------------------------------------------------------------------------ SourceWriter

#[derive(Clone, Debug)]
enum Wop { W(String), WF(String, Pos, Option<String>), Indent, Dedent }

fn coq_pos(p: &Pos) -> String {
    format!("(mkpos {} {} {} {})", coq_n(p.line as u64), coq_n(p.column as u64), coq_n(p.file as u64), coq_bool(p.builtin))
}
fn coq_wop(o: &Wop) -> String {
    match o {
        Wop::W(c) => format!("W {}", coq_str(c)),
        Wop::WF(c, p, n) => format!("WF {} {} {}", coq_str(c), coq_pos(p), coq_opt(n, |s| coq_str(s))),
        Wop::Indent => "Indent".into(),
        Wop::Dedent => "Dedent".into(),
    }
}
fn json_wop(o: &Wop) -> Value {
    match o {
        Wop::W(c) => json!({"w": c}),
        Wop::WF(c, p, n) => json!({"wf": c, "line": p.line.to_string(), "col": p.column.to_string(), "file": p.file.to_string(), "builtin": p.builtin, "name": n}),
        Wop::Indent => json!("indent"),
        Wop::Dedent => json!("dedent"),
    }
}

const PIECES: &[&str] = &["export type ", "Foo", " = ", "{", "}", ";", "a", "  ", "\t", "x: number", "é", "日本", "😀", "𝒳y", "\r", "\r\n",
    "\n", "\n\n", "", "line1\nline2", "\nlead", "trail\n", "a\n\n\nb", "\n  \n", "|", "__typename", "\"q\"", "\u{feff}", "\u{2028}"];
const NAMES: &[&str] = &["Query", "User", "id", "name", "type", "fragment", "F", "Q", "posts", "é", "😀n", "a_b", "X1", "X2", "X3", "X4", "X5", "X6", "X7", ""];

fn gen_chunk(rng: &mut Rng) -> String {
    let k = match rng.below(10) { 0 => 0, 1..=6 => 1, 7 | 8 => 2, _ => rng.range(3, 5) };
    let mut s = String::new();
    for _ in 0..k { s.push_str(*rng.pick(PIECES)); }
    s
}

/// a file-index mapper shaped like the ones cli/generate.rs builds: schema files keep their index, at
/// most one operation file maps to schema_len, the others to usize::MAX
fn gen_fmap(rng: &mut Rng) -> Option<Vec<usize>> {
    if rng.chance(1, 4) { return None; }
    let ns = rng.range(0, 3); let no = rng.range(0, 3);
    let the_op = if no > 0 && rng.chance(4, 5) { Some(rng.below(no)) } else { None };
    let mut m: Vec<usize> = (0..ns).collect();
    for j in 0..no { m.push(if Some(j) == the_op { ns } else { usize::MAX }); }
    Some(m)
}

fn gen_ops(rng: &mut Rng, fmap: &Option<Vec<usize>>, odd: usize, allow_unmapped: bool) -> Vec<Wop> {
    let n = if rng.chance(1, 8) { rng.range(30, 70) } else { rng.range(0, 18) };
    let nfiles = fmap.as_ref().map_or(3, |m| m.len());
    let good_files: Vec<usize> = match fmap { None => (0..3).collect(), Some(m) => (0..m.len()).filter(|i| m[*i] != usize::MAX).collect() };
    let mut ops = vec![];
    for _ in 0..n {
        match rng.below(10) {
            0 | 1 | 2 => ops.push(Wop::W(gen_chunk(rng))),
            3 => ops.push(Wop::Indent),
            4 => ops.push(if rng.chance(2, 3) { Wop::Dedent } else { Wop::W("\n".into()) }),
            _ => {
                let file = if !good_files.is_empty() && !(allow_unmapped && rng.chance(1, 12)) { *rng.pick(&good_files) }
                           else if rng.chance(1, 6) { nfiles + rng.below(2) }     // out of range: write_for panics when a mapper is set
                           else { rng.below(nfiles.max(1)) };
                let p = Pos { line: small_or_odd(rng, 50, odd), column: small_or_odd(rng, 90, odd), file, builtin: rng.chance(1, 12) };
                let name = if rng.chance(2, 3) { Some(rng.pick(NAMES).to_string()) } else { None };
                let chunk = if name.is_some() && rng.chance(1, 2) { name.clone().unwrap() } else { gen_chunk(rng) };
                ops.push(Wop::WF(chunk, p, name));
            }
        }
    }
    ops
}

fn run_writer(fmap: &Option<Vec<usize>>, ops: &[Wop]) -> Result<(String, String, Vec<String>), String> {
    let (fmap, ops) = (fmap.clone(), ops.to_vec());
    catch(AssertUnwindSafe(move || {
        let mut w = SourceWriter::new();
        if let Some(m) = fmap { w.set_file_index_mapper(m); }
        for o in &ops {
            match o {
                Wop::W(c) => w.write(c),
                Wop::WF(c, p, n) => w.write_for(c, &NamePos { name: n.as_deref(), pos: *p }),
                Wop::Indent => w.indent(),
                Wop::Dedent => w.dedent(),
            }
        }
        let b = w.into_buffers();
        (b.buffer, b.source_map, b.names)
    }))
}

fn writer_case(fmap: &Option<Vec<usize>>, ops: &[Wop]) -> (String, Value) {
    let out = run_writer(fmap, ops);
    let o = out.as_ref().ok().cloned();
    let unmapped = ops.iter().any(|o| match (o, fmap) {
        (Wop::WF(_, p, _), Some(m)) => !p.builtin && p.file < m.len() && m[p.file] == usize::MAX,
        _ => false });
    (format!("CWriter {} {} {}", coq_opt(fmap, |m| coq_list(m, |i| coq_n(*i as u64))), coq_list(ops, coq_wop),
             coq_opt(&o, |(b, m, n)| format!("({}, {}, {})", coq_str(b), coq_str(m), coq_list(n, |s| coq_str(s))))),
     json!({"kind":"writer","file_index_mapper": fmap.as_ref().map(|m| m.iter().map(|i| i.to_string()).collect::<Vec<_>>()),
            "ops": ops.iter().map(json_wop).collect::<Vec<_>>(),
            "uses_unmapped_file_index": unmapped,
            "out": o.as_ref().map(|(b, m, n)| json!({"buffer": b, "source_map": m, "names": n})), "panic": out.err()}))
}

// --------------------------------------------------------------------------- print_source_map_json

fn random_abs_path(rng: &mut Rng, file: bool) -> String {
    const D: &[&str] = &["src", "a", "b", "gen", "__generated__", "q r", "é", "x.y", "\"q\"", "back\\slash", "..", ".", "😀"];
    const F: &[&str] = &["schema.d.ts", "a.graphql", "b.graphql", "op.d.graphql.ts", "x", "q\"uote.graphql", "tab\there.graphql", "日本.graphql"];
    let mut s = String::new();
    for _ in 0..rng.range(0, 5) { s.push('/'); s.push_str(*rng.pick(D)); }
    s.push('/');
    if file || rng.chance(9, 10) { s.push_str(*rng.pick(F)); } else { s.push_str(*rng.pick(D)); }
    if rng.chance(1, 25) { s.push('/'); }
    if rng.chance(1, 25) { s = s[1..].to_string(); }    // relative
    s
}

fn json_case(rng: &mut Rng) -> (String, Value) {
    let file = random_abs_path(rng, true);
    let srcs: Vec<String> = (0..rng.range(0, 4)).map(|_| {
        if rng.chance(1, 2) {
            // a sibling or a file below/above the generated file's directory
            let dir = Path::new(&file).parent().map(|p| p.to_string_lossy().to_string()).unwrap_or_default();
            match rng.below(3) { 0 => format!("{}/s.graphql", dir), 1 => format!("{}/sub/dir/s.graphql", dir), _ => format!("{}/../s.graphql", dir) }
        } else { random_abs_path(rng, true) }
    }).collect();
    let names: Vec<String> = (0..rng.range(0, 3)).map(|_| rng.pick(NAMES).to_string()).collect();
    let mappings = ",AAAA;;ACEA".to_string();
    let (f2, s2, n2, m2) = (file.clone(), srcs.clone(), names.clone(), mappings.clone());
    let out = catch(AssertUnwindSafe(move || {
        let paths: Vec<&Path> = s2.iter().map(|s| Path::new(s.as_str())).collect();
        let mut buf = String::new();
        print_source_map_json(Path::new(&f2), &paths, &n2, &m2, &mut buf).unwrap();
        buf
    }));
    let mut passthru = false;
    let mut o: Option<(String, Vec<String>)> = None;
    let mut raw = None;
    match &out {
        Ok(text) => {
            raw = Some(text.clone());
            if let Ok(v) = serde_json::from_str::<Value>(text) {
                passthru = v["version"] == json!(3) && v["sourceRoot"] == json!("") && v["names"] == json!(names) && v["mappings"] == json!(mappings)
                    && v.as_object().map_or(false, |o| o.len() == 6);
                if let (Some(f), Some(ss)) = (v["file"].as_str(), v["sources"].as_array()) {
                    if ss.iter().all(|x| x.is_string()) {
                        o = Some((f.to_string(), ss.iter().map(|x| x.as_str().unwrap().to_string()).collect()));
                    }
                }
            }
            if o.is_none() { o = Some(("<unparseable JSON>".into(), vec![])); passthru = false; }
        }
        Err(_) => { passthru = true; }
    }
    (format!("CJson {} {} {} {}", coq_str(&file), coq_list(&srcs, |s| coq_str(s)), coq_bool(passthru),
             coq_opt(&o, |(f, ss)| format!("({}, {})", coq_str(f), coq_list(ss, |s| coq_str(s))))),
     json!({"kind":"json","file":file,"sources_in":srcs,"json":raw,"panic":out.err()}))
}

// ------------------------------------------------------------------------------------------- main

fn main() {
    silence_panics();
    let args = parse_args();
    let mut rng = Rng::new(args.seed);
    let thorough = args.tier == "thorough";
    let shard = 700usize;
    let mut light: Vec<(String, Value)> = vec![];
    let mut heavy: Vec<(String, Value)> = vec![];
    let mut distinct: HashSet<String> = HashSet::new();
    let mut stats: BTreeMap<String, u64> = BTreeMap::new();
    let mut bump = |k: &str, n: u64| { *stats.entry(k.to_string()).or_insert(0) += n; };
    let mut direct_failures: Vec<Value> = vec![];

    // corpus first
    let corpus = PathBuf::from("/verif/corpus/C06");
    let mut corpus_vlq: Vec<isize> = vec![];
    if let Ok(text) = std::fs::read_to_string(corpus.join("vlq.txt")) {
        for l in text.lines() { if let Ok(n) = l.trim().parse::<isize>() { corpus_vlq.push(n); } }
    }
    for n in &corpus_vlq { light.push(vlq_case(*n)); distinct.insert(format!("v{}", n)); bump("vlq_corpus", 1); }

    // 1. VLQ: boundaries, small values, random
    let mut vals: Vec<isize> = vec![isize::MIN, isize::MIN + 1, isize::MAX, isize::MAX - 1];
    for k in 0..63u32 { let p = 1isize << k; for d in [-2isize, -1, 0, 1, 2] { vals.push(p.wrapping_add(d)); vals.push((-p).wrapping_add(d)); } }
    for n in -600isize..=600 { vals.push(n); }
    let n_rand = if thorough { 40000 } else { 6000 };
    for _ in 0..n_rand {
        let bits = rng.range(1, 64) as u32;
        let v = (rng.next() >> (64 - bits)) as isize;
        vals.push(if rng.chance(1, 2) { v } else { v.wrapping_neg() });
    }
    for n in vals { if distinct.insert(format!("v{}", n)) { light.push(vlq_case(n)); bump("vlq_values", 1); } }
    if thorough {
        // all of [-2^22, 2^22] as digests of consecutive blocks (the model recomputes each digest and
        // decodes every value of the block)
        let lo: isize = -(1 << 22); let total: u64 = (1u64 << 23) + 1; let block: u64 = 1 << 16;
        let mut start = 0u64;
        while start < total {
            let cnt = block.min(total - start);
            heavy.push(vlq_range_case(lo + start as isize, cnt));
            distinct.insert(format!("vr{}", start)); bump("vlq_range_values", cnt);
            start += cnt;
        }
    } else {
        for lo in [-70000isize, -40, 1 << 20] { heavy.push(vlq_range_case(lo, 4096)); distinct.insert(format!("vr{}", lo)); bump("vlq_range_values", 4096); }
    }

    // 2. MappingWriter
    let n_map = if thorough { 6000 } else { 700 };
    for i in 0..n_map {
        let es = gen_entries(&mut rng, if i % 3 == 0 { 60 } else { 0 });
        let (t, d) = map_case(&es);
        if d["panic"].is_string() { bump("map_panics", 1); } else { bump("map_ok", 1); }
        if !es.is_empty() && distinct.insert(t.clone()) { bump("map_distinct_nonempty", 1); }
        light.push((t, d));
    }

    // 3. SourceWriter
    let n_wr = if thorough { 8000 } else { 900 };
    for i in 0..n_wr {
        let fmap = gen_fmap(&mut rng);
        let ops = gen_ops(&mut rng, &fmap, if i % 4 == 0 { 40 } else { 0 }, i % 5 == 0);
        let (t, d) = writer_case(&fmap, &ops);
        if d["panic"].is_string() { bump("writer_panics", 1); } else { bump("writer_ok", 1); }
        if d["uses_unmapped_file_index"] == json!(true) { bump("writer_uses_unmapped_file_index", 1); }
        let nontrivial = ops.iter().any(|o| matches!(o, Wop::WF(_, p, _) if !p.builtin));
        if nontrivial && distinct.insert(t.clone()) { bump("writer_distinct_with_segments", 1); }
        bump("writer_ops", ops.len() as u64);
        light.push((t, d));
    }

    // 4. print_source_map_json
    let n_js = if thorough { 3000 } else { 400 };
    for _ in 0..n_js {
        let (t, d) = json_case(&mut rng);
        if d["panic"].is_string() { bump("json_panics", 1); }
        if d["sources_in"].as_array().map_or(false, |a| !a.is_empty()) && distinct.insert(t.clone()) { bump("json_distinct_with_sources", 1); }
        light.push((t, d));
    }

    // 5. whole projects through the real CLI binary
    let cli_bin = args.extra.iter().position(|a| a == "--cli").and_then(|i| args.extra.get(i + 1)).cloned();
    if let Some(bin) = cli_bin {
        let n_proj = if thorough { 240 } else { 36 };
        let work = args.out.join("projects");
        let r = cli::run_projects(&mut rng, Path::new(&bin), &work, n_proj, thorough);
        for (t, d) in r.cases { if distinct.insert(t.clone()) { bump("cli_projects_distinct", 1); } heavy.push((t, d)); }
        for (k, v) in r.stats { bump(&k, v); }
        direct_failures.extend(r.direct_failures);
    } else {
        bump("cli_projects_skipped_no_binary", 1);
    }

    // spread the heavy cases evenly over the shards
    let total = light.len() + heavy.len();
    let nshards = (total + shard - 1) / shard;
    let mut buckets: Vec<Vec<(String, Value)>> = (0..nshards).map(|_| vec![]).collect();
    for (i, c) in heavy.into_iter().enumerate() { buckets[i % nshards].push(c); }
    let mut b = 0usize;
    for c in light {
        while buckets[b].len() >= shard { b += 1; }
        buckets[b].push(c);
    }
    // every shard but the last must be full for the global numbering (shard_size * k + i) to hold
    let mut cases = Cases::new("From V Require Import Base.Util C06.Model C06.Spec C06.Corr.", "case", "agree", "holds", shard);
    let mut flat: Vec<(String, Value)> = buckets.into_iter().flatten().collect();
    // (buckets are filled to `shard` in order, so flattening keeps shard boundaries)
    for (t, d) in flat.drain(..) { cases.push(t, d); }
    cases.write(&args.out);

    let n = cases.len();
    let pick = |k: &str| cases.descr.iter().find(|d| d["kind"] == json!(k)).cloned().unwrap_or(json!(null));
    let trim = |mut v: Value| { if let Some(o) = v.as_object_mut() { for key in ["maps", "schema_files", "operation_files"] { if o.contains_key(key) { o.insert(key.to_string(), json!("<omitted in sample>")); } } } v };
    write_meta(&args.out, &json!({
        "evaluations": n,
        "distinct_nontrivial": distinct.len(),
        "rule": "distinct = distinct inputs; non-trivial = VLQ: every value (boundaries 2^k±2, isize::MIN/MAX, [-600,600], random widths) and value blocks; MappingWriter: entry lists with >= 1 entry; SourceWriter: op lists with >= 1 non-builtin write_for; print_source_map_json: >= 1 source; CLI: projects on which `generate` wrote >= 1 map",
        "samples": [trim(pick("vlq")), trim(pick("map")), trim(pick("writer")), trim(pick("json")), trim(pick("project"))],
        "distribution": stats,
        "direct_failures": direct_failures,
    }));
}
