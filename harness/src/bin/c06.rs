//! C06: runs the source-map machinery of /repo (base64_vlq and MappingWriter through the verif hooks,
//! SourceWriter / print_source_map_json through the public API, and the real `nitrogql-cli generate`
//! on generated projects) and writes the case files the Coq model and the spec-side decoder are
//! evaluated on.
use nitrogql_ast::base::{NamePos, Pos};
use serde_json::{json, Value};
use sourcemap_writer::verif_hooks::{base64_vlq, MappingWriter};
use sourcemap_writer::{print_source_map_json, SourceMapWriter, SourceWriter};
use std::collections::{BTreeMap, HashSet};
use std::panic::AssertUnwindSafe;
use std::path::{Path, PathBuf};
use verif_harness::*;

// ------------------------------------------------------------------------------------- CLI layer
mod cli {
    use super::*;
    use nitrogql_ast::operation_ext::ExecutableDefinitionExt as XD;
    use nitrogql_ast::type_system::{TypeDefinition as TDef, TypeExtension as TExt, TypeSystemDefinitionOrExtension as TD};
    use nitrogql_parser::{parse_operation_document, parse_type_system_document};
    use std::fs;
    use std::process::Command;

    pub struct CliRun { pub cases: Vec<(String, Value)>, pub stats: Vec<(String, u64)>, pub direct_failures: Vec<Value> }

    /// file contents as a Coq term: a string literal holding the UTF-8 bytes, decoded by Corr.u8
    fn coq_u8(t: &str) -> String {
        let mut o = String::with_capacity(t.len() + 8);
        o.push_str("(u8 \"");
        for c in t.chars() { if c == '"' { o.push_str("\"\""); } else { o.push(c); } }
        o.push_str("\")");
        o
    }

    #[derive(Clone)]
    struct GField { name: String, ty: String, list: bool, nonnull: bool, arg: Option<(String, String)>, object: bool }
    #[derive(Clone)]
    struct GObj { name: String, fields: Vec<GField>, node: bool }

    fn ty_str(f: &GField) -> String {
        let inner = if f.list { format!("[{}!]", f.ty) } else { f.ty.clone() };
        format!("{}{}", inner, if f.nonnull { "!" } else { "" })
    }

    struct Proj {
        schema_files: Vec<(String, String)>,        // (relative path, text)
        op_files: Vec<(String, String)>,
        imported_used: BTreeMap<String, Vec<(String, String)>>,   // op file -> [(fragment name, defining file)] spread in it and imported
        has_astral: bool,
        config: String,
        mode: &'static str,
    }

    fn lower(sx: &str) -> String { let mut c = sx.chars(); match c.next() { Some(f) => f.to_lowercase().collect::<String>() + c.as_str(), None => String::new() } }

    fn gen_desc(rng: &mut Rng, astral: bool) -> Option<String> {
        match rng.below(6) {
            0 => Some("\"a short description\"".into()),
            1 => Some("\"\"\"\n  A block description\n  over two lines, with a \\\"\"\" inside\n  \"\"\"".into()),
            2 if astral => Some("\"with emoji 😀 inside\"".into()),
            _ => None,
        }
    }

    fn gen_project(rng: &mut Rng, k: usize) -> Proj {
        let astral = rng.chance(1, 9);
        // ---- schema model
        let pool = ["User", "Post", "Comment", "Tag", "Team"];
        let nobj = rng.range(2, 5);
        let names: Vec<String> = pool[..nobj].iter().map(|x| x.to_string()).collect();
        let has_enum = rng.chance(3, 4); let has_scalar = rng.chance(1, 2); let has_input = rng.chance(1, 2); let has_union = rng.chance(1, 2);
        let mut objs: Vec<GObj> = vec![];
        for (i, n) in names.iter().enumerate() {
            let mut fields = vec![GField { name: "id".into(), ty: "ID".into(), list: false, nonnull: true, arg: None, object: false }];
            let scal: Vec<(&str, &str, bool)> = vec![("name", "String", false), ("title", "String", true), ("count", "Int", false), ("active", "Boolean", true)];
            for (fname, t, nn) in scal { if rng.chance(1, 2) { fields.push(GField { name: fname.into(), ty: t.into(), list: false, nonnull: nn, arg: None, object: false }); } }
            if has_enum && rng.chance(1, 2) { fields.push(GField { name: "role".into(), ty: "Role".into(), list: false, nonnull: true, arg: None, object: false }); }
            if has_scalar && rng.chance(1, 2) { fields.push(GField { name: "created".into(), ty: "Date".into(), list: false, nonnull: false, arg: None, object: false }); }
            for (j, m) in names.iter().enumerate() {
                if i != j && rng.chance(1, 3) {
                    let list = rng.chance(1, 2);
                    fields.push(GField { name: if list { format!("{}s", lower(m)) } else { format!("the{}", m) }, ty: m.clone(), list, nonnull: list || rng.chance(1, 2),
                                         arg: if list && rng.chance(1, 3) { Some(("first".into(), "Int".into())) } else { None }, object: true });
                }
            }
            objs.push(GObj { name: n.clone(), fields, node: rng.chance(1, 2) });
        }
        let mut qfields = vec![];
        for o in &objs {
            qfields.push(GField { name: format!("{}s", lower(&o.name)), ty: o.name.clone(), list: true, nonnull: true, arg: Some(("first".into(), "Int".into())), object: true });
            if rng.chance(1, 2) { qfields.push(GField { name: lower(&o.name), ty: o.name.clone(), list: false, nonnull: false, arg: Some(("id".into(), "ID!".into())), object: true }); }
        }
        let query = GObj { name: "Query".into(), fields: qfields, node: false };
        let has_mutation = rng.chance(1, 3);
        let mutation = GObj { name: "Mutation".into(), fields: vec![GField { name: format!("touch{}", objs[0].name), ty: objs[0].name.clone(), list: false, nonnull: true, arg: Some(("id".into(), "ID!".into())), object: true }], node: false };

        // ---- schema text, split over files
        let file_pool = ["schema/a.graphql", "schema/zz_last.graphql", "schema/m/types.graphql", "schema/b.graphql"];
        let nfiles = rng.range(1, 3);
        let mut order: Vec<usize> = (0..file_pool.len()).collect(); rng.shuffle(&mut order);
        let chosen: Vec<&str> = order[..nfiles].iter().map(|i| file_pool[*i]).collect();
        let mut texts: Vec<String> = vec![String::new(); nfiles];
        let mut has_astral = false;
        let render_obj = |rng: &mut Rng, o: &GObj, kw: &str, has_astral: &mut bool| -> String {
            let mut t = String::new();
            if let Some(d) = gen_desc(rng, astral) { t.push_str(&d); t.push('\n'); }
            t.push_str(kw); t.push(' '); t.push_str(&o.name);
            if o.node && kw == "type" { t.push_str(" implements Node"); }
            t.push_str(if rng.chance(1, 4) { "\n{\n" } else { " {\n" });
            for f in &o.fields {
                if rng.chance(1, 8) { t.push_str("  # a comment line\n"); }
                t.push_str(if rng.chance(1, 6) { "    " } else { "  " });
                if astral && rng.chance(1, 3) { t.push_str("\"😀 note\" "); *has_astral = true; }
                else if rng.chance(1, 6) { t.push_str("\"field description\"\n  "); }
                t.push_str(&f.name);
                if let Some((an, at)) = &f.arg { t.push_str(&format!("({}: {}{})", an, at, if rng.chance(1, 3) && at == "Int" { " = 10" } else { "" })); }
                t.push_str(": "); t.push_str(&ty_str(f));
                if rng.chance(1, 10) { t.push_str("  # trailing comment"); }
                t.push('\n');
            }
            t.push_str("}\n\n");
            t
        };
        let mut defs: Vec<String> = vec![];
        defs.push(render_obj(rng, &query, "type", &mut has_astral));
        if has_mutation { defs.push(render_obj(rng, &mutation, "type", &mut has_astral)); }
        for o in &objs { defs.push(render_obj(rng, o, "type", &mut has_astral)); }
        if objs.iter().any(|o| o.node) { defs.push("interface Node {\n  id: ID!\n}\n\n".into()); }
        if has_enum { defs.push(format!("{}enum Role {{\n  ADMIN\n  USER\n}}\n\n", if rng.chance(1, 2) { "\"roles\"\n" } else { "" })); }
        if has_scalar { defs.push("scalar Date\n\n".into()); }
        if has_input { defs.push("input Filter {\n  since: Int\n  text: String = \"x\"\n}\n\n".into()); }
        if has_union { defs.push(format!("union SearchResult = {} | {}\n\n", objs[0].name, objs[1].name)); }
        if rng.chance(1, 2) { defs.push("extend type Query {\n  extra: Int\n}\n\n".into()); }
        rng.shuffle(&mut defs);
        for (i, d) in defs.into_iter().enumerate() { let f = if i < nfiles { i } else { rng.below(nfiles) }; texts[f].push_str(&d); }
        let schema_files: Vec<(String, String)> = chosen.iter().zip(texts).map(|(p, t)| (p.to_string(), t)).collect();

        // ---- fragments and operations
        let scalar_sel = |rng: &mut Rng, o: &GObj| -> String {
            let mut parts = vec![];
            for f in &o.fields { if !f.object && (f.name == "id" || rng.chance(2, 3)) {
                parts.push(if rng.chance(1, 8) { format!("my_{}: {}", f.name, f.name) } else { f.name.clone() }); } }
            if rng.chance(1, 5) { parts.push("__typename".into()); }
            parts.join(if rng.chance(1, 2) { " " } else { "\n    " })
        };
        // fragment files: ops/frags/<type>.graphql, each with 1..2 fragments on that type
        let mut frag_files: Vec<(String, String, Vec<(String, String)>)> = vec![];   // (path, text, [(fragment, on type)])
        let nfrag_files = rng.range(0, 2.min(objs.len()));
        for i in 0..nfrag_files {
            let o = &objs[i];
            let mut t = String::new(); let mut fr = vec![];
            for j in 0..rng.range(1, 2) {
                let fname = format!("{}Bits{}", o.name, if j == 0 { "".to_string() } else { j.to_string() });
                t.push_str(&format!("fragment {} on {} {{\n    {}\n}}\n\n", fname, o.name, scalar_sel(rng, o)));
                fr.push((fname, o.name.clone()));
            }
            frag_files.push((format!("ops/frags/{}.graphql", lower(&o.name)), t, fr));
        }
        let mut op_files: Vec<(String, String)> = vec![];
        let mut imported_used: BTreeMap<String, Vec<(String, String)>> = BTreeMap::new();
        let nops = rng.range(1, 3);
        for qi in 0..nops {
            let path = if rng.chance(1, 3) { format!("ops/sub/q{}.graphql", qi) } else { format!("ops/q{}.graphql", qi) };
            let up = if path.starts_with("ops/sub/") { "../frags" } else { "./frags" };
            let mut text = String::new();
            // imports
            let mut avail: Vec<(String, String, String)> = vec![];    // (fragment, on type, defining file)
            for (fp, _, fr) in &frag_files {
                if rng.chance(2, 3) {
                    let base = fp.rsplit('/').next().unwrap();
                    if rng.chance(1, 3) { text.push_str(&format!("#import * from \"{}/{}\"\n", up, base)); }
                    else { text.push_str(&format!("#import {} from \"{}/{}\"\n", fr.iter().map(|x| x.0.clone()).collect::<Vec<_>>().join(", "), up, base)); }
                    for (n, t) in fr { avail.push((n.clone(), t.clone(), fp.clone())); }
                }
            }
            // a local fragment
            let mut local: Vec<(String, String)> = vec![];
            if rng.chance(1, 2) {
                let o = rng.pick(&objs).clone();
                let fname = format!("Local{}Q{}", o.name, qi);
                local.push((fname, o.name.clone()));
            }
            let mut used: Vec<(String, String)> = vec![];
            let mut sel_obj = |rng: &mut Rng, o: &GObj, depth: usize, used: &mut Vec<(String, String)>| -> String {
                let mut sx = scalar_sel(rng, o);
                for (n, t, f) in &avail { if *t == o.name && rng.chance(2, 3) { sx.push_str(&format!(" ...{}", n)); if !used.iter().any(|u| u.0 == *n) { used.push((n.clone(), f.clone())); } } }
                for (n, t) in &local { if *t == o.name && rng.chance(2, 3) { sx.push_str(&format!(" ...{}", n)); } }
                if depth < 2 {
                    for f in &o.fields { if f.object && rng.chance(1, 2) {
                        let sub = objs.iter().find(|x| x.name == f.ty).unwrap();
                        let arg = if f.arg.is_some() && rng.chance(1, 2) { "(first: 3)" } else { "" };
                        sx.push_str(&format!("\n    {}{} {{ {} }}", f.name, arg, scalar_sel(rng, sub)));
                    } }
                }
                sx
            };
            let nq = rng.range(1, 2);
            for oi in 0..nq {
                let is_mut = has_mutation && rng.chance(1, 4);
                let root = if is_mut { &mutation } else { &query };
                let opname = format!("{}{}{}", if is_mut { "Do" } else { "Get" }, k % 7, qi * 2 + oi);
                let mut body = String::new();
                let mut uses_first = false;
                for f in &root.fields {
                    if !(rng.chance(1, 2) || body.is_empty()) { continue; }
                    let sub = objs.iter().find(|x| x.name == f.ty).unwrap();
                    let arg = match &f.arg { Some((an, at)) if at == "ID!" => format!("({}: \"1\")", an),
                                             Some((an, _)) => if rng.chance(1, 2) { uses_first = true; format!("({}: $first)", an) } else { String::new() }, None => String::new() };
                    body.push_str(&format!("  {}{} {{\n    {}\n  }}\n", f.name, arg, sel_obj(rng, sub, 0, &mut used)));
                }
                if has_union && !is_mut && false { body.push_str("  __typename\n"); }
                let vars = if uses_first { "($first: Int)" } else { "" };
                text.push_str(&format!("{} {}{} {{\n{}}}\n\n", if is_mut { "mutation" } else { "query" }, opname, vars, body));
            }
            for (n, t) in &local {
                let o = objs.iter().find(|x| x.name == *t).unwrap();
                text.push_str(&format!("fragment {} on {} {{ {} }}\n\n", n, t, scalar_sel(rng, o)));
            }
            let _ = used;
            imported_used.insert(path.clone(), avail.iter().map(|(n, _, f)| (n.clone(), f.clone())).collect());   // every imported fragment is printed, used or not
            op_files.push((path, text));
        }
        for (p, t, _) in frag_files { imported_used.insert(p.clone(), vec![]); op_files.push((p, t)); }

        // ---- config
        let mode = *rng.pick(&["with-loader-ts-5.0", "with-loader-ts-4.0", "standalone-ts-4.0"]);
        let runtime = has_enum && rng.chance(1, 4);     // emitSchemaRuntime: enums are also printed as `export const`
        let schema_out = if runtime { *rng.pick(&["./generated/schema.ts", "../out/schema.ts"]) }
                         else { *rng.pick(&["./generated/schema.d.ts", "./schema.d.ts", "./generated/deep/dir/schema.d.ts", "../out/types/schema.d.ts"]) };
        let mut config = String::new();
        config.push_str("schema: \"schema/**/*.graphql\"\ndocuments: \"ops/**/*.graphql\"\nextensions:\n  nitrogql:\n    generate:\n");
        config.push_str(&format!("      mode: {}\n      schemaOutput: {}\n", mode, schema_out));
        if rng.chance(1, 2) { config.push_str(&format!("      resolversOutput: {}\n", rng.pick(&["./generated/resolvers.d.ts", "../out/resolvers.d.ts", "./r.d.ts"]))); }
        if runtime { config.push_str("      emitSchemaRuntime: true\n"); }
        if has_scalar { config.push_str("      type:\n        scalarTypes:\n          Date: string\n"); }
        Proj { schema_files, op_files, imported_used, has_astral, config, mode }
    }

    fn read(p: &Path) -> Option<String> { fs::read_to_string(p).ok() }

    /// definitions of a schema file: (identifier, header start, header end) for types, and for fields
    /// tag: 'T' type that is not an input object, 'I' input object, 'F' object field, 'J' input field
    fn schema_defs(text: &str) -> Vec<(String, Pos, Pos, char)> {
        let mut out = vec![];
        let doc = match parse_type_system_document(text) { Ok(d) => d, Err(_) => return out };
        let end = |p: &Pos, name: &str| Pos { line: p.line, column: p.column + name.chars().count(), file: 0, builtin: false };
        for d in &doc.definitions {
            match d {
                TD::TypeDefinition(td) => {
                    let (pos, name) = match td {
                        TDef::Scalar(x) => (x.position, x.name), TDef::Object(x) => (x.position, x.name), TDef::Interface(x) => (x.position, x.name),
                        TDef::Union(x) => (x.position, x.name), TDef::Enum(x) => (x.position, x.name), TDef::InputObject(x) => (x.position, x.name),
                    };
                    out.push((name.name.to_string(), pos, end(&name.position, name.name), if matches!(td, TDef::InputObject(_)) { 'I' } else { 'T' }));
                    match td {
                        TDef::Object(x) => for f in &x.fields { out.push((f.name.name.to_string(), f.name.position, end(&f.name.position, f.name.name), 'F')); },
                        // an interface is printed as the union of its implementers: its own fields are not printed
                        TDef::InputObject(x) => for f in &x.fields { out.push((f.name.name.to_string(), f.name.position, end(&f.name.position, f.name.name), 'J')); },
                        _ => {}
                    }
                }
                TD::TypeExtension(TExt::Object(x)) => for f in &x.fields { out.push((f.name.name.to_string(), f.name.position, end(&f.name.position, f.name.name), 'F')); },
                _ => {}
            }
        }
        out
    }

    /// definitions of an operation file: operations give three identifiers, fragments one
    fn op_defs(text: &str) -> Vec<(Vec<String>, String, Pos, Pos)> {
        let mut out = vec![];
        let doc = match parse_operation_document(text) { Ok(d) => d, Err(_) => return out };
        for d in &doc.definitions {
            match d {
                XD::OperationDefinition(op) => if let Some(n) = op.name {
                    let kind = match op.operation_type { nitrogql_ast::operation::OperationType::Query => "Query", nitrogql_ast::operation::OperationType::Mutation => "Mutation", _ => "Subscription" };
                    out.push((vec![format!("{}Result", n.name), format!("{}Variables", n.name), format!("{}{}", n.name, kind)], n.name.to_string(), op.position, op.selection_set.position));
                },
                XD::FragmentDefinition(fr) => out.push((vec![fr.name.name.to_string()], fr.name.name.to_string(), fr.position, fr.selection_set.position)),
                _ => {}
            }
        }
        out
    }

    fn coq_def(ident: &str, path: &str, a: &Pos, b: &Pos) -> String {
        format!("({}, {}, {}, {}, {}, {})", coq_str(ident), coq_str(path), coq_n(a.line as u64), coq_n(a.column as u64), coq_n(b.line as u64), coq_n(b.column as u64))
    }

    pub fn run_projects(rng: &mut Rng, bin: &Path, work: &Path, n: usize, _thorough: bool) -> CliRun {
        let mut r = CliRun { cases: vec![], stats: vec![], direct_failures: vec![] };
        let mut st: BTreeMap<String, u64> = BTreeMap::new();
        fn bump_in(st: &mut BTreeMap<String, u64>, k: &str, v: u64) { *st.entry(k.to_string()).or_insert(0) += v; }
        macro_rules! bump { ($k:expr, $v:expr) => { bump_in(&mut st, $k, $v) } }
        let _ = fs::remove_dir_all(work);
        fs::create_dir_all(work).unwrap();
        let work = fs::canonicalize(work).unwrap();
        // two fixed projects first: the witness of the former imported-fragment defect (DESIGN section 6, #11, fixed in
        // /repo) and the witness of the known UTF-16 column defect (#18)
        let corpus: Vec<Proj> = vec![
            Proj {
                schema_files: vec![("schema/schema.graphql".into(), "type Query {\n  me: User!\n}\n\ntype User {\n  id: ID!\n  name: String\n}\n".into())],
                op_files: vec![("ops/main.graphql".into(), "#import F from \"./y.graphql\"\nquery Q {\n  me { ...F }\n}\n".into()),
                               ("ops/y.graphql".into(), "fragment F on User {\n  id\n  name\n}\n".into())],
                imported_used: [("ops/main.graphql".to_string(), vec![("F".to_string(), "ops/y.graphql".to_string())]), ("ops/y.graphql".to_string(), vec![])].into_iter().collect(),
                has_astral: false,
                config: "schema: \"schema/**/*.graphql\"\ndocuments: \"ops/**/*.graphql\"\nextensions:\n  nitrogql:\n    generate:\n      mode: with-loader-ts-5.0\n      schemaOutput: ./generated/schema.d.ts\n".into(),
                mode: "with-loader-ts-5.0",
            },
            Proj {
                schema_files: vec![("schema/schema.graphql".into(), "type Query {\n  \"😀 note\" name: String\n  plain: Int\n}\n".into())],
                op_files: vec![("ops/q.graphql".into(), "query Q {\n  name\n  plain\n}\n".into())],
                imported_used: [("ops/q.graphql".to_string(), vec![])].into_iter().collect(),
                has_astral: true,
                config: "schema: \"schema/**/*.graphql\"\ndocuments: \"ops/**/*.graphql\"\nextensions:\n  nitrogql:\n    generate:\n      mode: standalone-ts-4.0\n      schemaOutput: ./generated/schema.d.ts\n      resolversOutput: ./generated/resolvers.d.ts\n".into(),
                mode: "standalone-ts-4.0",
            },
        ];
        let ncorpus = corpus.len();
        let mut corpus = corpus.into_iter();
        for k in 0..(n + ncorpus) {
            let pj = match corpus.next() { Some(p) => { bump!("cli_corpus_projects", 1); p } None => gen_project(rng, k) };
            let root = work.join(format!("p{}", k)).join("proj");
            for (p, t) in pj.schema_files.iter().chain(pj.op_files.iter()) {
                let fp = root.join(p); fs::create_dir_all(fp.parent().unwrap()).unwrap(); fs::write(&fp, t).unwrap();
            }
            fs::write(root.join("graphql.config.yaml"), &pj.config).unwrap();
            let outp = Command::new(bin).arg("--config-file").arg("graphql.config.yaml").arg("generate").current_dir(&root).output();
            let ok = matches!(&outp, Ok(o) if o.status.success());
            bump!("cli_projects_run", 1);
            bump!(&format!("cli_mode_{}", pj.mode), 1);
            if !ok {
                bump!("cli_generate_failed", 1);
                if let Ok(o) = &outp {
                    let code = o.status.code();
                    if code != Some(1) {
                        r.direct_failures.push(json!({"what": "nitrogql-cli generate crashed on a generated project (not a diagnostic exit)", "classes": [], "project": root.to_string_lossy(), "exit": code,
                                                      "stderr": String::from_utf8_lossy(&o.stderr).chars().take(600).collect::<String>()}));
                    } else if st.get("cli_generate_failed").copied().unwrap_or(0) <= 3 {
                        eprintln!("generate failed on {}: {}", root.display(), String::from_utf8_lossy(&o.stdout).chars().take(400).collect::<String>());
                    }
                }
                continue;
            }
            // the file store as the CLI builds it: globmatch returns the paths sorted
            let mut sfiles: Vec<(PathBuf, String)> = pj.schema_files.iter().map(|(p, t)| (root.join(p), t.clone())).collect();
            let mut ofiles: Vec<(PathBuf, String, String)> = pj.op_files.iter().map(|(p, t)| (root.join(p), t.clone(), p.clone())).collect();
            sfiles.sort_by(|a, b| a.0.cmp(&b.0)); ofiles.sort_by(|a, b| a.0.cmp(&b.0));
            let sf_term = coq_list(&sfiles, |(p, t)| format!("({}, {})", coq_str(&p.to_string_lossy()), coq_u8(t)));
            let of_term = coq_list(&ofiles, |(p, t, _)| format!("({}, {})", coq_str(&p.to_string_lossy()), coq_u8(t)));
            // outputs
            let cfg: serde_yaml::Value = serde_yaml::from_str(&pj.config).unwrap();
            let gen = &cfg["extensions"]["nitrogql"]["generate"];
            let norm = |p: PathBuf| -> PathBuf { nitrogql_utils::normalize_path(&p) };
            let mut outputs: Vec<(PathBuf, Option<(usize, Vec<usize>)>, &str)> = vec![];
            if let Some(so) = gen["schemaOutput"].as_str() { outputs.push((root.join(so), None, "schema")); }
            if let Some(ro) = gen["resolversOutput"].as_str() { outputs.push((root.join(ro), None, "resolvers")); }
            let ext = match pj.mode { "with-loader-ts-5.0" => "d.graphql.ts", "with-loader-ts-4.0" => "graphql.d.ts", _ => "graphql.ts" };
            for (j, (p, _, rel)) in ofiles.iter().enumerate() {
                let mut q = p.clone(); q.set_extension(ext);
                // contributing_files: the file of every definition of the import-resolved document, in
                // document order with repetitions (own definitions, then the imported fragments)
                let me = sfiles.len() + j;
                let mut contrib: Vec<usize> = vec![];
                let own = parse_operation_document(&ofiles[j].1).map(|d| d.definitions.iter().filter(|x| !matches!(x, XD::Import(_))).count()).unwrap_or(0);
                for _ in 0..own { contrib.push(me); }
                for (_, ffile) in pj.imported_used.get(rel).cloned().unwrap_or_default() {
                    let fp = root.join(&ffile);
                    if let Some(jj) = ofiles.iter().position(|x| x.0 == fp) { contrib.push(sfiles.len() + jj); }
                }
                outputs.push((q, Some((me, contrib)), "operation"));
            }
            for (gpath, op, okind) in outputs {
                let mpath = PathBuf::from(format!("{}.map", gpath.to_string_lossy()));
                let (gtext, mtext) = match (read(&gpath), read(&mpath)) { (Some(a), Some(b)) => (a, b), _ => {
                    r.direct_failures.push(json!({"what": "generate succeeded but an expected output or its .map is missing", "classes": [], "file": gpath.to_string_lossy()})); continue; } };
                bump!(&format!("cli_maps_{}", okind), 1);
                let v: Value = serde_json::from_str(&mtext).unwrap_or(Value::Null);
                let strs = |x: &Value| -> Option<Vec<String>> { x.as_array().and_then(|a| a.iter().map(|e| e.as_str().map(|z| z.to_string())).collect()) };
                let json_ok = v["version"] == json!(3) && v["file"].is_string() && strs(&v["sources"]).is_some() && strs(&v["names"]).is_some() && v["mappings"].is_string();
                let file = v["file"].as_str().unwrap_or("").to_string();
                let sources = strs(&v["sources"]).unwrap_or_default();
                let names = strs(&v["names"]).unwrap_or_default();
                let mappings = v["mappings"].as_str().unwrap_or("").to_string();
                // definitions printed in G
                let mut defs: Vec<String> = vec![]; let mut ndefs = 0u64;
                let mut hints: Vec<&str> = vec![];
                match (okind, &op) {
                    ("schema", _) => for (p, t) in &sfiles { for (id, a, b, _) in schema_defs(t) { defs.push(coq_def(&id, &p.to_string_lossy(), &a, &b)); ndefs += 1; } },
                    // the resolvers file declares every non-input type and the fields of object types
                    ("resolvers", _) => for (p, t) in &sfiles { for (id, a, b, tag) in schema_defs(t) { if tag == 'T' || tag == 'F' { defs.push(coq_def(&id, &p.to_string_lossy(), &a, &b)); ndefs += 1; } } },
                    ("operation", Some((fi, _))) => {
                        let (p, t, rel) = &ofiles[*fi - sfiles.len()];
                        for (ids, _, a, b) in op_defs(t) { for id in ids { defs.push(coq_def(&id, &p.to_string_lossy(), &a, &b)); ndefs += 1; } }
                        for (fname, ffile) in pj.imported_used.get(rel).cloned().unwrap_or_default() {
                            let fp = root.join(&ffile);
                            if let Some((_, ft, _)) = ofiles.iter().find(|x| x.0 == fp) {
                                for (ids, nm, a, b) in op_defs(ft) { if nm == fname { for id in ids { defs.push(coq_def(&id, &fp.to_string_lossy(), &a, &b)); ndefs += 1; } } }
                            }
                        }
                    }
                    _ => {}
                }
                // an astral character precedes a mapped token on its line only in schema files; operation outputs have no segment into them
                let astral_here = pj.has_astral && okind != "operation";
                if astral_here { hints.push("original-column-in-scalar-values-not-utf16"); }
                bump!("cli_definitions_checked", ndefs);
                let gnorm = norm(gpath.clone());
                let mk = |tol_scalar: bool| -> String {
                    format!("CProj {} {} [mk_mapfile {} {} {} {} {} {} {} {} [{}] {}]", sf_term, of_term,
                        coq_str(&gnorm.to_string_lossy()),
                        coq_opt(&op, |(i, c)| format!("({}, {})", coq_n(*i as u64), coq_list(c, |x| coq_n(*x as u64)))),
                        coq_u8(&gtext), coq_bool(json_ok), coq_str(&file),
                        coq_list(&sources, |x| coq_str(x)), coq_list(&names, |x| coq_str(x)), coq_str(&mappings), defs.join("; "),
                        coq_bool(tol_scalar))
                };
                let descr = |twin: bool, hints: &Vec<&str>| json!({"kind": "project", "project": root.to_string_lossy(), "generated_file": gnorm.to_string_lossy(), "output_kind": okind,
                    "mode": pj.mode, "map": v, "lenient_twin": twin, "failure_hints": if twin { vec![] } else { hints.clone() },
                    "schema_files": sfiles.iter().map(|x| x.0.to_string_lossy().to_string()).collect::<Vec<_>>(),
                    "operation_files": ofiles.iter().map(|x| x.0.to_string_lossy().to_string()).collect::<Vec<_>>()});
                r.cases.push((mk(false), descr(false, &hints)));
                if !hints.is_empty() {
                    bump!("cli_maps_with_known_defect_hint", 1);
                    r.cases.push((mk(astral_here), descr(true, &hints)));
                }
            }
        }
        r.stats = st.into_iter().collect();
        r
    }
}

// ------------------------------------------------------------------------------------------- VLQ

fn vlq_case(n: isize) -> (String, Value) {
    let out = base64_vlq(n);
    (format!("CVlq {} {}", coq_z(n as i128), coq_str(&out)), json!({"kind":"vlq","n":n.to_string(),"out":out}))
}

fn digest_step(h: u64, c: u64) -> u64 {
    h.wrapping_mul(1099511628211).wrapping_add(c).wrapping_add(1)
}

fn vlq_range_case(lo: isize, cnt: u64) -> (String, Value) {
    let mut h: u64 = 14695981039346656037;
    for k in 0..cnt {
        for c in base64_vlq(lo + k as isize).chars() { h = digest_step(h, c as u64); }
        h = digest_step(h, 255);
    }
    (format!("CVlqRange {} {} {}", coq_z(lo as i128), coq_n(cnt), coq_n(h)),
     json!({"kind":"vlq_range","lo":lo.to_string(),"count":cnt,"digest":h.to_string()}))
}

// ----------------------------------------------------------------------------------- MappingWriter

#[derive(Clone, Debug)]
struct Entry { gl: usize, gc: usize, ol: usize, oc: usize, fi: usize, ni: Option<usize> }

fn coq_entry(e: &Entry) -> String {
    format!("(mkent {} {} {} {} {} {})", coq_n(e.gl as u64), coq_n(e.gc as u64), coq_n(e.ol as u64), coq_n(e.oc as u64),
            coq_n(e.fi as u64), coq_opt(&e.ni, |k| coq_n(*k as u64)))
}

fn odd_usize(rng: &mut Rng) -> usize {
    match rng.below(8) {
        0 => usize::MAX,
        1 => usize::MAX - rng.below(3),
        2 => 1usize << 63,
        3 => (1usize << 63) - 1 - rng.below(2),
        4 => (1usize << 63) + rng.below(3),
        5 => 1usize << rng.range(30, 62),
        _ => rng.next() as usize,
    }
}

fn small_or_odd(rng: &mut Rng, max: usize, odd_per_1000: usize) -> usize {
    if rng.chance(odd_per_1000, 1000) { odd_usize(rng) } else { rng.below(max + 1) }
}

fn gen_entries(rng: &mut Rng, odd: usize) -> Vec<Entry> {
    let n = rng.range(0, 14);
    let mut es = vec![];
    let (mut gl, mut gc) = (0usize, 0usize);
    for _ in 0..n {
        match rng.below(10) {
            0 | 1 | 2 => { gl += rng.range(1, 3); gc = rng.below(12); }
            3 => { gl += 1; gc = 0; }
            4 if rng.chance(1, 6) => { gl = gl.saturating_sub(rng.range(1, 2)); }   // going back: add_entry panics
            5 if rng.chance(1, 3) => { gc = gc.saturating_sub(rng.range(1, 5)); }   // negative column delta
            _ => { gc += rng.below(40); }
        }
        let big = rng.chance(1, 5);
        es.push(Entry {
            gl,   // never huge: `";".repeat(delta)` would abort the process on allocation failure (not a panic)
            gc: if rng.chance(odd, 2000) { odd_usize(rng) } else if big { gc * 1000 } else { gc },
            ol: small_or_odd(rng, if big { 100000 } else { 60 }, odd),
            oc: small_or_odd(rng, if big { 5000 } else { 80 }, odd),
            fi: small_or_odd(rng, 4, odd * 2),
            ni: if rng.chance(1, 2) { Some(small_or_odd(rng, 20, odd)) } else { None },
        });
    }
    es
}

fn map_case(es: &[Entry]) -> (String, Value) {
    let es2 = es.to_vec();
    let out = catch(AssertUnwindSafe(move || {
        let mut m = MappingWriter::new();
        for e in &es2 { m.add_entry(e.gl, e.gc, e.ol, e.oc, e.fi, e.ni); }
        m.into_buffer()
    }));
    let o = out.as_ref().ok().cloned();
    (format!("CMap {} {}", coq_list(es, coq_entry), coq_opt(&o, |s| coq_str(s))),
     json!({"kind":"map","entries": es.iter().map(|e| json!([e.gl.to_string(), e.gc.to_string(), e.ol.to_string(), e.oc.to_string(), e.fi.to_string(), e.ni.map(|k| k.to_string())])).collect::<Vec<_>>(),
            "out": o, "panic": out.err()}))
}

// ------------------------------------------------------------------------------------ SourceWriter

#[derive(Clone, Debug)]
enum Wop { W(String), WF(String, Pos, Option<String>), Indent, Dedent }

fn coq_pos(p: &Pos) -> String {
    format!("(mkpos {} {} {} {})", coq_n(p.line as u64), coq_n(p.column as u64), coq_n(p.file as u64), coq_bool(p.builtin))
}
fn coq_wop(o: &Wop) -> String {
    match o {
        Wop::W(c) => format!("W {}", coq_str(c)),
        Wop::WF(c, p, n) => format!("WF {} {} {}", coq_str(c), coq_pos(p), coq_opt(n, |s| coq_str(s))),
        Wop::Indent => "Indent".into(),
        Wop::Dedent => "Dedent".into(),
    }
}
fn json_wop(o: &Wop) -> Value {
    match o {
        Wop::W(c) => json!({"w": c}),
        Wop::WF(c, p, n) => json!({"wf": c, "line": p.line.to_string(), "col": p.column.to_string(), "file": p.file.to_string(), "builtin": p.builtin, "name": n}),
        Wop::Indent => json!("indent"),
        Wop::Dedent => json!("dedent"),
    }
}

const PIECES: &[&str] = &["export type ", "Foo", " = ", "{", "}", ";", "a", "  ", "\t", "x: number", "é", "日本", "😀", "𝒳y", "\r", "\r\n",
    "\n", "\n\n", "", "line1\nline2", "\nlead", "trail\n", "a\n\n\nb", "\n  \n", "|", "__typename", "\"q\"", "\u{feff}", "\u{2028}"];
const NAMES: &[&str] = &["Query", "User", "id", "name", "type", "fragment", "F", "Q", "posts", "é", "😀n", "a_b", "X1", "X2", "X3", "X4", "X5", "X6", "X7", ""];

fn gen_chunk(rng: &mut Rng) -> String {
    let k = match rng.below(10) { 0 => 0, 1..=6 => 1, 7 | 8 => 2, _ => rng.range(3, 5) };
    let mut s = String::new();
    for _ in 0..k { s.push_str(*rng.pick(PIECES)); }
    s
}

/// a file-index mapper shaped like the ones cli/generate.rs builds: schema files keep their index, at
/// most one operation file maps to schema_len, the others to usize::MAX
fn gen_fmap(rng: &mut Rng) -> Option<Vec<usize>> {
    if rng.chance(1, 4) { return None; }
    let ns = rng.range(0, 3); let no = rng.range(0, 3);
    let the_op = if no > 0 && rng.chance(4, 5) { Some(rng.below(no)) } else { None };
    let mut m: Vec<usize> = (0..ns).collect();
    for j in 0..no { m.push(if Some(j) == the_op { ns } else { usize::MAX }); }
    Some(m)
}

fn gen_ops(rng: &mut Rng, fmap: &Option<Vec<usize>>, odd: usize, allow_unmapped: bool) -> Vec<Wop> {
    let n = if rng.chance(1, 8) { rng.range(30, 70) } else { rng.range(0, 18) };
    let nfiles = fmap.as_ref().map_or(3, |m| m.len());
    let good_files: Vec<usize> = match fmap { None => (0..3).collect(), Some(m) => (0..m.len()).filter(|i| m[*i] != usize::MAX).collect() };
    let mut ops = vec![];
    for _ in 0..n {
        match rng.below(10) {
            0 | 1 | 2 => ops.push(Wop::W(gen_chunk(rng))),
            3 => ops.push(Wop::Indent),
            4 => ops.push(if rng.chance(2, 3) { Wop::Dedent } else { Wop::W("\n".into()) }),
            _ => {
                let file = if !good_files.is_empty() && !(allow_unmapped && rng.chance(1, 12)) { *rng.pick(&good_files) }
                           else if rng.chance(1, 6) { nfiles + rng.below(2) }     // out of range: write_for panics when a mapper is set
                           else { rng.below(nfiles.max(1)) };
                let p = Pos { line: small_or_odd(rng, 50, odd), column: small_or_odd(rng, 90, odd), file, builtin: rng.chance(1, 12) };
                let name = if rng.chance(2, 3) { Some(rng.pick(NAMES).to_string()) } else { None };
                let chunk = if name.is_some() && rng.chance(1, 2) { name.clone().unwrap() } else { gen_chunk(rng) };
                ops.push(Wop::WF(chunk, p, name));
            }
        }
    }
    ops
}

fn run_writer(fmap: &Option<Vec<usize>>, ops: &[Wop]) -> Result<(String, String, Vec<String>), String> {
    let (fmap, ops) = (fmap.clone(), ops.to_vec());
    catch(AssertUnwindSafe(move || {
        let mut w = SourceWriter::new();
        if let Some(m) = fmap { w.set_file_index_mapper(m); }
        for o in &ops {
            match o {
                Wop::W(c) => w.write(c),
                Wop::WF(c, p, n) => w.write_for(c, &NamePos { name: n.as_deref(), pos: *p }),
                Wop::Indent => w.indent(),
                Wop::Dedent => w.dedent(),
            }
        }
        let b = w.into_buffers();
        (b.buffer, b.source_map, b.names)
    }))
}

fn writer_case(fmap: &Option<Vec<usize>>, ops: &[Wop]) -> (String, Value) {
    let out = run_writer(fmap, ops);
    let o = out.as_ref().ok().cloned();
    let unmapped = ops.iter().any(|o| match (o, fmap) {
        (Wop::WF(_, p, _), Some(m)) => !p.builtin && p.file < m.len() && m[p.file] == usize::MAX,
        _ => false });
    (format!("CWriter {} {} {}", coq_opt(fmap, |m| coq_list(m, |i| coq_n(*i as u64))), coq_list(ops, coq_wop),
             coq_opt(&o, |(b, m, n)| format!("({}, {}, {})", coq_str(b), coq_str(m), coq_list(n, |s| coq_str(s))))),
     json!({"kind":"writer","file_index_mapper": fmap.as_ref().map(|m| m.iter().map(|i| i.to_string()).collect::<Vec<_>>()),
            "ops": ops.iter().map(json_wop).collect::<Vec<_>>(),
            "uses_unmapped_file_index": unmapped,
            "out": o.as_ref().map(|(b, m, n)| json!({"buffer": b, "source_map": m, "names": n})), "panic": out.err()}))
}

// --------------------------------------------------------------------------- print_source_map_json

fn random_abs_path(rng: &mut Rng, file: bool) -> String {
    const D: &[&str] = &["src", "a", "b", "gen", "__generated__", "q r", "é", "x.y", "\"q\"", "back\\slash", "..", ".", "😀"];
    const F: &[&str] = &["schema.d.ts", "a.graphql", "b.graphql", "op.d.graphql.ts", "x", "q\"uote.graphql", "tab\there.graphql", "日本.graphql"];
    let mut s = String::new();
    for _ in 0..rng.range(0, 5) { s.push('/'); s.push_str(*rng.pick(D)); }
    s.push('/');
    if file || rng.chance(9, 10) { s.push_str(*rng.pick(F)); } else { s.push_str(*rng.pick(D)); }
    if rng.chance(1, 25) { s.push('/'); }
    if rng.chance(1, 25) { s = s[1..].to_string(); }    // relative
    s
}

fn json_case(rng: &mut Rng) -> (String, Value) {
    let file = random_abs_path(rng, true);
    let srcs: Vec<String> = (0..rng.range(0, 4)).map(|_| {
        if rng.chance(1, 2) {
            // a sibling or a file below/above the generated file's directory
            let dir = Path::new(&file).parent().map(|p| p.to_string_lossy().to_string()).unwrap_or_default();
            match rng.below(3) { 0 => format!("{}/s.graphql", dir), 1 => format!("{}/sub/dir/s.graphql", dir), _ => format!("{}/../s.graphql", dir) }
        } else { random_abs_path(rng, true) }
    }).collect();
    let names: Vec<String> = (0..rng.range(0, 3)).map(|_| rng.pick(NAMES).to_string()).collect();
    let mappings = ",AAAA;;ACEA".to_string();
    let (f2, s2, n2, m2) = (file.clone(), srcs.clone(), names.clone(), mappings.clone());
    let out = catch(AssertUnwindSafe(move || {
        let paths: Vec<&Path> = s2.iter().map(|s| Path::new(s.as_str())).collect();
        let mut buf = String::new();
        print_source_map_json(Path::new(&f2), &paths, &n2, &m2, &mut buf).unwrap();
        buf
    }));
    let mut passthru = false;
    let mut o: Option<(String, Vec<String>)> = None;
    let mut raw = None;
    match &out {
        Ok(text) => {
            raw = Some(text.clone());
            if let Ok(v) = serde_json::from_str::<Value>(text) {
                passthru = v["version"] == json!(3) && v["sourceRoot"] == json!("") && v["names"] == json!(names) && v["mappings"] == json!(mappings)
                    && v.as_object().map_or(false, |o| o.len() == 6);
                if let (Some(f), Some(ss)) = (v["file"].as_str(), v["sources"].as_array()) {
                    if ss.iter().all(|x| x.is_string()) {
                        o = Some((f.to_string(), ss.iter().map(|x| x.as_str().unwrap().to_string()).collect()));
                    }
                }
            }
            if o.is_none() { o = Some(("<unparseable JSON>".into(), vec![])); passthru = false; }
        }
        Err(_) => { passthru = true; }
    }
    (format!("CJson {} {} {} {}", coq_str(&file), coq_list(&srcs, |s| coq_str(s)), coq_bool(passthru),
             coq_opt(&o, |(f, ss)| format!("({}, {})", coq_str(f), coq_list(ss, |s| coq_str(s))))),
     json!({"kind":"json","file":file,"sources_in":srcs,"json":raw,"panic":out.err()}))
}

// ------------------------------------------------------------------------------------------- main

fn main() {
    silence_panics();
    let args = parse_args();
    let mut rng = Rng::new(args.seed);
    let thorough = args.tier == "thorough";
    let shard = 700usize;
    let mut light: Vec<(String, Value)> = vec![];
    let mut heavy: Vec<(String, Value)> = vec![];
    let mut distinct: HashSet<String> = HashSet::new();
    let mut stats: BTreeMap<String, u64> = BTreeMap::new();
    let mut bump = |k: &str, n: u64| { *stats.entry(k.to_string()).or_insert(0) += n; };
    let mut direct_failures: Vec<Value> = vec![];

    // corpus first
    let corpus = PathBuf::from("/verif/corpus/C06");
    let mut corpus_vlq: Vec<isize> = vec![];
    if let Ok(text) = std::fs::read_to_string(corpus.join("vlq.txt")) {
        for l in text.lines() { if let Ok(n) = l.trim().parse::<isize>() { corpus_vlq.push(n); } }
    }
    for n in &corpus_vlq { light.push(vlq_case(*n)); distinct.insert(format!("v{}", n)); bump("vlq_corpus", 1); }

    // 1. VLQ: boundaries, small values, random
    let mut vals: Vec<isize> = vec![isize::MIN, isize::MIN + 1, isize::MAX, isize::MAX - 1];
    for k in 0..63u32 { let p = 1isize << k; for d in [-2isize, -1, 0, 1, 2] { vals.push(p.wrapping_add(d)); vals.push((-p).wrapping_add(d)); } }
    for n in -600isize..=600 { vals.push(n); }
    let n_rand = if thorough { 40000 } else { 6000 };
    for _ in 0..n_rand {
        let bits = rng.range(1, 64) as u32;
        let v = (rng.next() >> (64 - bits)) as isize;
        vals.push(if rng.chance(1, 2) { v } else { v.wrapping_neg() });
    }
    for n in vals { if distinct.insert(format!("v{}", n)) { light.push(vlq_case(n)); bump("vlq_values", 1); } }
    if thorough {
        // all of [-2^22, 2^22] as digests of consecutive blocks (the model recomputes each digest and
        // decodes every value of the block)
        let lo: isize = -(1 << 22); let total: u64 = (1u64 << 23) + 1; let block: u64 = 1 << 16;
        let mut start = 0u64;
        while start < total {
            let cnt = block.min(total - start);
            heavy.push(vlq_range_case(lo + start as isize, cnt));
            distinct.insert(format!("vr{}", start)); bump("vlq_range_values", cnt);
            start += cnt;
        }
    } else {
        for lo in [-70000isize, -40, 1 << 20] { heavy.push(vlq_range_case(lo, 4096)); distinct.insert(format!("vr{}", lo)); bump("vlq_range_values", 4096); }
    }

    // 2. MappingWriter
    let n_map = if thorough { 6000 } else { 700 };
    for i in 0..n_map {
        let es = gen_entries(&mut rng, if i % 3 == 0 { 60 } else { 0 });
        let (t, d) = map_case(&es);
        if d["panic"].is_string() { bump("map_panics", 1); } else { bump("map_ok", 1); }
        if !es.is_empty() && distinct.insert(t.clone()) { bump("map_distinct_nonempty", 1); }
        light.push((t, d));
    }

    // 3. SourceWriter
    let n_wr = if thorough { 8000 } else { 900 };
    for i in 0..n_wr {
        let fmap = gen_fmap(&mut rng);
        let ops = gen_ops(&mut rng, &fmap, if i % 4 == 0 { 40 } else { 0 }, i % 5 == 0);
        let (t, d) = writer_case(&fmap, &ops);
        if d["panic"].is_string() { bump("writer_panics", 1); } else { bump("writer_ok", 1); }
        // outside the contract of write_for (tie only; the spec-side predicate does not apply)
        if d["uses_unmapped_file_index"] == json!(true) { bump("writer_uses_unmapped_file_index", 1); }
        let nontrivial = ops.iter().any(|o| matches!(o, Wop::WF(_, p, _) if !p.builtin));
        if nontrivial && distinct.insert(t.clone()) { bump("writer_distinct_with_segments", 1); }
        bump("writer_ops", ops.len() as u64);
        light.push((t, d));
    }

    // 4. print_source_map_json
    let n_js = if thorough { 3000 } else { 400 };
    for _ in 0..n_js {
        let (t, d) = json_case(&mut rng);
        if d["panic"].is_string() { bump("json_panics", 1); }
        if d["sources_in"].as_array().map_or(false, |a| !a.is_empty()) && distinct.insert(t.clone()) { bump("json_distinct_with_sources", 1); }
        light.push((t, d));
    }

    // 5. whole projects through the real CLI binary
    let cli_bin = args.extra.iter().position(|a| a == "--cli").and_then(|i| args.extra.get(i + 1)).cloned();
    if let Some(bin) = cli_bin {
        let n_proj = if thorough { 240 } else { 36 };
        let work = args.out.join("projects");
        let r = cli::run_projects(&mut rng, Path::new(&bin), &work, n_proj, thorough);
        for (t, d) in r.cases { if distinct.insert(t.clone()) { bump("cli_projects_distinct", 1); } heavy.push((t, d)); }
        for (k, v) in r.stats { bump(&k, v); }
        direct_failures.extend(r.direct_failures);
    } else {
        bump("cli_projects_skipped_no_binary", 1);
    }

    // spread the heavy cases evenly over the shards
    let total = light.len() + heavy.len();
    let nshards = (total + shard - 1) / shard;
    let mut buckets: Vec<Vec<(String, Value)>> = (0..nshards).map(|_| vec![]).collect();
    for (i, c) in heavy.into_iter().enumerate() { buckets[i % nshards].push(c); }
    let mut b = 0usize;
    for c in light {
        while buckets[b].len() >= shard { b += 1; }
        buckets[b].push(c);
    }
    // every shard but the last must be full for the global numbering (shard_size * k + i) to hold
    let mut cases = Cases::new("From V Require Import Base.Util C06.Model C06.Spec C06.Corr.", "case", "agree", "holds", shard);
    let mut flat: Vec<(String, Value)> = buckets.into_iter().flatten().collect();
    // (buckets are filled to `shard` in order, so flattening keeps shard boundaries)
    for (t, d) in flat.drain(..) { cases.push(t, d); }
    cases.write(&args.out);

    let n = cases.len();
    let pick = |k: &str| cases.descr.iter().find(|d| d["kind"] == json!(k)).cloned().unwrap_or(json!(null));
    let trim = |mut v: Value| { if let Some(o) = v.as_object_mut() { for key in ["maps", "schema_files", "operation_files"] { if o.contains_key(key) { o.insert(key.to_string(), json!("<omitted in sample>")); } } } v };
    write_meta(&args.out, &json!({
        "evaluations": n,
        "distinct_nontrivial": distinct.len(),
        "rule": "distinct = distinct inputs; non-trivial = VLQ: every value (boundaries 2^k±2, isize::MIN/MAX, [-600,600], random widths) and value blocks; MappingWriter: entry lists with >= 1 entry; SourceWriter: op lists with >= 1 non-builtin write_for; print_source_map_json: >= 1 source; CLI: projects on which `generate` wrote >= 1 map",
        "samples": [trim(pick("vlq")), trim(pick("map")), trim(pick("writer")), trim(pick("json")), trim(pick("project"))],
        "distribution": stats,
        "direct_failures": direct_failures,
    }));
}
