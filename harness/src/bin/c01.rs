//! C01 / C02: runs the real operation result-type generator of /repo (get_type_for_selection_set,
//! generate_selection_tree_type, print_types_for_operation_document) on generated schemas and
//! spec-valid operation documents and writes the case files the Coq model and the spec-side
//! predicates are evaluated on.  `--mode c02` selects `holds2` (C02) as the property predicate.
use graphql_type_system::{Schema, Type};
use nitrogql_ast::base::Pos;
use nitrogql_ast::operation::{ExecutableDefinition, FragmentDefinition, OperationType};
use nitrogql_ast::selection_set::Selection;
use nitrogql_ast::type_system::{TypeDefinition, TypeSystemDefinition};
use nitrogql_ast::value::Value;
use nitrogql_ast::{OperationDocument, TypeSystemDocument};
use nitrogql_printer::verif_hooks::{
    generate_selection_tree_type, get_type_for_selection_set, GenerateSelectionTreeTypeContext, QueryTypePrinterContext,
    SelectionTree, SelectionTreeField,
};
use nitrogql_config_file::{ScalarTypeConfig, SeparateScalarTypeConfig};
use nitrogql_printer::{print_types_for_operation_document, OperationTypePrinterOptions, SchemaTypePrinter, SchemaTypePrinterOptions};
use serde_json::{json, Value as J};
use std::borrow::Cow;
use std::collections::{BTreeMap, BTreeSet, HashMap, HashSet};
use std::fmt::Write as _;
use std::fs;
use std::panic::AssertUnwindSafe;
use verif_harness::gen::*;
use verif_harness::pipeline::*;
use verif_harness::rec::{wops_coq, Rec};
use verif_harness::ts_coq::tstype;
use verif_harness::*;

// ---------------------------------------------------------------- printing selection trees

fn gty(t: &Type<Cow<str>, Pos>) -> String {
    match t {
        Type::Named(n) => format!("(GNamed {})", coq_str(n.inner_ref())),
        Type::List(l) => format!("(GList {})", gty(l.as_inner())),
        Type::NonNull(l) => format!("(GNonNull {})", gty(l.as_inner())),
    }
}
fn sfield(f: &SelectionTreeField<Cow<str>>) -> String {
    match f {
        SelectionTreeField::Empty(e) => format!("(SFEmpty {})", coq_str(&e.name)),
        SelectionTreeField::Leaf(l) => format!("(SFLeaf {} {})", coq_str(&l.name), gty(&l.r#type)),
        SelectionTreeField::Object(o) => format!("(SFObject {} {})", coq_str(&o.name), stree(&o.selection)),
    }
}
fn stree(t: &SelectionTree<Cow<str>>) -> String {
    match t {
        SelectionTree::NonNull(i) => format!("(STNonNull {})", stree(i)),
        SelectionTree::List(i) => format!("(STList {})", stree(i)),
        SelectionTree::Object(bs) => format!(
            "(STObject {})",
            coq_list(bs, |b| format!("(mkBranch {} {} {})", coq_str(&b.type_name), coq_list(&b.unaliased_fields, sfield), coq_list(&b.aliased_fields, sfield)))
        ),
    }
}
fn tree_stats(t: &SelectionTree<Cow<str>>, branches: &mut usize, merged_depth: &mut usize, depth: usize) {
    match t {
        SelectionTree::NonNull(i) | SelectionTree::List(i) => tree_stats(i, branches, merged_depth, depth),
        SelectionTree::Object(bs) => {
            *branches += bs.len();
            *merged_depth = (*merged_depth).max(depth);
            for b in bs {
                for f in b.unaliased_fields.iter().chain(b.aliased_fields.iter()) {
                    if let SelectionTreeField::Object(o) = f { tree_stats(&o.selection, branches, merged_depth, depth + 1); }
                }
            }
        }
    }
}
fn perr(msg: &str) -> String {
    if msg == "Type system error" { "(Some (Err ETypeSystem))".into() }
    else if msg.starts_with("Cannot merge fields of different types") { "(Some (Err EMergeFields))".into() }
    else if msg.starts_with("Cannot merge selection trees") { "(Some (Err EMergeTrees))".into() }
    else { "None".into() }
}

// ---------------------------------------------------------------- the guards, evaluated on the AST
// (the same definitions as C01/Spec.v merge_safe and C01/Corr.v alias_free; `agree` compares them)

struct SV<'a> { doc: &'a TypeSystemDocument<'a> }
impl<'a> SV<'a> {
    fn lookup(&self, n: &str) -> Option<&'a TypeDefinition<'a>> {
        self.doc.definitions.iter().find_map(|d| match d { TypeSystemDefinition::TypeDefinition(t) if t.name().name == n => Some(t), _ => None })
    }
    fn possible(&self, n: &str) -> Vec<String> {
        match self.lookup(n) {
            Some(TypeDefinition::Object(_)) => vec![n.to_string()],
            Some(TypeDefinition::Interface(_)) => self.doc.definitions.iter().filter_map(|d| match d {
                TypeSystemDefinition::TypeDefinition(TypeDefinition::Object(o)) if o.implements.iter().any(|i| i.name == n) => Some(o.name.name.to_string()),
                _ => None }).collect(),
            Some(TypeDefinition::Union(u)) => u.members.iter().map(|m| m.name.to_string()).collect(),
            _ => vec![],
        }
    }
    fn applies(&self, o: &str, cond: &str) -> bool { self.possible(cond).iter().any(|x| x == o) }
    fn field_named_type(&self, o: &str, f: &str) -> Option<String> {
        if f == "__typename" { return Some("String".into()); }
        match self.lookup(o) {
            Some(TypeDefinition::Object(od)) => od.fields.iter().find(|x| x.name.name == f).map(|x| x.r#type.unwrapped_type().name.name.to_string()),
            _ => None,
        }
    }
}
type Frags<'a> = Vec<&'a FragmentDefinition<'a>>;
fn frag<'a>(fs: &Frags<'a>, n: &str) -> Option<&'a FragmentDefinition<'a>> { fs.iter().find(|f| f.name.name == n).copied() }

fn dir_has_var(ds: &[nitrogql_ast::directive::Directive]) -> bool {
    ds.iter().any(|d| (d.name.name == "skip" || d.name.name == "include")
        && matches!(d.arguments.iter().flat_map(|a| a.arguments.iter()).find(|(k, _)| k.name == "if"), Some((_, Value::Variable(_)))))
}
fn dir_vars_of<'a>(ds: &'a [nitrogql_ast::directive::Directive<'a>], out: &mut BTreeSet<&'a str>) {
    for d in ds {
        if d.name.name == "skip" || d.name.name == "include" {
            if let Some((_, Value::Variable(v))) = d.arguments.iter().flat_map(|a| a.arguments.iter()).find(|(k, _)| k.name == "if") { out.insert(v.name); }
        }
    }
}
/// every boolean condition variable reachable from a selection set (through sub-selections, inline fragments, spreads)
fn reach_vars<'a>(fs: &Frags<'a>, sels: &[&'a Selection<'a>], seen: &mut Vec<&'a str>, out: &mut BTreeSet<&'a str>) {
    for s in sels {
        match s {
            Selection::Field(f) => { dir_vars_of(&f.directives, out); if let Some(ss) = &f.selection_set { reach_vars(fs, &ss.selections.iter().collect::<Vec<_>>(), seen, out); } }
            Selection::FragmentSpread(sp) => {
                dir_vars_of(&sp.directives, out);
                if seen.contains(&sp.fragment_name.name) { continue; }
                seen.push(sp.fragment_name.name);
                if let Some(fd) = frag(fs, sp.fragment_name.name) { reach_vars(fs, &fd.selection_set.selections.iter().collect::<Vec<_>>(), seen, out); }
            }
            Selection::InlineFragment(i) => { dir_vars_of(&i.directives, out); reach_vars(fs, &i.selection_set.selections.iter().collect::<Vec<_>>(), seen, out); }
        }
    }
}
/// boolean variables of a selection set's own @skip/@include, through inline fragments and spreads (not through sub-selections)
fn local_var_set<'a>(fs: &Frags<'a>, sels: &[&'a Selection<'a>], depth: usize, out: &mut BTreeSet<&'a str>) {
    if depth > 64 { return; }
    for s in sels {
        match s {
            Selection::Field(f) => dir_vars_of(&f.directives, out),
            Selection::FragmentSpread(sp) => { dir_vars_of(&sp.directives, out); if let Some(fd) = frag(fs, sp.fragment_name.name) { local_var_set(fs, &fd.selection_set.selections.iter().collect::<Vec<_>>(), depth + 1, out); } }
            Selection::InlineFragment(i) => { dir_vars_of(&i.directives, out); local_var_set(fs, &i.selection_set.selections.iter().collect::<Vec<_>>(), depth + 1, out); }
        }
    }
}
/// syntactic estimate of the number of branches the generator BUILDS for a selection set (objects x 2^variables, each branch
/// building the trees of all its object fields again), saturating; used to leave pathological documents out before the real
/// code is run on them
fn est_branches<'a>(sv: &SV, fs: &Frags<'a>, t: &str, sels: &[&'a Selection<'a>], depth: usize) -> u64 {
    const SAT: u64 = 1 << 40;
    if depth > 24 { return SAT; }
    let mut vars = BTreeSet::new(); local_var_set(fs, sels, 0, &mut vars);
    let mult = 1u64 << vars.len().min(30);
    let mut total = 0u64;
    for o in sv.possible(t) {
        let mut per = 1u64;
        for (_, name, sub) in scope_fields(sv, fs, &o, sels, 0) {
            if sub.is_empty() { continue; }
            if let Some(named) = sv.field_named_type(&o, &name) { per = per.saturating_add(est_branches(sv, fs, &named, &sub, depth + 1)); if per >= SAT { return SAT; } }
        }
        total = total.saturating_add(mult.saturating_mul(per)); if total >= SAT { return SAT; }
    }
    total
}
fn has_local_vars<'a>(fs: &Frags<'a>, sels: &[&'a Selection<'a>], depth: usize) -> bool {
    if depth > 64 { return false; }
    sels.iter().any(|s| match s {
        Selection::Field(f) => dir_has_var(&f.directives),
        Selection::FragmentSpread(sp) => dir_has_var(&sp.directives) || frag(fs, sp.fragment_name.name).map_or(false, |fd| has_local_vars(fs, &fd.selection_set.selections.iter().collect::<Vec<_>>(), depth + 1)),
        Selection::InlineFragment(i) => dir_has_var(&i.directives) || has_local_vars(fs, &i.selection_set.selections.iter().collect::<Vec<_>>(), depth + 1),
    })
}
/// (key, field name, sub-selections) in the generator's order: fields first, then fragments
fn scope_fields<'a>(sv: &SV, fs: &Frags<'a>, o: &str, sels: &[&'a Selection<'a>], depth: usize) -> Vec<(String, String, Vec<&'a Selection<'a>>)> {
    let mut out = vec![];
    if depth > 64 { return out; }
    for s in sels {
        if let Selection::Field(f) = s {
            out.push((f.alias.map(|a| a.name).unwrap_or(f.name.name).to_string(), f.name.name.to_string(),
                      f.selection_set.as_ref().map_or(vec![], |ss| ss.selections.iter().collect())));
        }
    }
    for s in sels {
        match s {
            Selection::Field(_) => {}
            Selection::FragmentSpread(sp) => if let Some(fd) = frag(fs, sp.fragment_name.name) {
                if sv.applies(o, fd.type_condition.name) { out.extend(scope_fields(sv, fs, o, &fd.selection_set.selections.iter().collect::<Vec<_>>(), depth + 1)); }
            },
            Selection::InlineFragment(i) => {
                if i.type_condition.map_or(true, |c| sv.applies(o, c.name)) { out.extend(scope_fields(sv, fs, o, &i.selection_set.selections.iter().collect::<Vec<_>>(), depth + 1)); }
            }
        }
    }
    out
}
fn merge_safe<'a>(sv: &SV, fs: &Frags<'a>, t: &str, sels: &[&'a Selection<'a>], depth: usize) -> bool {
    merge_safe_segs(sv, fs, t, &[sels.to_vec()], depth)
}
/// the scope is a list of segments (the sub-selections of same-key fields, in the order their trees are merged)
fn merge_safe_segs<'a>(sv: &SV, fs: &Frags<'a>, t: &str, segs: &[Vec<&'a Selection<'a>>], depth: usize) -> bool {
    if depth > 64 { return false; }
    sv.possible(t).iter().all(|o| {
        let es: Vec<_> = segs.iter().flat_map(|sg| scope_fields(sv, fs, o, sg, 0)).collect();
        let mut keys: Vec<&str> = vec![];
        for e in &es { if !keys.contains(&e.0.as_str()) { keys.push(&e.0); } }
        keys.iter().all(|k| {
            let group: Vec<_> = es.iter().filter(|e| e.0 == *k).collect();
            let g: Vec<_> = group.iter().filter(|e| !e.2.is_empty()).collect();
            if g.is_empty() { return true; }
            if !g[1..].iter().all(|e| !has_local_vars(fs, &e.2, 0)) { return false; }
            match sv.field_named_type(o, &group[0].1) {
                Some(named) => { let sub: Vec<Vec<&Selection>> = g.iter().map(|e| e.2.clone()).collect(); merge_safe_segs(sv, fs, &named, &sub, depth + 1) }
                None => true,
            }
        })
    })
}
fn alias_free<'a>(fs: &Frags<'a>, sels: &[&'a Selection<'a>], depth: usize) -> bool {
    if depth > 64 { return false; }
    sels.iter().all(|s| match s {
        Selection::Field(f) => !(f.alias.is_some() && f.name.name == "__typename")
            && f.selection_set.as_ref().map_or(true, |ss| alias_free(fs, &ss.selections.iter().collect::<Vec<_>>(), depth + 1)),
        Selection::FragmentSpread(sp) => frag(fs, sp.fragment_name.name).map_or(true, |fd| alias_free(fs, &fd.selection_set.selections.iter().collect::<Vec<_>>(), depth + 1)),
        Selection::InlineFragment(i) => alias_free(fs, &i.selection_set.selections.iter().collect::<Vec<_>>(), depth + 1),
    })
}
/// the guard of the partial equivalence theorems (C01/PlainCore.v plain_list), evaluated here only for the
/// coverage statistic "how many generated definitions do the theorems speak about"
fn plain_list(sels: &[Selection]) -> bool {
    let mut keys: Vec<&str> = vec![];
    for s in sels {
        match s {
            Selection::Field(f) => {
                let k = f.alias.map(|a| a.name).unwrap_or(f.name.name);
                if keys.contains(&k) { return false; }
                keys.push(k);
                if let Some(a) = f.alias { if a.name == "__typename" || f.name.name == "__typename" { return false; } }
                if let Some(ss) = &f.selection_set { if !plain_list(&ss.selections) { return false; } }
            }
            _ => return false,
        }
    }
    true
}
/// C01/Guards.v spread_names / flatS / merge_free, evaluated on the AST (agree compares with the Coq guard)
fn spread_names<'a>(fs: &Frags<'a>, sels: &[&'a Selection<'a>], depth: usize) -> Option<Vec<&'a str>> {
    if depth > 64 { return None; }
    let mut out = vec![];
    for s in sels {
        match s {
            Selection::Field(_) => {}
            Selection::FragmentSpread(sp) => {
                let fd = frag(fs, sp.fragment_name.name)?;
                out.push(sp.fragment_name.name);
                out.extend(spread_names(fs, &fd.selection_set.selections.iter().collect::<Vec<_>>(), depth + 1)?);
            }
            Selection::InlineFragment(i) => out.extend(spread_names(fs, &i.selection_set.selections.iter().collect::<Vec<_>>(), depth + 1)?),
        }
    }
    Some(out)
}
fn flat_scope<'a>(sv: &SV, fs: &Frags<'a>, o: &str, sels: &[&'a Selection<'a>], depth: usize) -> Option<Vec<&'a nitrogql_ast::selection_set::Field<'a>>> {
    if depth > 64 { return None; }
    let mut out = vec![];
    for s in sels {
        match s {
            Selection::Field(f) => out.push(f),
            Selection::FragmentSpread(sp) => {
                let fd = frag(fs, sp.fragment_name.name)?;
                if sv.applies(o, fd.type_condition.name) { out.extend(flat_scope(sv, fs, o, &fd.selection_set.selections.iter().collect::<Vec<_>>(), depth + 1)?); }
            }
            Selection::InlineFragment(i) => {
                if i.type_condition.map_or(true, |c| sv.applies(o, c.name)) { out.extend(flat_scope(sv, fs, o, &i.selection_set.selections.iter().collect::<Vec<_>>(), depth + 1)?); }
            }
        }
    }
    Some(out)
}
fn nodup(xs: &[&str]) -> bool { xs.iter().enumerate().all(|(i, x)| !xs[i + 1..].contains(x)) }
fn merge_free<'a>(sv: &SV, fs: &Frags<'a>, t: &str, sels: &[&'a Selection<'a>], depth: usize) -> bool { merge_free_g(sv, fs, t, sels, depth, false) }
/// ld = true: C01/Guards.v merge_free_ld (keys_ok: a repeated key only among leaf selections of one field, one aliasing)
fn merge_free_g<'a>(sv: &SV, fs: &Frags<'a>, t: &str, sels: &[&'a Selection<'a>], depth: usize, ld: bool) -> bool {
    if depth > 64 { return false; }
    match spread_names(fs, sels, 0) { Some(ns) if nodup(&ns) => {} _ => return false }
    sv.possible(t).iter().all(|o| {
        let Some(l) = flat_scope(sv, fs, o, sels, 0) else { return false };
        let keys: Vec<&str> = l.iter().map(|f| f.alias.map(|a| a.name).unwrap_or(f.name.name)).collect();
        let keys_ok = if !ld { nodup(&keys) } else {
            l.iter().enumerate().all(|(i, f)| {
                let same: Vec<_> = l.iter().enumerate().filter(|(j, _)| keys[*j] == keys[i]).map(|(_, g)| g).collect();
                same.len() == 1 || same.iter().all(|g| g.selection_set.is_none() && g.name.name == f.name.name && g.alias.is_some() == f.alias.is_some())
            })
        };
        keys_ok && l.iter().all(|f| {
            let alias_ok = f.alias.map_or(true, |a| a.name != "__typename" && f.name.name != "__typename");
            alias_ok && match &f.selection_set {
                Some(ss) => match sv.field_named_type(o, f.name.name) {
                    Some(named) => merge_free_g(sv, fs, &named, &ss.selections.iter().collect::<Vec<_>>(), depth + 1, ld),
                    None => true,
                },
                None => true,
            }
        })
    })
}
/// statistic only: like merge_free but repeated LEAF keys are allowed (object keys still distinct), aliased __typename allowed or not
fn merge_free_relaxed<'a>(sv: &SV, fs: &Frags<'a>, t: &str, sels: &[&'a Selection<'a>], depth: usize, allow_alias_tn: bool) -> bool {
    if depth > 64 { return false; }
    match spread_names(fs, sels, 0) { Some(ns) if nodup(&ns) => {} _ => return false }
    sv.possible(t).iter().all(|o| {
        let Some(l) = flat_scope(sv, fs, o, sels, 0) else { return false };
        let obj_keys: Vec<&str> = l.iter().filter(|f| f.selection_set.is_some()).map(|f| f.alias.map(|a| a.name).unwrap_or(f.name.name)).collect();
        let leaf_keys: Vec<&str> = l.iter().filter(|f| f.selection_set.is_none()).map(|f| f.alias.map(|a| a.name).unwrap_or(f.name.name)).collect();
        nodup(&obj_keys) && obj_keys.iter().all(|k| !leaf_keys.contains(k)) && l.iter().all(|f| {
            let alias_ok = allow_alias_tn || f.alias.map_or(true, |a| a.name != "__typename" && f.name.name != "__typename");
            alias_ok && match &f.selection_set {
                Some(ss) => match sv.field_named_type(o, f.name.name) {
                    Some(named) => merge_free_relaxed(sv, fs, &named, &ss.selections.iter().collect::<Vec<_>>(), depth + 1, allow_alias_tn),
                    None => true,
                },
                None => true,
            }
        })
    })
}
fn root_name(doc: &TypeSystemDocument, op: OperationType) -> String {
    let mut found: Option<String> = None;
    for d in &doc.definitions {
        if let TypeSystemDefinition::SchemaDefinition(sd) = d { for (t, i) in &sd.definitions { if *t == op { found = Some(i.name.to_string()); } } }
    }
    found.unwrap_or_else(|| match op { OperationType::Query => "Query", OperationType::Mutation => "Mutation", OperationType::Subscription => "Subscription" }.to_string())
}

// ---------------------------------------------------------------- document statistics

fn sel_stats(sels: &[Selection], st: &mut BTreeMap<&'static str, usize>, keys_seen: &mut Vec<String>) {
    let mut local: Vec<String> = vec![];
    for s in sels {
        match s {
            Selection::Field(f) => {
                let k = f.alias.map(|a| a.name).unwrap_or(f.name.name).to_string();
                if local.contains(&k) { *st.entry("repeated_response_keys").or_insert(0) += 1; if f.selection_set.is_some() { *st.entry("repeated_keys_with_subselection").or_insert(0) += 1; } }
                local.push(k);
                if f.name.name == "__typename" { *st.entry("typename_fields").or_insert(0) += 1; }
                if f.alias.is_some() { *st.entry("aliases").or_insert(0) += 1; }
                if dir_has_var(&f.directives) { *st.entry("variable_conditions").or_insert(0) += 1; }
                if f.directives.iter().any(|d| d.name.name == "skip" || d.name.name == "include") { *st.entry("skip_include_on_field").or_insert(0) += 1; }
                if let Some(ss) = &f.selection_set { sel_stats(&ss.selections, st, keys_seen); }
            }
            Selection::FragmentSpread(sp) => {
                *st.entry("fragment_spreads").or_insert(0) += 1;
                if dir_has_var(&sp.directives) { *st.entry("variable_conditions").or_insert(0) += 1; }
                if sp.directives.iter().any(|d| d.name.name == "skip" || d.name.name == "include") { *st.entry("skip_include_on_spread").or_insert(0) += 1; }
            }
            Selection::InlineFragment(i) => {
                *st.entry("inline_fragments").or_insert(0) += 1;
                if dir_has_var(&i.directives) { *st.entry("variable_conditions").or_insert(0) += 1; }
                if i.directives.iter().any(|d| d.name.name == "skip" || d.name.name == "include") { *st.entry("skip_include_on_inline").or_insert(0) += 1; }
                sel_stats(&i.selection_set.selections, st, keys_seen);
            }
        }
    }
}

// ---------------------------------------------------------------- running one document

struct Out {
    schemas: Vec<String>,
    schema_texts: Vec<Option<String>>,   // the schema declaration the implementation prints for schemas[i]
    docs: Vec<String>,
    terms: Vec<(usize, usize, String)>, // (schema index, doc index, term with {S} {D})
    descr: Vec<J>,
    distinct: HashSet<String>,
    stats: BTreeMap<&'static str, usize>,
    direct: Vec<J>,
    samples: Vec<J>,
    c02: bool,
    budget: u64,
    over_budget: Vec<(u64, usize, usize)>, // (estimate, boolean variables, bytes of the emitted type)
}

fn run_doc(out: &mut Out, si: usize, sdl: &str, tsdoc: &TypeSystemDocument, schema: &Schema<Cow<str>, Pos>, text: &str, stream: &str) {
    let doc: OperationDocument = match load_operation(text) { Ok(d) => d, Err(_) => { *out.stats.entry("documents_not_loaded").or_insert(0) += 1; return; } };
    let errs = check_operation(schema, &doc);
    if stream == "spec-invalid" || stream == "redefined-directives" {
        // Field Selection Merging violations: check accepts them (rule not implemented; C03/C08's subject),
        // generate panics in deep_merge.rs.  Outside C01/C02's quantifier: only the outcome is tied.
        out.docs.push(ast_coq::opdoc(&doc));
        let di = out.docs.len() - 1;
        let options = OperationTypePrinterOptions::default();
        let fragment_definitions: HashMap<&str, &FragmentDefinition> = doc.definitions.iter().filter_map(|d| match d {
            ExecutableDefinition::FragmentDefinition(f) => Some((f.name.name, f)), _ => None }).collect();
        let ctx = QueryTypePrinterContext { options: &options, schema, fragment_definitions: &fragment_definitions };
        for (idx, d) in doc.definitions.iter().enumerate() {
            let (parent, sels) = match d {
                ExecutableDefinition::OperationDefinition(o) => (root_name(tsdoc, o.operation_type), &o.selection_set),
                ExecutableDefinition::FragmentDefinition(f) => (f.type_condition.name.to_string(), &f.selection_set),
            };
            let parent_ty: Type<Cow<str>, Pos> = Type::NonNull(Box::new(graphql_type_system::NonNullType::from(Type::Named(
                graphql_type_system::NamedType::from(graphql_type_system::Node::from(parent.as_str(), Pos::builtin()))))));
            let r = catch(AssertUnwindSafe(|| get_type_for_selection_set(&ctx, sels, &parent_ty)));
            let (term, outcome) = match &r { Ok(t) => (format!("(Some (Ok {}))", stree(t)), "ok".to_string()), Err(m) => (perr(m), format!("panic: {}", m.lines().next().unwrap_or(""))) };
            out.terms.push((si, di, format!("CInvalid {{S}} {{D}} {} {}", idx, term)));
            out.descr.push(json!({"kind": if stream == "spec-invalid" { "definition of a spec-invalid document (outside the quantifier; outcome tie only)" } else { "definition over a schema that redefines @skip/@include (outside the quantifier; outcome tie only)" }, "stream": stream, "definition": idx,
                                  "schema": sdl, "doc": text, "check_errors": errs.len(), "outcome": outcome, "classes": []}));
            *out.stats.entry(if stream == "spec-invalid" { "spec_invalid_definitions(outcome tie only)" } else { "redefined_skip_include_definitions(outcome tie only)" }).or_insert(0) += 1;
        }
        out.distinct.insert(format!("{}\u{0}{}", sdl, text));
        return;
    }
    if !errs.is_empty() && (stream == "valid" || stream == "systematic") { *out.stats.entry("documents_rejected_by_check").or_insert(0) += 1; return; }
    let checked = errs.is_empty();
    out.docs.push(ast_coq::opdoc(&doc));
    let di = out.docs.len() - 1;
    let (terms_mark, descr_mark) = (out.terms.len(), out.descr.len());
    *out.stats.entry("documents").or_insert(0) += 1;
    let mut st = BTreeMap::new();
    for d in &doc.definitions {
        match d {
            ExecutableDefinition::OperationDefinition(o) => sel_stats(&o.selection_set.selections, &mut st, &mut vec![]),
            ExecutableDefinition::FragmentDefinition(f) => sel_stats(&f.selection_set.selections, &mut st, &mut vec![]),
        }
    }
    for (k, v) in &st { *out.stats.entry(k).or_insert(0) += v; }
    if st.get("repeated_keys_with_subselection").copied().unwrap_or(0) > 0 { *out.stats.entry("documents_with_object_merge").or_insert(0) += 1; }
    if st.get("variable_conditions").copied().unwrap_or(0) > 0 { *out.stats.entry("documents_with_variable_condition").or_insert(0) += 1; }

    // size pre-check: branches multiply (objects x 2^variables per nesting level); a few generated documents make the
    // generator build trees with millions of branches (gigabytes of emitted type). Count the branches of every definition's
    // tree first and leave such documents out before anything is printed.
    let options = OperationTypePrinterOptions::default();
    {
        // syntactic estimate first: do not even run the real code on documents that would build millions of branches
        let frs: Frags = doc.definitions.iter().filter_map(|d| match d { ExecutableDefinition::FragmentDefinition(f) => Some(f), _ => None }).collect();
        let svx = SV { doc: tsdoc };
        let mut est = 0u64;
        for d in &doc.definitions {
            let (parent, sels) = match d {
                ExecutableDefinition::OperationDefinition(o) => (root_name(tsdoc, o.operation_type), &o.selection_set),
                ExecutableDefinition::FragmentDefinition(f) => (f.type_condition.name.to_string(), &f.selection_set),
            };
            est = est.max(est_branches(&svx, &frs, &parent, &sels.selections.iter().collect::<Vec<_>>(), 0));
        }
        if est > 300_000 {
            out.docs.pop();
            *out.stats.entry("documents_left_out_estimated_over_300000_branches_built").or_insert(0) += 1;
            *out.stats.entry("documents").or_insert(1) -= 1;
            return;
        }
    }
    {
        const BRANCH_CAP: usize = 20_000;
        let fragment_definitions: HashMap<&str, &FragmentDefinition> = doc.definitions.iter().filter_map(|d| match d {
            ExecutableDefinition::FragmentDefinition(f) => Some((f.name.name, f)), _ => None }).collect();
        let ctx = QueryTypePrinterContext { options: &options, schema, fragment_definitions: &fragment_definitions };
        let mut worst = 0usize;
        for d in &doc.definitions {
            let (parent, sels) = match d {
                ExecutableDefinition::OperationDefinition(o) => (root_name(tsdoc, o.operation_type), &o.selection_set),
                ExecutableDefinition::FragmentDefinition(f) => (f.type_condition.name.to_string(), &f.selection_set),
            };
            let parent_ty: Type<Cow<str>, Pos> = Type::NonNull(Box::new(graphql_type_system::NonNullType::from(Type::Named(
                graphql_type_system::NamedType::from(graphql_type_system::Node::from(parent.as_str(), Pos::builtin()))))));
            if let Ok(tree) = catch(AssertUnwindSafe(|| get_type_for_selection_set(&ctx, sels, &parent_ty))) {
                let (mut nb, mut md) = (0, 0); tree_stats(&tree, &mut nb, &mut md, 1); worst = worst.max(nb);
            }
        }
        let e = out.stats.entry("largest_tree_branches_of_a_definition").or_insert(0); *e = (*e).max(worst);
        if worst > BRANCH_CAP {
            out.docs.pop();
            *out.stats.entry("documents_left_out_tree_over_20000_branches").or_insert(0) += 1;
            *out.stats.entry("documents").or_insert(1) -= 1;
            return;
        }
    }
    // (iii) the whole module, through the recording writer
    let printed = catch(AssertUnwindSafe(|| { let mut w = Rec::new(); print_types_for_operation_document(options.clone(), schema, &doc, &mut w); w }));
    let (ops_term, text_out) = match &printed {
        Ok(w) => (format!("(Some (Ok {}))", wops_coq(&w.coalesced())), Some(w.text())),
        Err(m) => (perr(m), None),
    };
    if let Err(m) = &printed {
        if checked { out.direct.push(json!({"what": format!("print_types_for_operation_document panics on a document check accepts: {m}"), "classes": ["panic:".to_string() + m], "schema": sdl, "doc": text})); }
    }
    if !out.c02 {
        // the whole-module tie belongs to C01; the C02 run keeps the per-definition ties only
        out.terms.push((si, di, format!("CDoc {{S}} {{D}} {}", ops_term)));
        out.descr.push(json!({"kind": "document", "stream": stream, "schema": sdl, "doc": text, "emitted": text_out, "classes": []}));
    }

    // (i)+(ii) per definition: SelectionTree and TSType through the hooks
    let fragment_definitions: HashMap<&str, &FragmentDefinition> = doc.definitions.iter().filter_map(|d| match d {
        ExecutableDefinition::FragmentDefinition(f) => Some((f.name.name, f)), _ => None }).collect();
    let frags: Frags = doc.definitions.iter().filter_map(|d| match d { ExecutableDefinition::FragmentDefinition(f) => Some(f), _ => None }).collect();
    let sv = SV { doc: tsdoc };
    let ctx = QueryTypePrinterContext { options: &options, schema, fragment_definitions: &fragment_definitions };
    for (idx, d) in doc.definitions.iter().enumerate() {
        let (parent, sels, name, what) = match d {
            ExecutableDefinition::OperationDefinition(o) => (root_name(tsdoc, o.operation_type), &o.selection_set, o.name.map(|n| n.name.to_string()), "operation"),
            ExecutableDefinition::FragmentDefinition(f) => (f.type_condition.name.to_string(), &f.selection_set, Some(f.name.name.to_string()), "fragment"),
        };
        let parent_ty: Type<Cow<str>, Pos> = Type::NonNull(Box::new(graphql_type_system::NonNullType::from(Type::Named(
            graphql_type_system::NamedType::from(graphql_type_system::Node::from(parent.as_str(), Pos::builtin()))))));
        let r = catch(AssertUnwindSafe(|| {
            let tree = get_type_for_selection_set(&ctx, sels, &parent_ty);
            let ts = generate_selection_tree_type(&GenerateSelectionTreeTypeContext { schema_root_namespace: &options.schema_root_namespace }, &tree);
            (tree, ts)
        }));
        let selrefs: Vec<&Selection> = sels.selections.iter().collect();
        let safe = merge_safe(&sv, &frags, &parent, &selrefs, 0);
        let af = alias_free(&frags, &selrefs, 0);
        let mut classes: Vec<&str> = vec![];
        if !safe { classes.push("merge_selection_trees/find-first"); *out.stats.entry("definitions_not_merge_safe").or_insert(0) += 1; }
        if !af { classes.push("aliased-__typename-typed-String-or-null"); *out.stats.entry("definitions_with_aliased_typename").or_insert(0) += 1; }
        let (tree_term, ts_term, printed_ty) = match &r {
            Ok((tree, ts)) => {
                let (mut nb, mut md) = (0, 0);
                tree_stats(tree, &mut nb, &mut md, 1);
                *out.stats.entry("branches").or_insert(0) += nb;
                let e = out.stats.entry("max_tree_depth").or_insert(0); *e = (*e).max(md);
                let mut w = Rec::new(); ts.print_type(&mut w);
                (format!("(Some (Ok {}))", stree(tree)), format!("(Some {})", tstype(ts)), Some(w.text()))
            }
            Err(m) => {
                if checked { out.direct.push(json!({"what": format!("get_type_for_selection_set panics on a definition of a document check accepts: {m}"), "classes": ["panic:".to_string() + m], "schema": sdl, "doc": text, "definition": idx})); }
                (perr(m), "None".to_string(), None)
            }
        };
        let mut rv = BTreeSet::new(); reach_vars(&frags, &selrefs, &mut vec![], &mut rv);
        let nvars = rv.len();
        let tbytes = printed_ty.as_ref().map_or(0, |t| t.len());
        let cost_est: u64 = (1u64 << nvars.min(30)) * (tbytes as u64 + 200);
        *out.stats.entry("definitions").or_insert(0) += 1;
        let plain = plain_list(&sels.selections);
        let frag_names: Vec<&str> = frags.iter().map(|f| f.name.name).collect();
        let mfree = nodup(&frag_names) && merge_free(&sv, &frags, &parent, &selrefs, 0);
        if plain { *out.stats.entry("definitions_plain(theorem C01_emit_eq_ref_local_partial applies)").or_insert(0) += 1; }
        let mfree_ld = nodup(&frag_names) && merge_free_g(&sv, &frags, &parent, &selrefs, 0, true);
        if mfree_ld { *out.stats.entry("definitions_merge_free_ld(theorem C01_emit_eq_ref_local_merge_free_ld applies)").or_insert(0) += 1; }
        if nodup(&frag_names) && merge_free_relaxed(&sv, &frags, &parent, &selrefs, 0, true) { *out.stats.entry("forecast_not_proved:merge_free_if_repeated_leaf_keys_and_aliased_typename_were_allowed").or_insert(0) += 1; }
        if mfree { *out.stats.entry("definitions_merge_free(theorem C01_emit_eq_ref_local_merge_free applies)").or_insert(0) += 1; }
        // cost cap: the spec-side predicates cost about 2^(boolean variables) x (size of the emitted type) per candidate
        // value; definitions over the budget keep their correspondence case (CTie) but the property is not evaluated
        let over = cost_est > out.budget;
        if over { out.over_budget.push((cost_est, nvars, tbytes)); *out.stats.entry("definitions_over_cost_budget(property not evaluated; correspondence kept unless the document is left out for size)").or_insert(0) += 1; }
        else if cost_est > out.budget / 10 { *out.stats.entry("definitions_within_a_factor_10_of_the_cost_budget(evaluated)").or_insert(0) += 1; }
        out.terms.push((si, di, format!("{} {{S}} {{D}} {} {} {} {} {} {} {} {}{}", if over { "CTie" } else { "CDef" }, idx, tree_term, ts_term, coq_bool(safe), coq_bool(af), coq_bool(plain), coq_bool(mfree), coq_bool(mfree_ld), if over { "" } else { " {E}" })));
        let what: &str = if over { "definition over the cost budget (correspondence only)" } else { what };
        let dj = json!({"kind": what, "stream": stream, "definition": idx, "name": name, "schema": sdl, "doc": text, "emitted_type": printed_ty,
                        "merge_safe": safe, "typename_alias_free": af, "plain": plain, "merge_free": mfree, "merge_free_ld": mfree_ld, "classes": classes,
                        "cost": {"vars": nvars, "type_bytes": tbytes, "estimate": cost_est}});
        if out.samples.len() < 3 && idx == 0 && out.descr.len() % 7 == 1 { out.samples.push(json!({"doc": text, "emitted_type": dj["emitted_type"]})); }
        out.descr.push(dj);
        if out.c02 && !af && !over {
            // twin case: C02 with the aliased-__typename deviation read into Ref_local; its classes do not
            // contain that class, so any other looseness of the same type is still reported
            let classes2: Vec<&str> = classes.iter().copied().filter(|c| *c != "aliased-__typename-typed-String-or-null").collect();
            out.terms.push((si, di, format!("CRelaxed {{S}} {{D}} {} {} {{E}}", idx, ts_term)));
            out.descr.push(json!({"kind": format!("{what} (C02 modulo aliased __typename)"), "stream": stream, "definition": idx, "name": name, "schema": sdl, "doc": text,
                                  "emitted_type": printed_ty, "merge_safe": safe, "typename_alias_free": af, "classes": classes2}));
            *out.stats.entry("relaxed_twin_cases").or_insert(0) += 1;
        }
    }
    // a few generated documents make the generator emit types of many megabytes (branches multiply with
    // variables and nesting); coqc cannot parse such terms, so these documents are counted and left out
    const CAP: usize = 400_000;        // one case term
    const DOC_CAP: usize = 600_000;    // all case terms of one document (coqc parses about 100 KB per second)
    let biggest = out.terms[terms_mark..].iter().map(|t| t.2.len()).max().unwrap_or(0);
    let total: usize = out.terms[terms_mark..].iter().map(|t| t.2.len()).sum();
    let e = out.stats.entry("largest_case_term_bytes").or_insert(0); *e = (*e).max(biggest);
    if biggest > CAP || total > DOC_CAP {
        out.terms.truncate(terms_mark);
        out.descr.truncate(descr_mark);
        *out.stats.entry("documents_left_out_case_terms_over_400KB_each_or_600KB_together").or_insert(0) += 1;
        let e = out.stats.entry("largest_left_out_document_case_terms_bytes").or_insert(0); *e = (*e).max(total);
    } else if out.terms.len() > terms_mark {
        // measured: distinct (schema, document) pairs that contributed at least one evaluated case
        out.distinct.insert(format!("{}\u{0}{}", sdl, text));
    }
}

/// The schema declaration file as the implementation prints it (SchemaTypePrinter, default options plus the scalar
/// configuration): C01/C02 read the operation types together with THIS text's `__OperationOutput` namespace.
fn schema_declaration(tsdoc: &TypeSystemDocument, scalars: &[(String, ScalarTypeConfig)]) -> Option<String> {
    let mut opts = SchemaTypePrinterOptions::default();
    for (k, v) in scalars { opts.scalar_types.insert(k.clone(), v.clone()); }
    catch(AssertUnwindSafe(|| { let mut w = Rec::new(); SchemaTypePrinter::new(opts, &mut w).print_document(tsdoc).ok().map(|_| w.text()) })).ok().flatten()
}
/// Every custom scalar X is meant to have the operation-output type `Scalar_X` (C01/Spec.v atom_of). Three ways to say so:
/// a scalarTypes entry; a scalarTypes entry AND a (different) @nitrogql_ts_type directive (the entry takes precedence);
/// only a directive. Returns the SDL with the directives added and the configuration.
fn configure_scalars(rng: &mut Rng, s: &verif_harness::gen::Schema, sdl: &str, stats: &mut BTreeMap<&'static str, usize>) -> (String, Vec<(String, ScalarTypeConfig)>) {
    let mut sdl = sdl.to_string();
    let mut cfg = vec![];
    let mut any_dir = false;
    for t in &s.types {
        if !matches!(t.kind, Kind::Scalar) { continue; }
        let want = format!("Scalar_{}", t.name);
        let dir = |out: &str| format!(" @nitrogql_ts_type(resolverInput: \"string\", resolverOutput: \"string\", operationInput: \"string\", operationOutput: \"{out}\")");
        let line = format!("scalar {}\n", t.name);
        match rng.below(3) {
            0 => { cfg.push((t.name.clone(), ScalarTypeConfig::Single(want))); *stats.entry("scalars_configured_by_entry").or_insert(0) += 1; }
            1 => {
                cfg.push((t.name.clone(), ScalarTypeConfig::Separate(SeparateScalarTypeConfig { resolver_input: "number".into(), resolver_output: "number".into(), operation_input: "number".into(), operation_output: want })));
                sdl = sdl.replacen(&line, &format!("scalar {}{}\n", t.name, dir("string")), 1); any_dir = true;
                *stats.entry("scalars_configured_by_entry_and_different_directive").or_insert(0) += 1;
            }
            _ => { sdl = sdl.replacen(&line, &format!("scalar {}{}\n", t.name, dir(&want)), 1); any_dir = true; *stats.entry("scalars_configured_by_directive_only").or_insert(0) += 1; }
        }
    }
    if any_dir { sdl = format!("directive @nitrogql_ts_type(resolverInput: String!, resolverOutput: String!, operationInput: String!, operationOutput: String!) on SCALAR\n{sdl}"); }
    (sdl, cfg)
}

/// hand-written corpus: the witnesses of the property texts and of the refuted lemmas, run first
fn corpus() -> Vec<(&'static str, &'static str)> {
    const S1: &str = "type Query { a: A! b: [A] u: U i: I }\ntype A implements I { x: Int y: String! id: ID! a: A }\ntype B implements I { id: ID! z: Float }\ninterface I { id: ID! }\nunion U = A | B\n";
    const S2: &str = "type Query { user: User! named: Named }\ninterface Named { name: String bestFriend: Named tags: [String] }\ntype User implements Named { name: String! bestFriend: User! tags: [String!]! }\ntype Bot implements Named { name: String bestFriend: Named tags: [String] }\n";
    vec![
        (S1, "query Q($v: Boolean!) { a { x @skip(if: $v) } a { y @skip(if: $v) } }"),
        (S1, "query Q($v: Boolean!) { a { x } a { y @skip(if: $v) } }"),
        (S1, "query Q($v: Boolean!) { a { x @skip(if: $v) } a { y } }"),
        (S1, "query Q { a { t: __typename __typename } }"),
        (S1, "query Q($v: Boolean!, $w: Boolean!) { u { __typename ... on A @include(if: $v) { x a { id } } ... on I { id } ...F @skip(if: $w) } }\nfragment F on B { z }"),
        (S1, "{ b { x y } i { id ... on A { x } } }"),
        (S1, "query Q($v: Boolean!) { a { a { x @skip(if: $v) } } a { a { y @skip(if: $v) } } }"),
        (S1, "query Q { a { x @skip(if: true) x y @include(if: false) } }"),
        (S1, "query Q($v: Boolean!, $w: Boolean!) { a { x @skip(if: $v) k: y @include(if: $w) id } b { __typename x @include(if: true) } i { id } u { __typename } }"),
        // covariant narrowing of inherited fields: the object's own (narrower) field types must be used on its branch
        (S2, "query Q { user { name bestFriend { name } } named { name bestFriend { __typename name } ... on User { n: name bf: bestFriend { name } } } }"),
        (S2, "query Q { user { ...N } named { ...N } }\nfragment N on Named { name bestFriend { name } }"),
    ]
}

fn main() {
    silence_panics();
    let args = parse_args();
    let mut rng = Rng::new(args.seed);
    let thorough = args.tier == "thorough";
    let c02 = args.extra.windows(2).any(|w| w[0] == "--mode" && w[1] == "c02");
    let mut out = Out { schemas: vec![], schema_texts: vec![], docs: vec![], terms: vec![], descr: vec![], distinct: HashSet::new(), stats: BTreeMap::new(), direct: vec![], samples: vec![], c02, budget: 2_000_000, over_budget: vec![] };

    for (sdl, text) in corpus() {
        let tsdoc = load_schema(sdl).expect("corpus schema loads");
        assert!(check_schema(&tsdoc).is_empty(), "corpus schema is valid");
        let term = ast_coq::tsdoc(&tsdoc);
        let si = match out.schemas.iter().position(|t| t == &term) { Some(i) => i, None => { out.schemas.push(term); out.schema_texts.push(schema_declaration(&tsdoc, &[])); out.schemas.len() - 1 } };
        let ts = to_type_system(&tsdoc);
        run_doc(&mut out, si, sdl, &tsdoc, &ts, text, "corpus");
    }

    // systematic small scope over the corpus schema: every ordered pair of `a`-selections drawn from
    // {outer condition} x {sub-selection with inner condition}, the second one plain / in an inline
    // fragment / in a fragment spread (thorough: all pairs; quick: a seeded sample)
    {
        let (sdl, _) = corpus()[0];
        let tsdoc = load_schema(sdl).expect("corpus schema loads");
        let term = ast_coq::tsdoc(&tsdoc);
        let si = out.schemas.iter().position(|t| t == &term).unwrap();
        let ts = to_type_system(&tsdoc);
        let conds = ["", " @skip(if: $v)", " @include(if: $w)", " @skip(if: true)"];
        let subs = ["{ x }", "{ y }", "{ x @skip(if: $v) }", "{ y @skip(if: $v) }", "{ x @include(if: $w) y }", "{ id a { x @skip(if: $w) } }", "{ k: x @skip(if: $v) }", "{ __typename ... on A @include(if: $v) { y } }"];
        let mut atoms: Vec<String> = vec![];
        for c in conds { for sb in subs { atoms.push(format!("a{c} {sb}")); } }
        let mut n_sys = 0usize;
        for (i, a1) in atoms.iter().enumerate() {
            for (j, a2) in atoms.iter().enumerate() {
                for w in 0..3 {
                    if !thorough && !rng.chance(1, 40) { continue; }
                    let _ = (i, j);
                    let text = match w {
                        0 => format!("query Q($v: Boolean!, $w: Boolean!) {{ {a1} {a2} }}"),
                        1 => format!("query Q($v: Boolean!, $w: Boolean!) {{ {a1} ... on Query {{ {a2} }} }}"),
                        _ => format!("query Q($v: Boolean!, $w: Boolean!) {{ ...F {a1} }}\nfragment F on Query {{ {a2} }}"),
                    };
                    run_doc(&mut out, si, sdl, &tsdoc, &ts, &text, "systematic");
                    n_sys += 1;
                }
            }
        }
        out.stats.insert("systematic_documents", n_sys);
    }

    // spec-invalid documents that check accepts (C08_merge_unchecked_refuted's witnesses and variants)
    {
        let (sdl, _) = corpus()[0];
        let tsdoc = load_schema(sdl).expect("corpus schema loads");
        let term = ast_coq::tsdoc(&tsdoc);
        let si = out.schemas.iter().position(|t| t == &term).unwrap();
        let ts = to_type_system(&tsdoc);
        for text in ["query Q { x: i { id } x: a { id } }", "query Q { k: a { x } k: b { x } }", "query Q { a { k: x k: a { id } } }",
                     "query Q { k: __typename k: a { x } }", "query Q { a { id } ... on Query { a: b { id } } }"] {
            run_doc(&mut out, si, sdl, &tsdoc, &ts, text, "spec-invalid");
        }
    }

    // schemas that REDEFINE the built-in @skip / @include (without `if`, or with an `if` of another type): check accepts
    // `a @skip`; since fix 021e9ac the printer treats an application without a boolean `if` as "skips nothing"
    for (extra, docs) in [
        ("directive @skip on FIELD | FRAGMENT_SPREAD | INLINE_FRAGMENT\ndirective @include on FIELD | FRAGMENT_SPREAD | INLINE_FRAGMENT\n",
         vec!["query Q { a { x @skip y @include id } }", "query Q { u { ... on A @skip { x } ...F @include __typename } }\nfragment F on B { z }", "query Q { a @include { x @skip x } }"]),
        ("directive @skip(if: String) on FIELD | FRAGMENT_SPREAD | INLINE_FRAGMENT\ndirective @include(unless: Boolean) on FIELD\n",
         vec!["query Q { a { x @skip(if: \"s\") y @include(unless: true) id @skip } }", "query Q($v: Boolean!) { a { x @include(unless: $v) y } }"]),
    ] {
        let sdl = format!("{}{}", extra, corpus()[0].0);
        let tsdoc = match load_schema(&sdl) { Ok(d) => d, Err(_) => { *out.stats.entry("redefined_directive_schemas_not_loaded").or_insert(0) += 1; continue; } };
        if !check_schema(&tsdoc).is_empty() { *out.stats.entry("redefined_directive_schemas_rejected_by_check").or_insert(0) += 1; continue; }
        out.schemas.push(ast_coq::tsdoc(&tsdoc));
        out.schema_texts.push(schema_declaration(&tsdoc, &[]));
        let si = out.schemas.len() - 1;
        let ts = to_type_system(&tsdoc);
        for text in docs { run_doc(&mut out, si, &sdl, &tsdoc, &ts, text, "redefined-directives"); }
    }

    let (n_schemas, n_docs) = if thorough { (300, 10) } else { (36, 5) };
    for _ in 0..n_schemas {
        let s = gen_schema(&mut rng, &SchemaCfg { descriptions: false, custom_directives: true });
        for t in &s.types { if let Kind::Object { fields, .. } = &t.kind { for f in fields { if s.is_narrowed(&t.name, &f.name) { *out.stats.entry("schema_fields_narrowed_covariantly(object vs interface)").or_insert(0) += 1; } } } }
        let (sdl, scalar_cfg) = configure_scalars(&mut rng, &s, &s.render(), &mut out.stats);
        let tsdoc = match load_schema(&sdl) { Ok(d) => d, Err(_) => { *out.stats.entry("schemas_rejected").or_insert(0) += 1; continue; } };
        if !check_schema(&tsdoc).is_empty() { *out.stats.entry("schemas_rejected").or_insert(0) += 1; continue; }
        out.schemas.push(ast_coq::tsdoc(&tsdoc));
        let decl = schema_declaration(&tsdoc, &scalar_cfg);
        if decl.is_none() { *out.stats.entry("schemas_without_declaration(printer error)").or_insert(0) += 1; }
        out.schema_texts.push(decl);
        let si = out.schemas.len() - 1;
        let ts = to_type_system(&tsdoc);
        for k in 0..n_docs {
            // sub-languages: fragment-free & variable-free, variables only, everything
            let cfg = match k % 6 {
                0 => DocCfg { fragments: false, variables: false, custom_directives: false, ..DocCfg::default() },
                1 => DocCfg { fragments: false, ..DocCfg::default() },
                _ => DocCfg { coercions: k % 2 == 1, ..DocCfg::default() },
            };
            let d = gen_doc(&mut rng, &s, &cfg);
            run_doc(&mut out, si, &sdl, &tsdoc, &ts, &d.render(), "valid");
        }
    }

    // shards: each defines the schemas and documents its cases use
    let shard_size = if thorough { 150usize } else { 50usize };
    fs::create_dir_all(&args.out).unwrap();
    let holds = if c02 { "holds2" } else { "holds1" };
    let mut k = 0;
    for chunk in out.terms.chunks(shard_size) {
        let mut v = String::new();
        let _ = writeln!(v, "From V Require Import Base.Util Gql.Ast Writer.Wop Ts.TsType C01.Model C01.Spec C01.Corr.");
        let us: BTreeSet<usize> = chunk.iter().map(|t| t.0).collect();
        let ud: BTreeSet<usize> = chunk.iter().map(|t| t.1).collect();
        for si in &us {
            let _ = writeln!(v, "Definition sch_{} : tsdoc := {}.", si, out.schemas[*si]);
            // the implementation's schema declaration text, read ONCE per schema
            match &out.schema_texts[*si] {
                Some(t) => { let _ = writeln!(v, "Definition decls_{} := Eval vm_compute in (out_decls sch_{} {}).", si, si, coq_str(t)); }
                None => { let _ = writeln!(v, "Definition decls_{} : option (list (str * str * tstype)) := None.", si); }
            }
        }
        for di in &ud { let _ = writeln!(v, "Definition doc_{} : opdoc := {}.", di, out.docs[*di]); }
        let _ = writeln!(v, "Definition cases : list case := [");
        for (i, (si, di, t)) in chunk.iter().enumerate() {
            let _ = writeln!(v, "  {}{}", t.replace("{S}", &format!("sch_{}", si)).replace("{D}", &format!("doc_{}", di)).replace("{E}", &format!("decls_{}", si)), if i + 1 < chunk.len() { ";" } else { "" });
        }
        let _ = writeln!(v, "].");
        let _ = writeln!(v, "Definition corr_fail := Eval vm_compute in (failing agree cases).");
        let _ = writeln!(v, "Definition prop_fail := Eval vm_compute in (failing {} cases).", holds);
        let _ = writeln!(v, "Print corr_fail.\nPrint prop_fail.");
        fs::write(args.out.join(format!("cases_{}.v", k)), v).unwrap();
        k += 1;
    }
    fs::write(args.out.join("shards.json"), serde_json::to_string(&json!({"shards": k, "shard_size": shard_size, "n": out.terms.len()})).unwrap()).unwrap();
    fs::write(args.out.join("cases.json"), serde_json::to_string(&out.descr).unwrap()).unwrap();
    let docs = out.stats.get("documents").copied().unwrap_or(0).max(1);
    let largest_over = { let mut v = out.over_budget.clone(); v.sort(); v.reverse(); v.truncate(8); v };
    write_meta(&args.out, &json!({
        "evaluations": out.descr.len(),
        "distinct_nontrivial": out.distinct.len(),
        "rule": "distinct (schema text, document text) pairs that nitrogql's check accepts; each contributes one whole-module case (all writer operations) and one case per operation/fragment definition (SelectionTree, TSType, both guards); every document has at least one typed selection below a root or fragment type, so every case runs branch enumeration, field collection and type generation in both the real code and the model",
        "samples": out.samples,
        "distribution": {
            "property_predicate": if c02 { "C02 (holds2)" } else { "C01 (holds1)" },
            "schemas": out.schemas.len(),
            "counts": out.stats,
            "fraction_documents_with_object_merge": out.stats.get("documents_with_object_merge").copied().unwrap_or(0) as f64 / docs as f64,
            "cost_cap": {"estimate": "2^(boolean condition variables reachable from the definition) x (bytes of the emitted type + 200)",
                         "budget": out.budget, "definitions_over_budget": out.over_budget.len(),
                         "largest_over_budget(estimate, variables, type bytes)": largest_over},
            "fraction_documents_with_variable_condition": out.stats.get("documents_with_variable_condition").copied().unwrap_or(0) as f64 / docs as f64,
        },
        "direct_failures": out.direct,
    }));
}
