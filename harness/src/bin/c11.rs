//! C11: generates abstract lists of schema definitions / extensions / directive definitions (all seven
//! kinds, every component populated), renders them to SDL split over 1-4 files, runs the real
//! parse_type_system_document -> TypeSystemOrExtensionDocument::merge -> (+ builtins, as the CLI does) ->
//! resolve_schema_extensions from /repo, and writes the case files the Coq model is evaluated on.
use nitrogql_ast::base::Pos;
use nitrogql_ast::directive::Directive;
use nitrogql_ast::set_current_file_of_pos;
use nitrogql_ast::type_system::*;
use nitrogql_ast::value::{StringValue, Value};
use nitrogql_error::PositionedError;
use nitrogql_parser::parse_type_system_document;
use nitrogql_semantics::resolve_schema_extensions;
use serde_json::json;
use std::collections::{HashMap, HashSet};
use verif_harness::*;

// nitrogql_builtins() lives in the CLI (a bin crate); the file has no `crate::` paths.
#[allow(dead_code)]
#[path = "/repo/crates/cli/src/builtins.rs"]
mod cli_builtins;

// ------------------------------------------------------------------ abstract items

const KINDS: [&str; 7] = ["KSchema", "KScalar", "KObject", "KInterface", "KUnion", "KEnum", "KInput"];
const KEYWORDS: [&str; 7] = ["schema", "scalar", "type", "interface", "union", "enum", "input"];

#[derive(Clone, Copy, PartialEq, Eq, Debug, Hash)]
enum Tag { Def, Ext, Dir }

#[derive(Clone, PartialEq, Eq, Debug)]
struct APos { line: usize, col: usize, file: usize, builtin: bool }

/// One item of a TypeSystemOrExtensionDocument / TypeSystemDocument, canonically dumped.
#[derive(Clone, PartialEq, Eq, Debug)]
struct AItem {
    tag: Tag,
    kind: usize,             // index into KINDS (0 for Dir)
    name: Option<String>,
    pos: APos,
    keep: String,            // Def: description + keyword + name token; Dir: the whole directive definition
    dirs: Vec<String>,
    impls: Vec<String>,
    members: Vec<String>,
}

fn apos(p: &Pos) -> APos { APos { line: p.line, col: p.column, file: p.file, builtin: p.builtin } }
fn pos_s(p: &APos) -> String {
    format!("{}:{}:{}{}", p.line, p.col, p.file, if p.builtin { ":b" } else { "" })
}
fn desc_s(d: &Option<String>) -> String {
    match d { None => "-".into(), Some(s) => format!("\"{}\"", s) }
}

// ------------------------------------------------------------------ canonical dump of the Rust AST

fn c_pos(p: &Pos) -> String { pos_s(&apos(p)) }
fn c_desc(d: &Option<StringValue>) -> String { desc_s(&d.as_ref().map(|s| s.value.clone())) }
fn c_value(v: &Value) -> String {
    match v {
        Value::Variable(x) => format!("${}", x.name),
        Value::IntValue(x) => format!("i{}", x.value),
        Value::FloatValue(x) => format!("f{}", x.value),
        Value::StringValue(x) => format!("s\"{}\"", x.value),
        Value::BooleanValue(x) => format!("b{}", x.value),
        Value::NullValue(_) => "null".into(),
        Value::EnumValue(x) => format!("e{}", x.value),
        Value::ListValue(x) => format!("[{}]", x.values.iter().map(c_value).collect::<Vec<_>>().join(",")),
        Value::ObjectValue(x) => format!("{{{}}}", x.fields.iter()
            .map(|(k, v)| format!("{}@{}={}", k.name, c_pos(&k.position), c_value(v))).collect::<Vec<_>>().join(",")),
    }
}
fn c_directive(d: &Directive) -> String {
    let args = match &d.arguments {
        None => String::new(),
        Some(a) => format!("({})", a.arguments.iter()
            .map(|(k, v)| format!("{}={}", k.name, c_value(v))).collect::<Vec<_>>().join(",")),
    };
    format!("@{}@{}{}", d.name.name, c_pos(&d.position), args)
}
fn c_directives(ds: &[Directive]) -> String { ds.iter().map(c_directive).collect::<Vec<_>>().join(";") }
fn c_input_value(v: &InputValueDefinition) -> String {
    format!("IV({}|{}@{}|{}|{}|{})", c_desc(&v.description), v.name.name, c_pos(&v.position), v.r#type,
            v.default_value.as_ref().map_or("-".to_string(), c_value), c_directives(&v.directives))
}
fn c_args_def(a: &Option<ArgumentsDefinition>) -> String {
    match a { None => "-".into(), Some(a) => format!("A({})", a.input_values.iter().map(c_input_value).collect::<Vec<_>>().join(",")) }
}
fn c_field(f: &FieldDefinition) -> String {
    format!("F({}|{}@{}|{}|{}|{})", c_desc(&f.description), f.name.name, c_pos(&f.name.position),
            c_args_def(&f.arguments), f.r#type, c_directives(&f.directives))
}
fn c_enum_value(v: &EnumValueDefinition) -> String {
    format!("EV({}|{}@{}|{})", c_desc(&v.description), v.name.name, c_pos(&v.name.position), c_directives(&v.directives))
}
fn c_ident(i: &nitrogql_ast::base::Ident) -> String { format!("{}@{}", i.name, c_pos(&i.position)) }
fn c_rootop(x: &(nitrogql_ast::operation::OperationType, nitrogql_ast::base::Ident)) -> String {
    format!("{}:{}", x.0.as_str(), c_ident(&x.1))
}
fn c_keep(desc: &Option<StringValue>, kw: &nitrogql_ast::base::Keyword, name: &nitrogql_ast::base::Ident) -> String {
    format!("{}|{}@{}|{}", c_desc(desc), kw.name, c_pos(&kw.position), c_ident(name))
}
fn c_dirdef(d: &DirectiveDefinition) -> String {
    format!("DD({}|{}@{}|{}|{}|{}|{}|{})", c_desc(&d.description), d.directive_keyword.name,
            c_pos(&d.directive_keyword.position), c_pos(&d.position), c_ident(&d.name), c_args_def(&d.arguments),
            d.repeatable.as_ref().map_or("-".to_string(), c_ident),
            d.locations.iter().map(c_ident).collect::<Vec<_>>().join(","))
}

fn mk(tag: Tag, kind: usize, name: Option<&str>, pos: &Pos, keep: String, dirs: Vec<String>, impls: Vec<String>, members: Vec<String>) -> AItem {
    AItem { tag, kind, name: name.map(|s| s.to_string()), pos: apos(pos), keep, dirs, impls, members }
}
fn dirs_v(ds: &[Directive]) -> Vec<String> { ds.iter().map(c_directive).collect() }

fn dump_schema_def(d: &SchemaDefinition) -> AItem {
    mk(Tag::Def, 0, None, &d.position, c_desc(&d.description), dirs_v(&d.directives), vec![], d.definitions.iter().map(c_rootop).collect())
}
fn dump_type_def(d: &TypeDefinition) -> AItem {
    match d {
        TypeDefinition::Scalar(d) => mk(Tag::Def, 1, Some(d.name.name), &d.position, c_keep(&d.description, &d.scalar_keyword, &d.name), dirs_v(&d.directives), vec![], vec![]),
        TypeDefinition::Object(d) => mk(Tag::Def, 2, Some(d.name.name), &d.position, c_keep(&d.description, &d.type_keyword, &d.name), dirs_v(&d.directives),
            d.implements.iter().map(c_ident).collect(), d.fields.iter().map(c_field).collect()),
        TypeDefinition::Interface(d) => mk(Tag::Def, 3, Some(d.name.name), &d.position, c_keep(&d.description, &d.interface_keyword, &d.name), dirs_v(&d.directives),
            d.implements.iter().map(c_ident).collect(), d.fields.iter().map(c_field).collect()),
        TypeDefinition::Union(d) => mk(Tag::Def, 4, Some(d.name.name), &d.position, c_keep(&d.description, &d.union_keyword, &d.name), dirs_v(&d.directives),
            vec![], d.members.iter().map(c_ident).collect()),
        TypeDefinition::Enum(d) => mk(Tag::Def, 5, Some(d.name.name), &d.position, c_keep(&d.description, &d.enum_keyword, &d.name), dirs_v(&d.directives),
            vec![], d.values.iter().map(c_enum_value).collect()),
        TypeDefinition::InputObject(d) => mk(Tag::Def, 6, Some(d.name.name), &d.position, c_keep(&d.description, &d.input_keyword, &d.name), dirs_v(&d.directives),
            vec![], d.fields.iter().map(c_input_value).collect()),
    }
}
fn dump_dirdef(d: &DirectiveDefinition) -> AItem {
    mk(Tag::Dir, 0, Some(d.name.name), &d.position, c_dirdef(d), vec![], vec![], vec![])
}
fn dump_type_ext(e: &TypeExtension) -> AItem {
    match e {
        TypeExtension::Scalar(e) => mk(Tag::Ext, 1, Some(e.name.name), &e.position, String::new(), dirs_v(&e.directives), vec![], vec![]),
        TypeExtension::Object(e) => mk(Tag::Ext, 2, Some(e.name.name), &e.position, String::new(), dirs_v(&e.directives),
            e.implements.iter().map(c_ident).collect(), e.fields.iter().map(c_field).collect()),
        TypeExtension::Interface(e) => mk(Tag::Ext, 3, Some(e.name.name), &e.position, String::new(), dirs_v(&e.directives),
            e.implements.iter().map(c_ident).collect(), e.fields.iter().map(c_field).collect()),
        TypeExtension::Union(e) => mk(Tag::Ext, 4, Some(e.name.name), &e.position, String::new(), dirs_v(&e.directives),
            vec![], e.members.iter().map(c_ident).collect()),
        TypeExtension::Enum(e) => mk(Tag::Ext, 5, Some(e.name.name), &e.position, String::new(), dirs_v(&e.directives),
            vec![], e.values.iter().map(c_enum_value).collect()),
        TypeExtension::InputObject(e) => mk(Tag::Ext, 6, Some(e.name.name), &e.position, String::new(), dirs_v(&e.directives),
            vec![], e.fields.iter().map(c_input_value).collect()),
    }
}
fn dump_in(x: &TypeSystemDefinitionOrExtension) -> AItem {
    match x {
        TypeSystemDefinitionOrExtension::SchemaDefinition(d) => dump_schema_def(d),
        TypeSystemDefinitionOrExtension::TypeDefinition(d) => dump_type_def(d),
        TypeSystemDefinitionOrExtension::DirectiveDefinition(d) => dump_dirdef(d),
        TypeSystemDefinitionOrExtension::SchemaExtension(e) =>
            mk(Tag::Ext, 0, None, &e.position, String::new(), dirs_v(&e.directives), vec![], e.definitions.iter().map(c_rootop).collect()),
        TypeSystemDefinitionOrExtension::TypeExtension(e) => dump_type_ext(e),
    }
}
fn dump_out(x: &TypeSystemDefinition) -> AItem {
    match x {
        TypeSystemDefinition::SchemaDefinition(d) => dump_schema_def(d),
        TypeSystemDefinition::TypeDefinition(d) => dump_type_def(d),
        TypeSystemDefinition::DirectiveDefinition(d) => dump_dirdef(d),
    }
}

// ------------------------------------------------------------------ rendering abstract items to SDL

/// Text emitter that tracks the position (0-based line, 0-based column in chars) of what it writes.
struct Em { text: String, line: usize, col: usize, file: usize }
impl Em {
    fn new(file: usize) -> Self { Em { text: String::new(), line: 0, col: 0, file } }
    fn put(&mut self, s: &str) {
        for ch in s.chars() { if ch == '\n' { self.line += 1; self.col = 0; } else { self.col += 1; } }
        self.text.push_str(s);
    }
    fn here(&self) -> APos { APos { line: self.line, col: self.col, file: self.file, builtin: false } }
    /// a token, returning where it starts
    fn tok(&mut self, s: &str) -> APos { let p = self.here(); self.put(s); p }
    /// mandatory separation between two tokens
    fn ws(&mut self, rng: &mut Rng) {
        match rng.below(14) {
            0 => self.put("\n"),
            1 => self.put("\n    "),
            2 => self.put("  "),
            3 => self.put(" , "),
            4 => self.put(" # c\n  "),
            5 => self.put("\t"),
            _ => self.put(" "),
        }
    }
    /// optional separation (around punctuation)
    fn ows(&mut self, rng: &mut Rng) {
        match rng.below(10) { 0 => self.put(" "), 1 => self.put("\n  "), 2 => self.put(" #x\n"), _ => {} }
    }
}

const TYPE_NAMES: [&str; 6] = ["Int", "String", "T1", "T2", "Boolean", "ID"];
const DIR_NAMES: [&str; 4] = ["d1", "d2", "deprecated", "tag"];
const WORDS: [&str; 6] = ["alpha", "beta gamma", "x", "some text, with comma", "q1", "on type"];

fn gen_value(em: &mut Em, rng: &mut Rng, depth: usize) -> String {
    match rng.below(if depth > 1 { 6 } else { 8 }) {
        0 => { let v = format!("{}", rng.below(50) as i64 - 10); em.put(&v); format!("i{}", v) }
        1 => { let v = *rng.pick(&["1.5", "0.25e3", "-2.0", "7E-2"]); em.put(v); format!("f{}", v) }
        2 => { let w = *rng.pick(&WORDS); em.put(&format!("\"{}\"", w)); format!("s\"{}\"", w) }
        3 => { let b = rng.chance(1, 2); em.put(if b { "true" } else { "false" }); format!("b{}", b) }
        4 => { em.put("null"); "null".into() }
        5 => { let v = *rng.pick(&["RED", "GREEN", "nullable", "truex"]); em.put(v); format!("e{}", v) }
        6 => {
            em.put("["); let n = rng.below(3); let mut xs = vec![];
            for i in 0..n { if i > 0 { em.ws(rng); } xs.push(gen_value(em, rng, depth + 1)); }
            em.put("]"); format!("[{}]", xs.join(","))
        }
        _ => {
            em.put("{"); let n = rng.below(3); let mut xs = vec![];
            for i in 0..n {
                if i > 0 { em.ws(rng); }
                let k = format!("k{}", i); let p = em.tok(&k); em.put(":"); em.ows(rng);
                let v = gen_value(em, rng, depth + 1);
                xs.push(format!("{}@{}={}", k, pos_s(&p), v));
            }
            em.put("}"); format!("{{{}}}", xs.join(","))
        }
    }
}

fn gen_directive(em: &mut Em, rng: &mut Rng) -> String {
    let p = em.tok("@");
    let name = *rng.pick(&DIR_NAMES); em.put(name);
    let mut args = String::new();
    if rng.chance(1, 3) {
        em.ows(rng); em.put("(");
        let n = rng.range(1, 2); let mut xs = vec![];
        for i in 0..n {
            if i > 0 { em.ws(rng); }
            let k = *rng.pick(&["a", "reason", "if"]); em.put(k); em.ows(rng); em.put(":"); em.ows(rng);
            let v = gen_value(em, rng, 0);
            xs.push(format!("{}={}", k, v));
        }
        em.put(")");
        args = format!("({})", xs.join(","));
    }
    format!("@{}@{}{}", name, pos_s(&p), args)
}
/// n directives, each preceded by whitespace
fn gen_directives(em: &mut Em, rng: &mut Rng, n: usize) -> Vec<String> {
    (0..n).map(|_| { em.ws(rng); gen_directive(em, rng) }).collect()
}
fn gen_desc(em: &mut Em, rng: &mut Rng, p: usize) -> Option<String> {
    if !rng.chance(p, 10) { return None; }
    let w = *rng.pick(&WORDS);
    if rng.chance(1, 4) { em.put(&format!("\"\"\"{}\"\"\"", w)); } else { em.put(&format!("\"{}\"", w)); }
    em.ws(rng);
    Some(w.to_string())
}
fn gen_type(em: &mut Em, rng: &mut Rng) -> String {
    let base = *rng.pick(&TYPE_NAMES);
    let t = match rng.below(6) {
        0 => format!("{}!", base),
        1 => format!("[{}]", base),
        2 => format!("[{}!]!", base),
        3 => format!("[[{}]!]", base),
        _ => base.to_string(),
    };
    em.put(&t); t
}
fn gen_input_value(em: &mut Em, rng: &mut Rng, name: &str) -> String {
    let d = gen_desc(em, rng, 2);
    let p = em.tok(name); em.ows(rng); em.put(":"); em.ows(rng);
    let t = gen_type(em, rng);
    let dv = if rng.chance(1, 3) { em.ows(rng); em.put("="); em.ows(rng); gen_value(em, rng, 0) } else { "-".into() };
    let nd = if rng.chance(1, 3) { rng.range(1, 2) } else { 0 };
    let ds = gen_directives(em, rng, nd);
    format!("IV({}|{}@{}|{}|{}|{})", desc_s(&d), name, pos_s(&p), t, dv, ds.join(";"))
}
fn gen_field(em: &mut Em, rng: &mut Rng, name: &str) -> String {
    let d = gen_desc(em, rng, 2);
    let p = em.tok(name);
    let args = if rng.chance(1, 3) {
        em.ows(rng); em.put("(");
        let n = rng.range(1, 2); let mut xs = vec![];
        for i in 0..n { if i > 0 { em.ws(rng); } xs.push(gen_input_value(em, rng, &format!("a{}", i))); }
        em.put(")");
        format!("A({})", xs.join(","))
    } else { "-".into() };
    em.ows(rng); em.put(":"); em.ows(rng);
    let t = gen_type(em, rng);
    let nd = if rng.chance(1, 3) { rng.range(1, 2) } else { 0 };
    let ds = gen_directives(em, rng, nd);
    format!("F({}|{}@{}|{}|{}|{})", desc_s(&d), name, pos_s(&p), args, t, ds.join(";"))
}
fn gen_enum_value(em: &mut Em, rng: &mut Rng, name: &str) -> String {
    let d = gen_desc(em, rng, 2);
    let p = em.tok(name);
    let nd = if rng.chance(1, 3) { rng.range(1, 2) } else { 0 };
    let ds = gen_directives(em, rng, nd);
    format!("EV({}|{}@{}|{})", desc_s(&d), name, pos_s(&p), ds.join(";"))
}
/// `{ x x x }` with n >= 1 entries produced by f
fn gen_braced(em: &mut Em, rng: &mut Rng, n: usize, mut f: impl FnMut(&mut Em, &mut Rng, usize) -> String) -> Vec<String> {
    em.put("{"); em.ows(rng);
    let mut xs = vec![];
    for i in 0..n { if i > 0 { em.ws(rng); } xs.push(f(em, rng, i)); }
    em.ows(rng); em.put("}");
    xs
}
fn gen_implements(em: &mut Em, rng: &mut Rng, n: usize) -> Vec<String> {
    em.ws(rng); em.put("implements"); em.ws(rng);
    if rng.chance(1, 5) { em.put("&"); em.ows(rng); }
    let mut xs = vec![];
    for i in 0..n {
        if i > 0 { em.ows(rng); em.put("&"); em.ows(rng); }
        let nm = format!("I{}", rng.below(4)); let p = em.tok(&nm);
        xs.push(format!("{}@{}", nm, pos_s(&p)));
    }
    xs
}
fn gen_union_members(em: &mut Em, rng: &mut Rng, n: usize) -> Vec<String> {
    em.ows(rng); em.put("="); em.ows(rng);
    if rng.chance(1, 5) { em.put("|"); em.ows(rng); }
    let mut xs = vec![];
    for i in 0..n {
        if i > 0 { em.ows(rng); em.put("|"); em.ows(rng); }
        let nm = format!("M{}", rng.below(5)); let p = em.tok(&nm);
        xs.push(format!("{}@{}", nm, pos_s(&p)));
    }
    xs
}
fn gen_rootops(em: &mut Em, rng: &mut Rng, n: usize) -> Vec<String> {
    gen_braced(em, rng, n, |em, rng, _| {
        let op = *rng.pick(&["query", "mutation", "subscription"]); em.put(op); em.ows(rng); em.put(":"); em.ows(rng);
        let nm = format!("R{}", rng.below(4)); let p = em.tok(&nm);
        format!("{}:{}@{}", op, nm, pos_s(&p))
    })
}

#[derive(Clone, Debug)]
struct Proto { tag: Tag, kind: usize, name: Option<String> }

/// Renders one item; `sparse` asks for as few components as the grammar allows.
fn render_item(em: &mut Em, rng: &mut Rng, pr: &Proto, sparse: bool) -> AItem {
    let cnt = |rng: &mut Rng, lo: usize, hi: usize| if sparse { lo } else { rng.range(lo, hi) };
    let name = pr.name.clone();
    let nm = name.clone().unwrap_or_default();
    match pr.tag {
        Tag::Dir => {
            let start_desc = gen_desc(em, rng, 3);
            let kwp = em.tok("directive"); em.ws(rng); em.put("@");
            let np = em.tok(&nm);
            let args = if rng.chance(1, 2) {
                em.ows(rng); em.put("(");
                let n = rng.range(1, 2); let mut xs = vec![];
                for i in 0..n { if i > 0 { em.ws(rng); } xs.push(gen_input_value(em, rng, &format!("p{}", i))); }
                em.put(")"); format!("A({})", xs.join(","))
            } else { "-".into() };
            let rep = if rng.chance(1, 3) { em.ws(rng); let p = em.tok("repeatable"); format!("repeatable@{}", pos_s(&p)) } else { "-".into() };
            em.ws(rng); em.put("on"); em.ws(rng);
            if rng.chance(1, 5) { em.put("|"); em.ows(rng); }
            let n = rng.range(1, 3); let mut locs = vec![];
            for i in 0..n {
                if i > 0 { em.ows(rng); em.put("|"); em.ows(rng); }
                let l = *rng.pick(&["SCALAR", "OBJECT", "FIELD_DEFINITION", "ENUM_VALUE", "ENUM", "FIELD", "INPUT_OBJECT", "SCHEMA"]);
                let p = em.tok(l); locs.push(format!("{}@{}", l, pos_s(&p)));
            }
            let keep = format!("DD({}|directive@{}|{}|{}@{}|{}|{}|{})", desc_s(&start_desc), pos_s(&kwp), pos_s(&kwp), nm, pos_s(&np), args, rep, locs.join(","));
            AItem { tag: Tag::Dir, kind: 0, name, pos: kwp, keep, dirs: vec![], impls: vec![], members: vec![] }
        }
        Tag::Def => {
            let start = em.here();
            let d = gen_desc(em, rng, 3);
            let kwp = em.tok(KEYWORDS[pr.kind]);
            let (pos, mut keep) = if pr.kind == 0 { (start, desc_s(&d)) } else { (kwp.clone(), String::new()) };
            if pr.kind != 0 {
                em.ws(rng); let np = em.tok(&nm);
                keep = format!("{}|{}@{}|{}@{}", desc_s(&d), KEYWORDS[pr.kind], pos_s(&kwp), nm, pos_s(&np));
            }
            let (mut dirs, mut impls, mut members) = (vec![], vec![], vec![]);
            match pr.kind {
                0 => { let n = cnt(rng, 0, 2); dirs = gen_directives(em, rng, n); em.ows(rng); let n = cnt(rng, 1, 3); members = gen_rootops(em, rng, n); }
                1 => { let n = cnt(rng, 0, 3); dirs = gen_directives(em, rng, n); }
                2 | 3 => {
                    let ni = cnt(rng, 0, 2); if ni > 0 { impls = gen_implements(em, rng, ni); }
                    let mut nf = cnt(rng, 0, 3); let mut nd = cnt(rng, 0, 2);
                    if pr.kind == 2 && nf == 0 && nd == 0 { if rng.chance(1, 2) { nf = 1 } else { nd = 1 } }   // grammar: `type X` needs fields or directives
                    dirs = gen_directives(em, rng, nd);
                    if nf > 0 { em.ows(rng); members = gen_braced(em, rng, nf, |em, rng, i| gen_field(em, rng, &format!("f{}", i))); }
                }
                4 => { let n = cnt(rng, 0, 2); dirs = gen_directives(em, rng, n); let n = cnt(rng, 1, 3); members = gen_union_members(em, rng, n); }
                5 => { let n = cnt(rng, 0, 2); dirs = gen_directives(em, rng, n); let nv = cnt(rng, 0, 3);
                       if nv > 0 { em.ows(rng); members = gen_braced(em, rng, nv, |em, rng, i| gen_enum_value(em, rng, &format!("V{}", i))); } }
                _ => { let n = cnt(rng, 0, 2); dirs = gen_directives(em, rng, n); let nv = cnt(rng, 0, 3);
                       if nv > 0 { em.ows(rng); members = gen_braced(em, rng, nv, |em, rng, i| gen_input_value(em, rng, &format!("i{}", i))); } }
            }
            AItem { tag: Tag::Def, kind: pr.kind, name, pos, keep, dirs, impls, members }
        }
        Tag::Ext => {
            let pos = em.tok("extend"); em.ws(rng); em.put(KEYWORDS[pr.kind]);
            if pr.kind != 0 { em.ws(rng); em.put(&nm); }
            let (mut dirs, mut impls, mut members) = (vec![], vec![], vec![]);
            match pr.kind {
                0 => { let mut nd = cnt(rng, 0, 2); let nm_ = cnt(rng, 0, 2); if nd == 0 && nm_ == 0 { nd = 1; }
                       dirs = gen_directives(em, rng, nd); if nm_ > 0 { em.ows(rng); members = gen_rootops(em, rng, nm_); } }
                1 => { let n = cnt(rng, 0, 3); dirs = gen_directives(em, rng, n); }
                2 | 3 => {
                    let ni = cnt(rng, 0, 2); let mut nd = cnt(rng, 0, 2); let nf = cnt(rng, 0, 3);
                    if pr.kind == 2 && ni == 0 && nd == 0 && nf == 0 { nd = 1; }
                    if ni > 0 { impls = gen_implements(em, rng, ni); }
                    dirs = gen_directives(em, rng, nd);
                    if nf > 0 { em.ows(rng); members = gen_braced(em, rng, nf, |em, rng, i| gen_field(em, rng, &format!("g{}", i))); }
                }
                4 => { let mut nd = cnt(rng, 0, 2); let nm_ = cnt(rng, 0, 3); if nd == 0 && nm_ == 0 { nd = 1; }
                       dirs = gen_directives(em, rng, nd); if nm_ > 0 { members = gen_union_members(em, rng, nm_); } }
                5 => { let n = cnt(rng, 0, 2); dirs = gen_directives(em, rng, n); let nv = cnt(rng, 0, 3);
                       if nv > 0 { em.ows(rng); members = gen_braced(em, rng, nv, |em, rng, i| gen_enum_value(em, rng, &format!("W{}", i))); } }
                _ => { let n = cnt(rng, 0, 2); dirs = gen_directives(em, rng, n); let nv = cnt(rng, 0, 3);
                       if nv > 0 { em.ows(rng); members = gen_braced(em, rng, nv, |em, rng, i| gen_input_value(em, rng, &format!("j{}", i))); } }
            }
            AItem { tag: Tag::Ext, kind: pr.kind, name, pos, keep: String::new(), dirs, impls, members }
        }
    }
}

fn render_file(rng: &mut Rng, file: usize, protos: &[Proto], sparse: bool) -> (String, Vec<AItem>) {
    let mut em = Em::new(file);
    let mut items = vec![];
    match rng.below(6) { 0 => em.put("\n"), 1 => em.put("# header\n\n"), 2 => em.put("  "), _ => {} }
    for (i, p) in protos.iter().enumerate() {
        if i > 0 { match rng.below(6) { 0 => em.put(" "), 1 => em.put("\n\n"), 2 => em.put("\n  "), 3 => em.put("\n# sep\n"), _ => em.put("\n") } }
        items.push(render_item(&mut em, rng, p, sparse));
    }
    em.put("\n");
    (em.text, items)
}

// ------------------------------------------------------------------ plans

const NAMES: [&str; 4] = ["A", "B", "C", "D"];

fn proto(tag: Tag, kind: usize, name: &str) -> Proto {
    Proto { tag, kind, name: if kind == 0 && tag != Tag::Dir { None } else { Some(name.to_string()) } }
}

/// mode: 0 valid, 1 duplicate original, 2 orphan extension, 3 both, 4 unconstrained
fn gen_plan(rng: &mut Rng, mode: usize, builtins: bool) -> Vec<Proto> {
    let mut plan = vec![];
    if mode == 4 {
        for _ in 0..rng.range(1, 10) {
            let tag = match rng.below(7) { 0 => Tag::Dir, 1..=3 => Tag::Def, _ => Tag::Ext };
            plan.push(proto(tag, rng.below(7), *rng.pick(&NAMES[..3])));
        }
        return plan;
    }
    let mut defined: Vec<(usize, String)> = vec![];
    for _ in 0..rng.range(1, 6) {
        let k = rng.below(7);
        let n = if k == 0 { String::new() } else if k == 1 && builtins && rng.chance(1, 6) { "Hidden".to_string() } else { rng.pick(&NAMES).to_string() };
        if !defined.contains(&(k, n.clone())) { defined.push((k, n)); }
    }
    for (k, n) in &defined {
        plan.push(proto(Tag::Def, *k, n));
        let ne = match rng.below(10) { 0..=3 => 0, 4..=6 => 1, 7 | 8 => 2, _ => 3 };
        for _ in 0..ne { plan.push(proto(Tag::Ext, *k, n)); }
    }
    if builtins && rng.chance(1, 3) {
        // extensions of a builtin scalar merge into the appended builtin definition
        for _ in 0..rng.range(1, 2) { plan.push(proto(Tag::Ext, 1, *rng.pick(&["Int", "String", "ID"]))); }
    }
    for i in 0..rng.below(3) { plan.push(proto(Tag::Dir, 0, &format!("dd{}", i))); }
    // directive definitions are not keyed by the resolver: same-name ones (also user + builtin) must all pass through
    if rng.chance(1, 4) { for _ in 0..rng.range(1, 2) { plan.push(proto(Tag::Dir, 0, "dd0")); } }
    if builtins && rng.chance(1, 5) { plan.push(proto(Tag::Dir, 0, *rng.pick(&["skip", "deprecated", "nitrogql_ts_type", "specifiedBy"]))); }
    if mode == 1 || mode == 3 {
        for _ in 0..rng.range(1, 2) {
            if builtins && rng.chance(1, 4) { plan.push(proto(Tag::Def, 1, *rng.pick(&["Int", "Boolean"]))); }
            else { let (k, n) = rng.pick(&defined).clone(); plan.push(proto(Tag::Def, k, &n)); }
        }
    }
    if mode == 2 || mode == 3 {
        for _ in 0..rng.range(1, 2) {
            // an extension whose (kind, name) is not defined; prefer a name that another kind defines
            for _try in 0..20 {
                let k = rng.below(7);
                let n = if k == 0 { String::new() } else if rng.chance(2, 3) { rng.pick(&defined).1.clone() } else { rng.pick(&NAMES).to_string() };
                let n = if k != 0 && n.is_empty() { "A".to_string() } else { n };
                if !defined.contains(&(k, n.clone())) { plan.push(proto(Tag::Ext, k, &n)); break; }
            }
        }
    }
    plan
}

// ------------------------------------------------------------------ running the implementation

#[derive(Debug)]
enum Outcome { Ok(Vec<AItem>), Err { variant: String, elem: String, name: String, p1: APos, p2: Option<APos>, diag: Option<APos>, info: Vec<(APos, String)>, message: String }, Panic(String), ParseFail(String) }

fn parse_debug_pos(s: &str, label: &str) -> Option<APos> {
    let i = s.find(label)? + label.len();
    let rest = &s[i..];
    let num = |key: &str| -> Option<usize> {
        let j = rest.find(key)? + key.len();
        let t: String = rest[j..].chars().take_while(|c| c.is_ascii_digit()).collect();
        t.parse().ok()
    };
    let j = rest.find("builtin: ")? + "builtin: ".len();
    Some(APos { line: num("line: ")?, col: num("column: ")?, file: num("file: ")?, builtin: rest[j..].starts_with("true") })
}
fn parse_debug_str(s: &str, label: &str) -> Option<String> {
    let i = s.find(label)? + label.len();
    let rest = &s[i..];
    let rest = rest.strip_prefix('"')?;
    let mut out = String::new();
    let mut it = rest.chars();
    while let Some(c) = it.next() {
        match c { '"' => return Some(out), '\\' => { if let Some(d) = it.next() { out.push(d); } } _ => out.push(c) }
    }
    None
}

struct Run { parsed_items: Option<Vec<AItem>>, outcome: Outcome }

fn run_impl(files: &[(usize, String)], builtins: bool) -> Run {
    let files: Vec<(usize, String)> = files.to_vec();
    let r = catch(move || {
        // as crates/cli/src/main.rs: per file set_current_file_of_pos(idx); parse; then merge; then builtins
        let mut docs = vec![];
        for (idx, text) in &files {
            set_current_file_of_pos(*idx);
            match parse_type_system_document(text) {
                Ok(d) => docs.push(d),
                Err(e) => return Run { parsed_items: None, outcome: Outcome::ParseFail(format!("file {}: {}", idx, e.into_message())) },
            }
        }
        let mut merged = TypeSystemOrExtensionDocument::merge(docs);
        if builtins {
            merged.extend(graphql_builtins::generate_builtins());
            merged.extend(cli_builtins::nitrogql_builtins());
        }
        let parsed_items: Vec<AItem> = merged.definitions.iter().map(dump_in).collect();
        let outcome = match catch(std::panic::AssertUnwindSafe(|| resolve_schema_extensions(merged))) {
            Err(m) => Outcome::Panic(m),
            Ok(Ok(doc)) => Outcome::Ok(doc.definitions.iter().map(dump_out).collect()),
            Ok(Err(e)) => {
                let dbg = format!("{:?}", e.message);
                let variant = dbg.split(|c: char| !c.is_alphanumeric()).next().unwrap_or("").to_string();
                let elem = parse_debug_str(&dbg, "name_of_elem: ").unwrap_or_else(|| "?".into());
                let (name, p1, p2) = if variant == "DuplicateOriginal" {
                    (parse_debug_str(&dbg, " name: ").unwrap_or_else(|| "?".into()),
                     parse_debug_pos(&dbg, "first: "), parse_debug_pos(&dbg, "second: "))
                } else {
                    (String::new(), parse_debug_pos(&dbg, "first_extension: "), None)
                };
                let pe: PositionedError = e.into();
                let diag = pe.position().map(|p| apos(&p));
                // additional_info is private: read it from the derived Debug output
                let pdbg = format!("{:?}", pe);
                let mut info: Vec<(APos, String)> = vec![];
                let mut info_ok = true;
                match pdbg.rfind("additional_info: [") {
                    None => info_ok = false,
                    Some(i) => {
                        let tail = &pdbg[i..];
                        if !tail.starts_with("additional_info: []") {
                            match (parse_debug_pos(tail, "additional_info: [("), tail.find("}, ").and_then(|j| parse_debug_str(&tail[j..], "}, "))) {
                                (Some(p), Some(t)) => { info.push((p, t)); if tail.matches("Pos {").count() != 1 { info_ok = false; } }
                                _ => info_ok = false,
                            }
                        }
                    }
                }
                if !info_ok { info.push((APos { line: 999999, col: 0, file: 0, builtin: false }, format!("unreadable: {}", pdbg))); }
                let message = format!("{}", pe.into_inner());
                match p1 {
                    Some(p1) => Outcome::Err { variant, elem, name, p1, p2, diag, info, message },
                    None => Outcome::Panic(format!("unreadable error value: {}", dbg)),
                }
            }
        };
        Run { parsed_items: Some(parsed_items), outcome }
    });
    match r { Ok(run) => run, Err(m) => Run { parsed_items: None, outcome: Outcome::Panic(m) } }
}

// ------------------------------------------------------------------ Coq / JSON printing

struct Intern { map: std::cell::RefCell<HashMap<String, u64>> }
impl Intern {
    fn id(&self, s: &str) -> u64 { let mut m = self.map.borrow_mut(); let n = m.len() as u64 + 1; *m.entry(s.to_string()).or_insert(n) }
    fn ids(&self, xs: &[String]) -> String {
        if xs.is_empty() { "[]".into() } else { format!("[{}]%N", xs.iter().map(|x| self.id(x).to_string()).collect::<Vec<_>>().join(";")) }
    }
}
fn coq_pos(p: &APos) -> String { format!("(mkpos {}%N {}%N {}%N {})", p.line, p.col, p.file, coq_bool(p.builtin)) }
fn coq_item(it: &AItem, t: &Intern) -> String {
    let name = coq_opt(&it.name, |s| coq_str(s));
    match it.tag {
        Tag::Dir => format!("IDir {}%N", t.id(&it.keep)),
        Tag::Def => format!("IDef (mkdef {} {} {} {}%N {} {} {})", KINDS[it.kind], name, coq_pos(&it.pos), t.id(&it.keep),
                            t.ids(&it.dirs), t.ids(&it.impls), t.ids(&it.members)),
        Tag::Ext => format!("IExt (mkext {} {} {} {} {} {})", KINDS[it.kind], name, coq_pos(&it.pos),
                            t.ids(&it.dirs), t.ids(&it.impls), t.ids(&it.members)),
    }
}
fn json_pos(p: &APos) -> serde_json::Value { json!(pos_s(p)) }
fn json_item(it: &AItem) -> serde_json::Value {
    json!({"tag": format!("{:?}", it.tag), "kind": if it.tag == Tag::Dir { "directive" } else { KEYWORDS[it.kind] }, "name": it.name,
           "pos": json_pos(&it.pos), "keep": it.keep, "directives": it.dirs, "implements": it.impls, "members": it.members})
}

// ------------------------------------------------------------------ main

struct Stats {
    n: u64, ok: u64, dup: u64, orphan: u64, panic: u64, parse_fail: u64, parse_mismatch: u64,
    by_kind_def: [u64; 7], by_kind_ext: [u64; 7], dirdefs: u64, files: [u64; 5], ext_before_def: u64, cross_file_ext: u64,
    multi_ext: u64, same_name_dirdefs: u64, with_builtins: u64, pos_ties: u64, builtin_ties: u64, items_total: u64, err_elem: HashMap<String, u64>,
}

fn main() {
    silence_panics();
    let args = parse_args();
    let mut rng = Rng::new(args.seed);
    let thorough = args.tier == "thorough";
    let mut cases = Cases::new("From V Require Import Base.Util C11.Model C11.Spec C11.Corr.", "case", "agree", "holds", if thorough { 800 } else { 300 });
    let mut distinct: HashSet<String> = HashSet::new();
    let mut st = Stats { n: 0, ok: 0, dup: 0, orphan: 0, panic: 0, parse_fail: 0, parse_mismatch: 0, by_kind_def: [0; 7], by_kind_ext: [0; 7],
        dirdefs: 0, files: [0; 5], ext_before_def: 0, cross_file_ext: 0, multi_ext: 0, same_name_dirdefs: 0, with_builtins: 0, pos_ties: 0, builtin_ties: 0, items_total: 0, err_elem: HashMap::new() };
    let mut direct_failures: Vec<serde_json::Value> = vec![];
    let slim = thorough;   // thorough tier: replay descriptions keep the file texts and the verdict only

    // A plan + an assignment of its items to files -> one case.
    let mut run_case = |rng: &mut Rng, per_file: Vec<Vec<Proto>>, file_ids: Vec<usize>, builtins: bool, sparse: bool, origin: &str,
                        cases: &mut Cases, st: &mut Stats, distinct: &mut HashSet<String>, direct_failures: &mut Vec<serde_json::Value>| {
        let mut texts = vec![]; let mut expected: Vec<Vec<AItem>> = vec![];
        for (protos, id) in per_file.iter().zip(file_ids.iter()) {
            let (text, items) = render_file(rng, *id, protos, sparse);
            texts.push((*id, text)); expected.push(items);
        }
        let run = run_impl(&texts, builtins);
        let flat: Vec<AItem> = expected.iter().flatten().cloned().collect();
        // the builtin items are taken from the implementation's own constructors (they are not rendered text)
        let mut builtin_items: Vec<AItem> = vec![];
        if builtins {
            builtin_items.extend(graphql_builtins::generate_builtins().iter().map(dump_in));
            builtin_items.extend(cli_builtins::nitrogql_builtins().iter().map(dump_in));
        }
        let files_json: Vec<_> = texts.iter().map(|(i, t)| json!({"file_index": i, "text": t})).collect();
        let mut descr = json!({"origin": origin, "files": files_json, "builtins_appended": builtins});
        if !slim { descr["items"] = json!(flat.iter().map(json_item).collect::<Vec<_>>()); }
        st.n += 1;
        if let Some(parsed) = &run.parsed_items {
            let want: Vec<AItem> = flat.iter().cloned().chain(builtin_items.iter().cloned()).collect();
            if *parsed != want {
                st.parse_mismatch += 1;
                if direct_failures.len() < 5 {
                    let k = parsed.iter().zip(want.iter()).position(|(a, b)| a != b).unwrap_or(parsed.len().min(want.len()));
                    direct_failures.push(json!({"what": "the parsed and merged document differs from the items that were rendered (parser or merge lost/changed something)",
                        "classes": ["parse-mismatch"], "case": descr.clone(), "first_difference_at_item": k,
                        "parsed": parsed.get(k).map(json_item), "rendered": want.get(k).map(json_item)}));
                }
            }
        }
        let t = Intern { map: std::cell::RefCell::new(HashMap::new()) };
        let files_term = coq_list(&expected, |f| coq_list(f, |it| coq_item(it, &t)));
        // (closures above borrow t mutably one after the other)
        let builtins_term = coq_list(&builtin_items, |it| coq_item(it, &t));
        let result_term = match &run.outcome {
            Outcome::Ok(out) => {
                st.ok += 1;
                descr["result"] = if slim { json!({"ok_items": out.len()}) } else { json!({"ok": out.iter().map(json_item).collect::<Vec<_>>()}) };
                format!("(ROk {})", coq_list(out, |it| coq_item(it, &t)))
            }
            Outcome::Err { variant, elem, name, p1, p2, diag, info, message } => {
                *st.err_elem.entry(format!("{} {}", variant, elem)).or_insert(0) += 1;
                descr["result"] = json!({"error": variant, "name_of_elem": elem, "name": name, "first": json_pos(p1),
                                         "second": p2.as_ref().map(json_pos), "diagnostic_position": diag.as_ref().map(json_pos),
                                         "additional_info": info.iter().map(|(p, t)| json!([pos_s(p), t])).collect::<Vec<_>>(), "message": message});
                let e = if variant == "DuplicateOriginal" {
                    st.dup += 1;
                    format!("(DupOriginal {} {} {} {})", coq_str(elem), coq_str(name), coq_pos(p1), coq_pos(p2.as_ref().unwrap_or(p1)))
                } else {
                    st.orphan += 1;
                    format!("(NoOriginal {} {})", coq_str(elem), coq_pos(p1))
                };
                format!("(RErr {} {} {} {})", e, coq_opt(diag, coq_pos),
                        coq_list(info, |(p, t)| format!("({}, {})", coq_pos(p), coq_str(t))), coq_str(message))
            }
            Outcome::Panic(m) => { st.panic += 1; descr["result"] = json!({"panic": m}); "RPanic".to_string() }
            Outcome::ParseFail(m) => {
                st.parse_fail += 1; descr["result"] = json!({"parse_error": m});
                if direct_failures.len() < 5 {
                    direct_failures.push(json!({"what": "a rendered schema file no longer parses", "classes": ["parse-fail"], "case": descr.clone()}));
                }
                "RPanic".to_string()
            }
        };
        // statistics
        st.files[per_file.len().min(4)] += 1;
        if builtins { st.with_builtins += 1; }
        st.items_total += flat.len() as u64;
        let mut seen_def: HashSet<(usize, Option<String>)> = HashSet::new();
        let mut ext_count: HashMap<(usize, Option<String>), u64> = HashMap::new();
        let mut def_file: HashMap<(usize, Option<String>), usize> = HashMap::new();
        for it in &flat { if it.tag == Tag::Def { def_file.insert((it.kind, it.name.clone()), it.pos.file); } }
        let (mut ebd, mut cfe) = (false, false);
        for it in &flat {
            match it.tag {
                Tag::Def => { st.by_kind_def[it.kind] += 1; seen_def.insert((it.kind, it.name.clone())); }
                Tag::Ext => {
                    st.by_kind_ext[it.kind] += 1;
                    let k = (it.kind, it.name.clone());
                    if !seen_def.contains(&k) && def_file.contains_key(&k) { ebd = true; }
                    if let Some(f) = def_file.get(&k) { if *f != it.pos.file { cfe = true; } }
                    *ext_count.entry(k).or_insert(0) += 1;
                }
                Tag::Dir => st.dirdefs += 1,
            }
        }
        if ebd { st.ext_before_def += 1; }
        if cfe { st.cross_file_ext += 1; }
        if ext_count.values().any(|c| *c >= 2) { st.multi_ext += 1; }
        {
            let mut names: HashSet<String> = HashSet::new(); let mut dupd = false;
            for it in flat.iter().chain(builtin_items.iter()) { if it.tag == Tag::Dir && !names.insert(it.name.clone().unwrap_or_default()) { dupd = true; } }
            if dupd { st.same_name_dirdefs += 1; }
        }
        let mut lc: HashSet<(usize, usize, usize)> = HashSet::new();
        let mut tie = false;
        for it in flat.iter() { if it.tag == Tag::Def && !lc.insert((it.kind, it.pos.line, it.pos.col)) { tie = true; } }
        if tie { st.pos_ties += 1; }
        if builtins && flat.iter().any(|it| it.tag == Tag::Def && it.kind == 1 && it.pos.line == 0 && it.pos.col == 0) { st.builtin_ties += 1; }
        descr["shape"] = json!({"files": per_file.len(), "items": flat.len(), "extension_before_definition": ebd, "extension_in_other_file": cfe, "definition_position_tie": tie});
        distinct.insert(texts.iter().map(|(i, t)| format!("{}\u{1}{}", i, t)).collect::<Vec<_>>().join("\u{2}") + if builtins { "+b" } else { "" });
        cases.push(format!("Case {} {} {}", files_term, builtins_term, result_term), descr);
    };

    let split = |rng: &mut Rng, plan: Vec<Proto>, nfiles: usize| -> Vec<Vec<Proto>> {
        let mut per: Vec<Vec<Proto>> = vec![vec![]; nfiles];
        for p in plan { let f = rng.below(nfiles); per[f].push(p); }
        per.into_iter().filter(|f| !f.is_empty()).collect()
    };
    let file_ids = |rng: &mut Rng, n: usize| -> Vec<usize> {
        // the CLI numbers files in loading order; other orders must not matter either
        let mut ids: Vec<usize> = (0..n).map(|i| i * rng.range(1, 3) + rng.below(2) * 10 * i).collect();
        ids.sort(); ids.dedup();
        while ids.len() < n { let m = ids.last().copied().unwrap_or(0) + 1; ids.push(m); }
        if rng.chance(1, 4) { rng.shuffle(&mut ids); }
        ids
    };

    // 1. exhaustive: every order of a small multiset (two definitions, their extensions, an unrelated kind with the
    //    same name), each in one file / one file per item / a random split
    let base_sets: Vec<(&str, Vec<Proto>)> = vec![
        ("perm-valid", vec![proto(Tag::Def, 2, "A"), proto(Tag::Ext, 2, "A"), proto(Tag::Ext, 2, "A"), proto(Tag::Def, 1, "A"), proto(Tag::Ext, 1, "A")]),
        ("perm-dup", vec![proto(Tag::Def, 5, "A"), proto(Tag::Def, 5, "A"), proto(Tag::Ext, 5, "A"), proto(Tag::Def, 5, "B")]),
        ("perm-orphan", vec![proto(Tag::Def, 3, "A"), proto(Tag::Ext, 3, "B"), proto(Tag::Ext, 2, "A"), proto(Tag::Ext, 3, "A")]),
        ("perm-schema", vec![proto(Tag::Def, 0, ""), proto(Tag::Ext, 0, ""), proto(Tag::Ext, 0, ""), proto(Tag::Dir, 0, "dd")]),
    ];
    let mut extra_sets: Vec<(&str, Vec<Proto>)> = vec![];
    if thorough {
        extra_sets.push(("perm-valid-6", vec![proto(Tag::Def, 4, "A"), proto(Tag::Ext, 4, "A"), proto(Tag::Ext, 4, "A"), proto(Tag::Def, 6, "B"), proto(Tag::Ext, 6, "B"), proto(Tag::Def, 4, "B")]));
        extra_sets.push(("perm-valid-7", vec![proto(Tag::Def, 3, "A"), proto(Tag::Ext, 3, "A"), proto(Tag::Ext, 3, "A"), proto(Tag::Ext, 3, "A"), proto(Tag::Def, 2, "A"), proto(Tag::Ext, 2, "A"), proto(Tag::Dir, 0, "dd")]));
        extra_sets.push(("perm-mixed-6", vec![proto(Tag::Def, 2, "A"), proto(Tag::Def, 2, "A"), proto(Tag::Ext, 2, "A"), proto(Tag::Ext, 3, "A"), proto(Tag::Def, 0, ""), proto(Tag::Ext, 0, "")]));
    }
    for (origin, set) in base_sets.iter().chain(extra_sets.iter()) {
        let n = set.len();
        let mut idx: Vec<usize> = (0..n).collect();
        // Heap-free permutation enumeration (lexicographic next_permutation)
        loop {
            let plan: Vec<Proto> = idx.iter().map(|i| set[*i].clone()).collect();
            let variants = if thorough { 3 } else { 2 };
            for v in 0..variants {
                let per: Vec<Vec<Proto>> = match v {
                    0 => vec![plan.clone()],
                    1 => plan.iter().map(|p| vec![p.clone()]).collect(),
                    _ => split(&mut rng, plan.clone(), 2),
                };
                let ids = if v == 1 { (0..per.len()).collect() } else { file_ids(&mut rng, per.len()) };
                let b = rng.chance(1, 4); let sp = rng.chance(1, 2);
                run_case(&mut rng, per, ids, b, sp, origin, &mut cases, &mut st, &mut distinct, &mut direct_failures);
            }
            // next permutation
            let mut i = n - 1;
            while i > 0 && idx[i - 1] >= idx[i] { i -= 1; }
            if i == 0 { break; }
            let mut j = n - 1;
            while idx[j] <= idx[i - 1] { j -= 1; }
            idx.swap(i - 1, j);
            idx[i..].reverse();
        }
    }
    let n_exhaustive = cases.len();

    // 2. random multisets of all kinds, shuffled, split across 1-4 files
    let n_rand = if thorough { 120000 } else { 6000 };
    for _ in 0..n_rand {
        let builtins = rng.chance(1, 2);
        let mode = match rng.below(20) { 0..=10 => 0, 11..=13 => 1, 14..=16 => 2, 17 => 3, _ => 4 };
        let mut plan = gen_plan(&mut rng, mode, builtins);
        rng.shuffle(&mut plan);
        let nfiles = rng.range(1, 4);
        let per = split(&mut rng, plan, nfiles);
        if per.is_empty() { continue; }
        let ids = file_ids(&mut rng, per.len());
        let sparse = rng.chance(1, 6);
        run_case(&mut rng, per, ids, builtins, sparse, &format!("random-mode{}", mode), &mut cases, &mut st, &mut distinct, &mut direct_failures);
    }

    cases.write(&args.out);
    let samples: Vec<_> = [0usize, n_exhaustive.saturating_sub(1), n_exhaustive + 3, cases.len() - 1].iter()
        .filter(|i| **i < cases.len()).map(|i| cases.descr[*i].clone()).collect();
    let kinds_json = |a: &[u64; 7]| -> serde_json::Value { json!(KEYWORDS.iter().zip(a.iter()).map(|(k, v)| (k.to_string(), json!(v))).collect::<serde_json::Map<_, _>>()) };
    let mut meta = json!({
        "evaluations": cases.len(),
        "distinct_nontrivial": distinct.len(),
        "rule": "distinct = distinct (file index, file text, builtins flag) tuples; every case has >= 1 definition or extension rendered to SDL, parsed by the real parser, merged and resolved by the real resolver, so every case is non-trivial; exhaustive part = all orders of 4 (thorough: 7) fixed small multisets of 4-5 (thorough: up to 7) items, each as one file / one file per item (/ random split)",
        "samples": samples,
        "distribution": {
            "exhaustive_permutation_cases": n_exhaustive, "random_cases": cases.len() - n_exhaustive,
            "result_ok": st.ok, "result_duplicate_original": st.dup, "result_no_original": st.orphan, "result_panic": st.panic,
            "parse_failures": st.parse_fail, "parsed_differs_from_rendered": st.parse_mismatch,
            "error_by_variant_and_kind": st.err_elem,
            "definitions_by_kind": kinds_json(&st.by_kind_def), "extensions_by_kind": kinds_json(&st.by_kind_ext), "directive_definitions": st.dirdefs,
            "cases_by_file_count": {"1": st.files[1], "2": st.files[2], "3": st.files[3], "4": st.files[4]},
            "cases_with_extension_before_its_definition": st.ext_before_def,
            "cases_with_extension_in_another_file_than_its_definition": st.cross_file_ext,
            "cases_with_two_or_more_extensions_of_one_definition": st.multi_ext,
            "cases_with_builtins_appended": st.with_builtins,
            "cases_with_two_directive_definitions_of_one_name": st.same_name_dirdefs,
            "cases_with_two_rendered_same_kind_definitions_at_equal_line_col": st.pos_ties,
            "cases_with_rendered_scalar_at_0_0_tying_with_builtin_scalars": st.builtin_ties,
            "mean_items_per_case": (st.items_total as f64) / (st.n.max(1) as f64),
        },
    });
    if !direct_failures.is_empty() { meta["direct_failures"] = json!(direct_failures); }
    if st.panic > st.parse_fail {
        let mut v = meta["direct_failures"].as_array().cloned().unwrap_or_default();
        v.push(json!({"what": "resolve_schema_extensions (or the parser) panicked on a rendered schema", "classes": ["panic"], "count": st.panic - st.parse_fail}));
        meta["direct_failures"] = json!(v);
    }
    write_meta(&args.out, &meta);
}
