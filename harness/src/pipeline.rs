//! The nitrogql pipeline as the CLI runs it, in-process: parse schema → add built-ins →
//! resolve extensions → check → type system; parse operation → resolve extensions → check.
use graphql_builtins::generate_builtins;
use graphql_type_system::Schema;
use nitrogql_ast::base::Pos;
use nitrogql_ast::{OperationDocument, TypeSystemDocument};
use nitrogql_checker::{check_operation_document, check_type_system_document, CheckError, OperationCheckContext};
use nitrogql_parser::{parse_operation_document, parse_type_system_document};
use nitrogql_semantics::{ast_to_type_system, resolve_operation_extensions, resolve_schema_extensions};
use std::borrow::Cow;

/// parse + builtins + resolve; Err(stage: message)
pub fn load_schema(src: &str) -> Result<TypeSystemDocument<'_>, String> {
    let mut doc = parse_type_system_document(src).map_err(|e| format!("parse: {}", e.into_message()))?;
    doc.extend(generate_builtins());
    resolve_schema_extensions(doc).map_err(|e| format!("resolve: {e:?}"))
}
pub fn check_schema(doc: &TypeSystemDocument) -> Vec<CheckError> { check_type_system_document(doc) }
pub fn to_type_system<'a>(doc: &'a TypeSystemDocument<'a>) -> Schema<Cow<'a, str>, Pos> { ast_to_type_system(doc) }

pub fn load_operation(src: &str) -> Result<OperationDocument<'_>, String> {
    let doc = parse_operation_document(src).map_err(|e| format!("parse: {}", e.into_message()))?;
    let (doc, _imports) = resolve_operation_extensions(doc).map_err(|e| format!("ext: {e:?}"))?;
    Ok(doc)
}
pub fn check_operation<'a>(schema: &Schema<Cow<'a, str>, Pos>, doc: &OperationDocument<'a>) -> Vec<CheckError> {
    let ctx = OperationCheckContext::new(schema);
    check_operation_document(doc, &ctx)
}
/// (message Debug text, line, column, file)
pub fn error_summary(e: &CheckError) -> (String, usize, usize, usize) {
    (format!("{:?}", e.message), e.position.line, e.position.column, e.position.file)
}
