//! Recording writer: captures the exact sequence of writer operations of any nitrogql printer
//! (all printers are generic over the public trait `SourceMapWriter`), printed as Coq `list wop`
//! (coq/Writer/Wop.v).
use crate::{ast_coq, coq_opt, coq_str};
use nitrogql_ast::base::{HasPos, Pos};
use sourcemap_writer::SourceMapWriter;

#[derive(Clone, Debug, PartialEq)]
pub enum Wop {
    W(String),
    WF(String, Pos, Option<String>),
    Indent,
    Dedent,
}

#[derive(Default)]
pub struct Rec(pub Vec<Wop>);

impl SourceMapWriter for Rec {
    fn write(&mut self, chunk: &str) {
        self.0.push(Wop::W(chunk.to_string()));
    }
    fn write_for(&mut self, chunk: &str, node: &impl HasPos) {
        self.0.push(Wop::WF(chunk.to_string(), *node.position(), node.name().map(|s| s.to_string())));
    }
    fn indent(&mut self) {
        self.0.push(Wop::Indent);
    }
    fn dedent(&mut self) {
        self.0.push(Wop::Dedent);
    }
}

impl Rec {
    pub fn new() -> Self { Rec(vec![]) }
    /// adjacent plain writes merged, empty writes dropped (same normal form as Wop.coalesce)
    pub fn coalesced(&self) -> Vec<Wop> {
        let mut out: Vec<Wop> = vec![];
        for o in &self.0 {
            match (out.last_mut(), o) {
                (Some(Wop::W(a)), Wop::W(b)) => a.push_str(b),
                (_, Wop::W(b)) if b.is_empty() => {}
                _ => out.push(o.clone()),
            }
        }
        out
    }
    pub fn text(&self) -> String {
        self.0.iter().map(|o| match o { Wop::W(s) | Wop::WF(s, _, _) => s.as_str(), _ => "" }).collect()
    }
}

pub fn wop_coq(o: &Wop) -> String {
    match o {
        Wop::W(s) => format!("W {}", coq_str(s)),
        Wop::WF(s, p, n) => format!("WF {} {} {}", coq_str(s), ast_coq::pos(p), coq_opt(n, |x| coq_str(x))),
        Wop::Indent => "Indent".into(),
        Wop::Dedent => "Dedent".into(),
    }
}
pub fn wops_coq(ops: &[Wop]) -> String {
    crate::coq_list(ops, wop_coq)
}
