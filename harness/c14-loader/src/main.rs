//! c14loader IN.json OUT.jsonl
//!
//! IN.json: [{"id": n, "steps": [{"config": text | null, "root": path, "files": {path: source, …}}, …]}, …]
//! Every request is a HISTORY run on one fresh thread (= fresh thread-locals = one fresh loader instance, as one
//! wasm instance of the bundler plugin).  Per step, the calls loader-core's task.ts makes: load_config(config) unless
//! config is null (then the instance keeps whatever configuration is current: the default one before any
//! load_config); initiate_task(root, files[root]); repeat { get_required_files; load_file for each listed path }
//! until none is required; emit_js; read the result; free_task.  One JSON line per history is appended to OUT.jsonl
//! as soon as it is known ({"id", "steps": [{"ok", "js" | "error"}, …]}), so an abort inside an `extern "C"`
//! function (a panic there cannot unwind) leaves the earlier answers in place and the caller sees which is missing.
use serde_json::{json, Value};
use std::fs;
use std::io::Write as _;

fn result_string() -> String {
    let ptr = loader_lib::get_result_ptr();
    let size = loader_lib::get_result_size();
    String::from_utf8_lossy(unsafe { std::slice::from_raw_parts(ptr, size) }).into_owned()
}

fn run(req: &Value) -> Result<String, String> {
    if let Some(cfg) = req["config"].as_str() {
        if !loader_lib::load_config(cfg.as_ptr(), cfg.len()) { return Err("load_config returned false".into()); }
    }
    let root = req["root"].as_str().ok_or("no root")?;
    let files = req["files"].as_object().ok_or("no files")?;
    let src = files.get(root).and_then(|x| x.as_str()).ok_or("root source missing")?;
    let id = loader_lib::initiate_task(root.as_ptr(), root.len(), src.as_ptr(), src.len());
    if id == 0 { return Err(format!("initiate_task: {}", result_string())); }
    for _round in 0..64 {
        if !loader_lib::get_required_files(id) { return Err(format!("get_required_files: {}", result_string())); }
        let req_files = result_string();
        let list: Vec<&str> = req_files.split('\n').filter(|s| !s.is_empty()).collect();
        if list.is_empty() { break; }
        for f in list {
            let s = files.get(f).and_then(|x| x.as_str()).ok_or(format!("required file not supplied: {}", f))?;
            if !loader_lib::load_file(id, f.as_ptr(), f.len(), s.as_ptr(), s.len()) {
                return Err(format!("load_file {}: {}", f, result_string()));
            }
        }
    }
    let ok = loader_lib::emit_js(id);
    let r = result_string();
    loader_lib::free_task(id);
    if ok { Ok(r) } else { Err(format!("emit_js: {}", r)) }
}

fn main() {
    let a: Vec<String> = std::env::args().collect();
    let reqs: Vec<Value> = serde_json::from_str(&fs::read_to_string(&a[1]).unwrap()).unwrap();
    let mut out = fs::OpenOptions::new().create(true).append(true).open(&a[2]).unwrap();
    loader_lib::init(0);
    for req in reqs {
        let mut o = out.try_clone().unwrap();
        let th = std::thread::Builder::new().stack_size(16 << 20).spawn(move || {
            let steps: Vec<Value> = req["steps"].as_array().cloned().unwrap_or_default().iter().map(|st| match run(st) {
                Ok(js) => json!({"ok": true, "js": js}),
                Err(e) => json!({"ok": false, "error": e}),
            }).collect();
            let line = json!({"id": req["id"], "steps": steps});
            o.write_all(format!("{}\n", line).as_bytes()).unwrap();
        }).unwrap();
        let _ = th.join();
        out.flush().unwrap();
    }
}
