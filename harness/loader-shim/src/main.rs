//! C19: drives the loader's exported ABI functions (compiled unmodified from
//! /repo/crates/graphql-loader/src/main.rs by this package's [lib] target) over call histories.
//!
//!   c19 --seed N --tier quick|thorough --out DIR [--valgrind K]     orchestrator
//!   c19 child IN.json OUT.log                                       runs the histories of IN.json
//!
//! A panic inside an `extern "C"` function aborts the process, so histories run in child
//! processes; the child writes "B h i" before call i of history h and "E h i resp" after it, so
//! the parent sees which call never returned (= Trap) and restarts after that history.
//! Every history runs on a fresh thread: TASKS / RESULT / CONFIG are thread-locals, so a new thread
//! is a fresh loader instance (and thread exit runs the destructors of the remaining tasks).
mod vh;

use serde_json::{json, Value};
use std::collections::{BTreeMap, HashMap, HashSet};
use std::fs;
use std::io::Write as _;
use std::path::{Path, PathBuf};
use std::process::{Command, Stdio};
use vh::*;

// ------------------------------------------------------------------------------------------
// calls and responses

#[derive(Clone, Debug, PartialEq, Eq, Hash)]
enum Call {
    Initiate(usize, usize), // file index, source index
    Required(u64),
    Load(u64, usize, usize),
    Emit(u64),
    Free(u64),
    ReadResult,
    /// driver-level pseudo call: read the result iff the previous call stored one (what loader-core does);
    /// materialised as ReadResult or dropped before anything is handed to Coq
    ReadIfSet,
}

#[derive(Clone, Debug, PartialEq, Eq)]
enum Resp {
    Id(u64),
    Bool(bool),
    Unit,
    Str(String),
    Trap,
}

fn call_json(c: &Call) -> Value {
    match c {
        Call::Initiate(f, s) => json!(["I", f, s]),
        Call::Required(t) => json!(["R", t]),
        Call::Load(t, f, s) => json!(["L", t, f, s]),
        Call::Emit(t) => json!(["E", t]),
        Call::Free(t) => json!(["F", t]),
        Call::ReadResult => json!(["G"]),
        Call::ReadIfSet => json!(["G?"]),
    }
}
fn call_from_json(v: &Value) -> Call {
    let a = v.as_array().unwrap();
    let n = |i: usize| a[i].as_u64().unwrap();
    match a[0].as_str().unwrap() {
        "I" => Call::Initiate(n(1) as usize, n(2) as usize),
        "R" => Call::Required(n(1)),
        "L" => Call::Load(n(1), n(2) as usize, n(3) as usize),
        "E" => Call::Emit(n(1)),
        "F" => Call::Free(n(1)),
        "G?" => Call::ReadIfSet,
        _ => Call::ReadResult,
    }
}
fn resp_json(r: &Resp) -> Value {
    match r {
        Resp::Id(t) => json!({"id": t}),
        Resp::Bool(b) => json!({"bool": b}),
        Resp::Unit => json!("unit"),
        Resp::Str(s) => json!({"str": s}),
        Resp::Trap => json!("trap"),
    }
}
fn resp_from_json(v: &Value) -> Resp {
    if let Some(s) = v.as_str() {
        return if s == "unit" { Resp::Unit } else { Resp::Trap };
    }
    if let Some(t) = v.get("id") { return Resp::Id(t.as_u64().unwrap()); }
    if let Some(b) = v.get("bool") { return Resp::Bool(b.as_bool().unwrap()); }
    Resp::Str(v["str"].as_str().unwrap().to_string())
}

// ------------------------------------------------------------------------------------------
// child: the only code that touches the loader

/// Passes a string the way packages/loader-core/src/alloc.ts does: alloc_string, copy, (call), free_string.
struct Passed { ptr: *mut u8, len: usize }
impl Passed {
    fn new(s: &str) -> Passed {
        let len = s.len();
        let ptr = loader_shim::alloc_string(len);
        unsafe { std::ptr::copy_nonoverlapping(s.as_ptr(), ptr, len); }
        Passed { ptr, len }
    }
    fn free(self) { unsafe { loader_shim::free_string(self.ptr, self.len) } }
}

fn exec_call(c: &Call, files: &[String], sources: &[String]) -> Resp {
    match c {
        Call::Initiate(f, s) => {
            let (pf, ps) = (Passed::new(&files[*f]), Passed::new(&sources[*s]));
            let id = loader_shim::initiate_task(pf.ptr, pf.len, ps.ptr, ps.len);
            pf.free(); ps.free();
            Resp::Id(id as u64)
        }
        Call::Required(t) => Resp::Bool(loader_shim::get_required_files(*t as usize)),
        Call::Load(t, f, s) => {
            let (pf, ps) = (Passed::new(&files[*f]), Passed::new(&sources[*s]));
            let ok = loader_shim::load_file(*t as usize, pf.ptr, pf.len, ps.ptr, ps.len);
            pf.free(); ps.free();
            Resp::Bool(ok)
        }
        Call::Emit(t) => Resp::Bool(loader_shim::emit_js(*t as usize)),
        Call::Free(t) => { loader_shim::free_task(*t as usize); Resp::Unit }
        Call::ReadResult | Call::ReadIfSet => {
            // bin.ts readResult: ptr, then size, then copy out
            let ptr = loader_shim::get_result_ptr();
            let size = loader_shim::get_result_size();
            let bytes = unsafe { std::slice::from_raw_parts(ptr, size) }.to_vec();
            Resp::Str(String::from_utf8_lossy(&bytes).into_owned())
        }
    }
}

fn child_main(inp: &str, outp: &str, start: usize) {
    let v: Value = serde_json::from_str(&fs::read_to_string(inp).unwrap()).unwrap();
    let files: Vec<String> = v["files"].as_array().unwrap().iter().map(|x| x.as_str().unwrap().to_string()).collect();
    let sources: Vec<String> = v["sources"].as_array().unwrap().iter().map(|x| x.as_str().unwrap().to_string()).collect();
    let hs: Vec<Vec<Call>> = v["histories"].as_array().unwrap().iter()
        .map(|h| h.as_array().unwrap().iter().map(call_from_json).collect()).collect();
    let mut out = fs::OpenOptions::new().create(true).append(true).open(outp).unwrap();
    // once per process, as loader-core's init() does (a second call aborts: log::set_logger is global)
    loader_shim::init(0);
    for (k, h) in hs.iter().enumerate().skip(start) {
        let (files, sources, h) = (files.clone(), sources.clone(), h.clone());
        let mut o = out.try_clone().unwrap();
        // fresh thread = fresh thread-locals = fresh loader instance
        let th = std::thread::Builder::new().stack_size(16 << 20).spawn(move || {
            let mut last_set = false;
            for (i, c) in h.iter().enumerate() {
                if *c == Call::ReadIfSet && !last_set { continue; }
                o.write_all(format!("B {} {}\n", k, i).as_bytes()).unwrap();
                let r = exec_call(c, &files, &sources);
                if !matches!(c, Call::ReadResult | Call::ReadIfSet) { last_set = sets_result(c, &r); }
                o.write_all(format!("E {} {} {}\n", k, i, serde_json::to_string(&resp_json(&r)).unwrap()).as_bytes()).unwrap();
            }
        }).unwrap();
        let _ = th.join();
        out.write_all(format!("D {}\n", k).as_bytes()).unwrap();
    }
}

// ------------------------------------------------------------------------------------------
// parent: running batches in children

struct BatchResult {
    hist: Vec<Vec<Call>>,             // the calls actually made (ReadIfSet materialised), same length as resps
    resps: Vec<Vec<Resp>>,            // per history; ends with Trap if the process aborted there
    abort_msgs: Vec<Option<String>>,  // panic message seen on the child's stderr for that abort
    valgrind_errors: u64,
    valgrind_log: String,
    /// leak accounting (valgrind runs that ended normally): histories covered, blocks definitely lost,
    /// blocks expected lost (= alloc_string calls: each leaks its 24-byte String header, nothing else may leak)
    leak: (u64, u64, u64),
}

fn panic_message(stderr: &str) -> String {
    // "thread '<unnamed>' panicked at /repo/crates/…/printers.rs:22:33:\nfragment not found\n…"
    let mut site = String::new();
    let mut msg = String::new();
    let lines: Vec<&str> = stderr.lines().collect();
    for (i, l) in lines.iter().enumerate() {
        if let Some(p) = l.find("panicked at ") {
            if !site.is_empty() { continue; } // first panic only (the second is "cannot unwind")
            site = l[p + 12..].trim_end_matches(':').to_string();
            if let Some(m) = lines.get(i + 1) { msg = m.to_string(); }
        }
    }
    // keep file name (not line numbers, not the path prefix) + message
    let file = site.split(':').next().unwrap_or("").rsplit("crates/").next().unwrap_or("").to_string();
    format!("{}: {}", file, msg)
}

fn run_batch(dir: &Path, tag: &str, files: &[String], sources: &[String], hs: &[Vec<Call>], valgrind: bool) -> BatchResult {
    let inp = dir.join(format!("{}.in.json", tag));
    let mut start = 0usize;
    let mut aborts: HashMap<usize, String> = HashMap::new();
    let mut vg_errors = 0u64;
    let mut vg_log = String::new();
    let exe = std::env::current_exe().unwrap();
    let hs_json: Vec<Value> = hs.iter().map(|h| Value::Array(h.iter().map(call_json).collect())).collect();
    fs::write(&inp, serde_json::to_string(&json!({"files": files, "sources": sources, "histories": hs_json})).unwrap()).unwrap();
    let mut log = String::new();     // all attempts' logs, concatenated
    let mut leak = (0u64, 0u64, 0u64);
    let mut attempt = 0usize;
    while start < hs.len() {
        // one output file per attempt, so that finding where an attempt died costs O(that attempt)
        let outp = dir.join(format!("{}.out.{}.log", tag, attempt));
        attempt += 1;
        let _ = fs::remove_file(&outp);
        let mut cmd = if valgrind {
            let mut c = Command::new("valgrind");
            c.args(["--error-exitcode=97", "--leak-check=full", "--show-leak-kinds=definite", "--errors-for-leak-kinds=none",
                    "--num-callers=12"]).arg(&exe);
            c
        } else { Command::new(&exe) };
        let outc = cmd.arg("child").arg(&inp).arg(&outp).arg(start.to_string()).env("RUST_BACKTRACE", "0")
            .stdin(Stdio::null()).stdout(Stdio::null()).stderr(Stdio::piped()).output().expect("spawn child");
        let stderr = String::from_utf8_lossy(&outc.stderr).into_owned();
        if valgrind {
            let n = stderr.lines().filter(|l| l.starts_with("==") && (l.contains("Invalid ") || l.contains("Mismatched free")
                || l.contains("uninitialised") || l.contains("Invalid free"))).count() as u64;
            vg_errors += n;
            if n > 0 || outc.status.code() == Some(97) {
                if outc.status.code() == Some(97) && n == 0 { vg_errors += 1; }
                vg_log.push_str(&stderr.lines().filter(|l| l.starts_with("==")).take(60).collect::<Vec<_>>().join("\n"));
            }
        }
        let part = fs::read_to_string(&outp).unwrap_or_default();
        let _ = fs::remove_file(&outp);
        // which history was last begun but not done?
        let mut last_done: Option<usize> = None;
        let mut last_begun: Option<usize> = None;
        for l in part.lines() {
            let mut it = l.split(' ');
            match it.next() {
                Some("D") => last_done = it.next().and_then(|x| x.parse().ok()),
                Some("B") => last_begun = it.next().and_then(|x| x.parse().ok()),
                _ => {}
            }
        }
        log.push_str(&part);
        if last_done.map(|d| d + 1 == hs.len()).unwrap_or(false) {
            if valgrind && outc.status.success() {
                // this attempt ran histories start.. to the end and exited normally (all threads joined, so every
                // remaining task was dropped): the only blocks that may be lost are alloc_string's String headers
                let lost = stderr.lines().find(|l| l.contains("definitely lost:")).and_then(|l| {
                    let t: Vec<&str> = l.split_whitespace().collect();
                    t.iter().position(|w| *w == "in").and_then(|p| t.get(p + 1)).and_then(|w| w.replace(',', "").parse::<u64>().ok())
                }).unwrap_or(0);
                let expected: u64 = hs[start..].iter().map(|h| h.iter().filter(|c| matches!(c, Call::Initiate(..) | Call::Load(..))).count() as u64 * 2).sum();
                leak = ((hs.len() - start) as u64, lost, expected);
            }
            break;
        }
        // aborted inside history k
        let k = match (last_begun, last_done) {
            (Some(b), Some(d)) if b > d => b,
            (Some(b), None) => b,
            _ => {
                // died outside a call: machinery failure
                eprintln!("child died outside a call: status {:?}\n{}", outc.status, stderr);
                std::process::exit(3);
            }
        };
        aborts.insert(k, panic_message(&stderr));
        start = k + 1;
    }
    // parse the log
    let mut resps: Vec<Vec<Resp>> = vec![vec![]; hs.len()];
    let mut hist: Vec<Vec<Call>> = vec![vec![]; hs.len()];
    let mut begun: Vec<usize> = vec![0; hs.len()];
    let mat = |c: &Call| if *c == Call::ReadIfSet { Call::ReadResult } else { c.clone() };
    for l in log.lines() {
        let mut it = l.splitn(4, ' ');
        match it.next() {
            Some("B") => {
                let k: usize = it.next().unwrap().parse().unwrap();
                let i: usize = it.next().unwrap().parse().unwrap();
                begun[k] += 1; hist[k].push(mat(&hs[k][i]));
            }
            Some("E") => {
                let k: usize = it.next().unwrap().parse().unwrap();
                let _i = it.next();
                let v: Value = serde_json::from_str(it.next().unwrap()).unwrap();
                resps[k].push(resp_from_json(&v));
            }
            _ => {}
        }
    }
    let mut abort_msgs = vec![None; hs.len()];
    for k in 0..hs.len() {
        if begun[k] > resps[k].len() {
            resps[k].push(Resp::Trap);
            abort_msgs[k] = Some(aborts.get(&k).cloned().unwrap_or_default());
        }
    }
    let _ = fs::remove_file(&inp);
    BatchResult { hist, resps, abort_msgs, valgrind_errors: vg_errors, valgrind_log: vg_log, leak }
}

/// Splits the histories round-robin over `par` concurrently running children (so that the histories
/// that abort, each costing a process restart, are spread evenly).
fn run_parallel(dir: &Path, tag: &str, files: &[String], sources: &[String], hs: &[Vec<Call>], valgrind: bool, par: usize) -> BatchResult {
    let par = par.max(1).min(hs.len().max(1));
    let mut buckets: Vec<Vec<Vec<Call>>> = vec![vec![]; par];
    for (i, h) in hs.iter().enumerate() { buckets[i % par].push(h.clone()); }
    let mut parts: Vec<BatchResult> = vec![];
    std::thread::scope(|sc| {
        let mut hds = vec![];
        for (j, part) in buckets.iter().enumerate() {
            let tag = format!("{}-{}", tag, j);
            hds.push(sc.spawn(move || run_batch(dir, &tag, files, sources, part, valgrind)));
        }
        for h in hds { parts.push(h.join().unwrap()); }
    });
    let mut all = BatchResult { hist: vec![vec![]; hs.len()], resps: vec![vec![]; hs.len()], abort_msgs: vec![None; hs.len()],
                                valgrind_errors: 0, valgrind_log: String::new(), leak: (0, 0, 0) };
    for (j, p) in parts.into_iter().enumerate() {
        for (k, ((h, r), a)) in p.hist.into_iter().zip(p.resps.into_iter()).zip(p.abort_msgs.into_iter()).enumerate() {
            let i = k * par + j;
            all.hist[i] = h; all.resps[i] = r; all.abort_msgs[i] = a;
        }
        all.valgrind_errors += p.valgrind_errors; all.valgrind_log.push_str(&p.valgrind_log);
        all.leak = (all.leak.0 + p.leak.0, all.leak.1 + p.leak.1, all.leak.2 + p.leak.2);
    }
    all
}

// ------------------------------------------------------------------------------------------
// oracles computed from the library crates (not through the loader)

#[derive(Clone, Debug, PartialEq)]
enum PRes { Trap(String), Err(String), Ok(Vec<String>) }

/// What `Task::register_file` computes from a source: parse_operation_document, then
/// resolve_operation_extensions; the error text is what the ABI wrappers store in RESULT.
fn parse_oracle(src: &str) -> PRes {
    let s = src.to_string();
    let r = catch(move || {
        let doc = match nitrogql_parser::parse_operation_document(&s) {
            Ok(d) => d,
            Err(e) => { let pe: nitrogql_error::PositionedError = e.into(); return Err(format!("{}", pe.into_inner())); }
        };
        match nitrogql_semantics::resolve_operation_extensions(doc) {
            Ok((_d, ext)) => Ok(ext.imports.iter().map(|i| i.path.value.clone()).collect::<Vec<_>>()),
            Err(e) => { let pe: nitrogql_error::PositionedError = e.into(); Err(format!("{}", pe.into_inner())) }
        }
    });
    match r { Err(p) => PRes::Trap(p), Ok(Err(m)) => PRes::Err(m), Ok(Ok(v)) => PRes::Ok(v) }
}

#[derive(Clone, Debug, PartialEq)]
enum ERes { Trap(String), Err(String), Ok(String), Miss }

/// What loader::emit_js looks at before printing, computed WITHOUT the loader: the documents are parsed
/// from the state's sources, `resolve_operation_imports` is called directly with a resolver over exactly
/// those files (PathBuf equality, like the task's HashMap), and from the resolved document the names of its
/// fragment definitions and of its fragment spreads (definitions in order, selection sets depth-first: the
/// order in which emit_js reports the first undefined one) are extracted.
#[derive(Clone, Debug, PartialEq)]
enum RRes { Err(String), Ok(Vec<String>, Vec<String>), Panic(String) }

fn resolve_oracle(files: &[String], sources: &[String], key: &EKey) -> RRes {
    use nitrogql_ast::{OperationDocument, operation::ExecutableDefinition, selection_set::{Selection, SelectionSet}};
    use nitrogql_semantics::{OperationExtension, OperationResolver};
    struct Res<'a, 'src>(&'a [(PathBuf, OperationDocument<'src>, OperationExtension<'src>)]);
    impl<'a, 'src> OperationResolver<'src> for Res<'a, 'src> {
        fn resolve(&self, path: &Path) -> Option<(&OperationDocument<'src>, &OperationExtension<'src>)> {
            self.0.iter().find(|(p, _, _)| p.as_path() == path).map(|(_, d, e)| (d, e))
        }
    }
    fn spreads_of(ss: &SelectionSet, out: &mut Vec<String>) {
        for sel in ss.selections.iter() {
            match sel {
                Selection::Field(f) => if let Some(inner) = f.selection_set.as_ref() { spreads_of(inner, out) },
                Selection::FragmentSpread(sp) => out.push(sp.fragment_name.name.to_string()),
                Selection::InlineFragment(fr) => spreads_of(&fr.selection_set, out),
            }
        }
    }
    let (files, sources, key) = (files.to_vec(), sources.to_vec(), key.clone());
    let r = catch(move || {
        let mut parsed = vec![];
        for (f, s) in key.1.iter() {
            let doc = match nitrogql_parser::parse_operation_document(&sources[*s]) { Ok(d) => d, Err(_) => return RRes::Panic("state holds a source that does not parse".into()) };
            let (doc, ext) = match nitrogql_semantics::resolve_operation_extensions(doc) { Ok(x) => x, Err(_) => return RRes::Panic("state holds a source whose extensions do not resolve".into()) };
            parsed.push((PathBuf::from(&files[*f]), doc, ext));
        }
        let root = PathBuf::from(&files[key.0]);
        let (_, rd, re) = &parsed[0];
        match nitrogql_semantics::resolve_operation_imports((root.as_path(), rd, re), &Res(&parsed)) {
            Err(e) => { let pe: nitrogql_error::PositionedError = e.into(); RRes::Err(format!("{}", pe.into_inner())) }
            Ok(doc) => {
                let mut defs = vec![]; let mut spreads = vec![];
                for d in doc.definitions.iter() {
                    match d {
                        ExecutableDefinition::OperationDefinition(o) => spreads_of(&o.selection_set, &mut spreads),
                        ExecutableDefinition::FragmentDefinition(f) => { defs.push(f.name.name.to_string()); spreads_of(&f.selection_set, &mut spreads) }
                    }
                }
                RRes::Ok(defs, spreads)
            }
        }
    });
    match r { Ok(x) => x, Err(p) => RRes::Panic(p) }
}

// ------------------------------------------------------------------------------------------
// pools

fn file_pool() -> Vec<String> {
    ["/p/a.graphql", "/p/b.graphql", "/p/c.graphql", "/p/sub/d.graphql",
     "/p/./a.graphql", "/p//b.graphql", "/p/sub/../c.graphql", "e.graphql", "", "/q/a.graphql"]
        .iter().map(|s| s.to_string()).collect()
}

fn source_pool() -> Vec<String> {
    [
        /* 0 */ "query A { a }",
        /* 1 */ "#import F from \"./b.graphql\"\nquery A { a ...F }",
        /* 2 */ "fragment F on Q { f }",
        /* 3 */ "#import G from \"./c.graphql\"\nfragment F on Q { f ...G }",
        /* 4 */ "fragment G on Q { g }",
        /* 5 */ "#import * from \"./b.graphql\"\n#import G from \"./c.graphql\"\nquery A { ...F ...G }",
        /* 6 */ "#import F from \"./b.graphql\"\n#import G from \"././c.graphql\"\n#import F from \"../p/b.graphql\"\nquery B { ...F ...G }",
        /* 7 */ "#import * from \"./a.graphql\"\nfragment F on Q { f }",
        /* 8 */ "#import F from \"./sub/d.graphql\"\nquery A { ...F }",
        /* 9 */ "#import G from \"../c.graphql\"\nfragment F on Q { ...G }",
        /* 10 */ "query {",
        /* 11 */ "#import *, F from \"./b.graphql\"\nquery A { a }",
        /* 12 */ "query A { a ...Missing }",
        /* 13 */ "{ a }",
        /* 14 */ "#import Nope from \"./b.graphql\"\nquery A { a }",
        /* 15 */ "",
        /* 16 */ "query A { a(s: \"\u{e9}\u{1F600}\") }",
        /* 17 */ "#import F from \"/p/b.graphql\"\nquery A { ...F }",
        /* 18 */ "fragment F on Q { f2 }\nfragment G on Q { g2 }",
        /* 19 */ "#import * from \"./b.graphql\"\n#import * from \"./b.graphql\"\nquery A { a }",
        /* 20 */ "mutation M($x: Int = 1) { m(x: $x) @d }\nsubscription S { s }",
        /* 21 */ "fragment F on Q { f ...Missing }",
        /* 22 */ "{ a { x } }",
        /* 23 */ "query A { a(s: \"\\uD800\") }",
        /* 24 */ "#import F, F from \"./b.graphql\"\nquery A { ...F }",
        /* 25 */ "query A { a { ... on T { b { ...Deep } } ...F } }\nfragment F on Q { ...Other }",
        /* 26 */ "query A { a(s: \"\\uD83D\\uDE00 \\u{1F600}\") }",
        /* 27 */ "query A { a(s: \"\\u{110000}\") }",
    ].iter().map(|s| s.to_string()).collect()
}

// ------------------------------------------------------------------------------------------
// Coq printing

fn coq_call(c: &Call) -> String {
    match c {
        Call::Initiate(f, s) => format!("Initiate f{} s{}", f, s),
        Call::Required(t) => format!("Required {}", coq_n(*t)),
        Call::Load(t, f, s) => format!("Load {} f{} s{}", coq_n(*t), f, s),
        Call::Emit(t) => format!("Emit {}", coq_n(*t)),
        Call::Free(t) => format!("Free {}", coq_n(*t)),
        Call::ReadResult | Call::ReadIfSet => "ReadResult".to_string(),
    }
}
fn coq_resp(r: &Resp, names: &HashMap<String, String>) -> String {
    match r {
        Resp::Id(t) => format!("RId {}", coq_n(*t)),
        Resp::Bool(b) => format!("RBool {}", coq_bool(*b)),
        Resp::Unit => "RUnit".to_string(),
        Resp::Str(s) => format!("RStr {}", names.get(s).cloned().unwrap_or_else(|| coq_str(s))),
        Resp::Trap => "Trap".to_string(),
    }
}
fn descr_call(c: &Call, files: &[String], sources: &[String]) -> Value {
    match c {
        Call::Initiate(f, s) => json!({"call": "initiate_task", "file": files[*f], "source": sources[*s]}),
        Call::Required(t) => json!({"call": "get_required_files", "task": t}),
        Call::Load(t, f, s) => json!({"call": "load_file", "task": t, "file": files[*f], "source": sources[*s]}),
        Call::Emit(t) => json!({"call": "emit_js", "task": t}),
        Call::Free(t) => json!({"call": "free_task", "task": t}),
        Call::ReadResult | Call::ReadIfSet => json!({"call": "get_result_ptr+get_result_size"}),
    }
}

// ------------------------------------------------------------------------------------------
// reference bookkeeping used only to know which (root, files) states need an emit-oracle entry
// and to classify calls for the statistics.  Keys compare like PathBuf (component-wise).

#[derive(Clone)]
struct TState { root: usize, files: Vec<(usize, usize)> } // (file index of the key as first inserted, source index)

fn upsert(files: &mut Vec<(usize, usize)>, pool: &[String], f: usize, s: usize) {
    for e in files.iter_mut() {
        if PathBuf::from(&pool[e.0]) == PathBuf::from(&pool[f]) { e.1 = s; return; }
    }
    files.push((f, s));
}

type EKey = (usize, Vec<(usize, usize)>);

struct Walk {
    emit_states: Vec<(usize, EKey)>,   // (call index, state) for every Emit on a tracked task
    kinds: Vec<&'static str>,          // per call: "live" | "freed" | "unknown" | "-"
}

fn walk(h: &[Call], resps: &[Resp], pres: &[PRes], files: &[String]) -> Walk {
    let mut tasks: BTreeMap<u64, TState> = BTreeMap::new();
    let mut issued: HashSet<u64> = HashSet::new();
    let mut w = Walk { emit_states: vec![], kinds: vec![] };
    for (i, c) in h.iter().enumerate() {
        if i >= resps.len() { break; }
        let kind_of = |t: &u64, tasks: &BTreeMap<u64, TState>, issued: &HashSet<u64>| {
            if tasks.contains_key(t) { "live" } else if issued.contains(t) { "freed" } else { "unknown" }
        };
        match c {
            Call::Initiate(f, s) => {
                w.kinds.push("-");
                if let (Resp::Id(id), PRes::Ok(_)) = (&resps[i], &pres[*s]) {
                    if *id != 0 { issued.insert(*id); tasks.insert(*id, TState { root: *f, files: vec![(*f, *s)] }); }
                }
            }
            Call::Required(t) => w.kinds.push(kind_of(t, &tasks, &issued)),
            Call::Load(t, f, s) => {
                w.kinds.push(kind_of(t, &tasks, &issued));
                if let (Some(ts), PRes::Ok(_)) = (tasks.get_mut(t), &pres[*s]) { upsert(&mut ts.files, files, *f, *s); }
            }
            Call::Emit(t) => {
                w.kinds.push(kind_of(t, &tasks, &issued));
                if let Some(ts) = tasks.get(t) { w.emit_states.push((i, (ts.root, ts.files.clone()))); }
            }
            Call::Free(t) => { w.kinds.push(kind_of(t, &tasks, &issued)); tasks.remove(t); }
            Call::ReadResult | Call::ReadIfSet => w.kinds.push("-"),
        }
    }
    w
}

/// The history a fresh loader instance is given to produce the reference emit for a state.
fn fresh_history(k: &EKey) -> Vec<Call> {
    let (root, fs_) = k;
    let mut h = vec![];
    // the root entry is the first one (inserted by initiate); its current source may come from a later load
    let root_src = fs_[0].1;
    h.push(Call::Initiate(*root, root_src));
    for (f, s) in fs_.iter().skip(1) { h.push(Call::Load(1, *f, *s)); }
    h.push(Call::Emit(1));
    h.push(Call::ReadResult);
    h
}

// ------------------------------------------------------------------------------------------
// generators

fn gen_random(rng: &mut Rng, nfiles: usize, nsources: usize, maxlen: usize) -> Vec<Call> {
    // typical sources for a file index (so that imports get satisfied reasonably often)
    let typical: [&[usize]; 10] = [&[0, 1, 5, 6, 8, 12, 16, 17, 19, 20, 23, 24, 25, 26, 27], &[2, 3, 7, 18, 21], &[4, 18], &[9, 2], &[1, 5, 0], &[2, 3, 18], &[4], &[0, 1], &[0, 2], &[1, 2]];
    let n = rng.range(1, maxlen);
    let mut h = vec![];
    let mut inits = 0u64;
    let protocol = rng.chance(3, 4);
    let mut stored = false; // has a call that certainly stores a result been made? // mostly read results the way loader-core does
    for _ in 0..n {
        let pick_t = |rng: &mut Rng, inits: u64| -> u64 {
            match rng.below(20) {
                0 => 0,
                1 => inits + 1 + rng.below(3) as u64,
                2 => *rng.pick(&[u64::MAX, 1 << 32, 4096]),
                _ => if inits == 0 { 1 } else { 1 + rng.below(inits as usize) as u64 },
            }
        };
        let pick_fs = |rng: &mut Rng| -> (usize, usize) {
            let f = if rng.chance(4, 5) { rng.below(4) } else { rng.below(nfiles) };
            let s = if rng.chance(4, 5) { *rng.pick(typical[f % 10]) } else { rng.below(nsources) };
            (f, s % nsources)
        };
        let k = rng.below(100);
        let before = h.len();
        if k < 14 || (inits == 0 && k < 50) {
            let (f, s) = if rng.chance(3, 4) { let f = *rng.pick(&[0usize, 0, 0, 4, 7, 9, 1]); (f, *rng.pick(typical[f])) } else { pick_fs(rng) };
            h.push(Call::Initiate(f, s % nsources)); inits += 1;
        } else if k < 36 { h.push(Call::Required(pick_t(rng, inits))); }
        else if k < 66 { let (f, s) = pick_fs(rng); h.push(Call::Load(pick_t(rng, inits), f, s)); }
        else if k < 82 { h.push(Call::Emit(pick_t(rng, inits))); }
        else if k < 92 { h.push(Call::Free(pick_t(rng, inits))); }
        else if stored || rng.chance(1, 25) { h.push(Call::ReadResult); }
        if h.len() > before && !matches!(h[before], Call::Free(_) | Call::ReadResult) {
            // loader-core reads the result after status()/emit() and after any failure (ReadIfSet);
            // a raw ReadResult after a successful initiate/load shows the stale previous result (or
            // aborts if there is none yet), which is legal at ABI level but rarer here.
            if matches!(h[before], Call::Required(_) | Call::Emit(_)) { stored = true; } // these always store a result
            if protocol { if rng.chance(9, 10) { h.push(Call::ReadIfSet); } }
            else if rng.chance(1, 3) && (stored || rng.chance(1, 25)) { h.push(Call::ReadResult); }
        }
    }
    h
}

/// All histories of exactly `len` API-level calls over a small alphabet; a ReadResult follows every
/// call but free (as loader-core does after status/emit and after failures; after a successful
/// initiate/load it shows the stale result).  Histories shorter than `len` are prefixes of these.
fn gen_exhaustive(len: usize, alphabet: &[Call]) -> Vec<Vec<Call>> {
    let mut out: Vec<Vec<Call>> = vec![vec![]];
    for _ in 0..len {
        let mut next = Vec::with_capacity(out.len() * alphabet.len());
        for h in &out { for c in alphabet { let mut g = h.clone(); g.push(c.clone()); next.push(g); } }
        out = next;
    }
    out.into_iter().map(|h| {
        let mut g = vec![];
        for c in h { let rd = !matches!(c, Call::Free(_)); g.push(c); if rd { g.push(Call::ReadIfSet); } }
        g
    }).collect()
}

// ------------------------------------------------------------------------------------------

fn main() {
    let argv: Vec<String> = std::env::args().collect();
    if argv.len() >= 5 && argv[1] == "child" { child_main(&argv[2], &argv[3], argv[4].parse().unwrap()); return; }
    silence_panics();
    let args = parse_args();
    let thorough = args.tier == "thorough";
    let mut n_valgrind = if thorough { 200usize } else { 32 };
    let mut n_random = if thorough { 12000usize } else { 2000 };
    let mut ex_len = if thorough { 5usize } else { 3 };
    let mut i = 0;
    while i < args.extra.len() {
        match args.extra[i].as_str() {
            "--valgrind" => { n_valgrind = args.extra[i + 1].parse().unwrap(); i += 2; }
            "--random" => { n_random = args.extra[i + 1].parse().unwrap(); i += 2; }
            "--exhaustive" => { ex_len = args.extra[i + 1].parse().unwrap(); i += 2; }
            _ => i += 1,
        }
    }
    let mut rng = Rng::new(args.seed);
    let files = file_pool();
    let sources = source_pool();
    let scratch = args.out.join("scratch");
    fs::create_dir_all(&scratch).unwrap();

    // 1. parse oracle for every source of the pool
    let pres: Vec<PRes> = sources.iter().map(|s| parse_oracle(s)).collect();

    // 2. histories
    let mut hs: Vec<Vec<Call>> = vec![];
    let mut origin: Vec<&'static str> = vec![];
    // corpus: witnesses of the known findings and the three scripted runs of loader.rs's tests
    let corpus: Vec<Vec<Call>> = vec![
        // former aborts (fixed by /repo a4a3647, 539df4b, 3dc6a57): now error results, and the task table stays consistent
        vec![Call::Initiate(0, 12), Call::Required(1), Call::ReadResult, Call::Emit(1), Call::ReadResult, Call::Load(1, 1, 21), Call::Emit(1), Call::ReadResult,
             Call::Load(1, 0, 1), Call::Emit(1), Call::ReadResult, Call::Load(1, 1, 2), Call::Emit(1), Call::ReadResult, Call::Free(1), Call::Emit(1), Call::ReadResult],
        vec![Call::Initiate(0, 23), Call::ReadResult, Call::Initiate(0, 27), Call::ReadResult, Call::Initiate(0, 26), Call::Required(1), Call::ReadResult, Call::Emit(1), Call::ReadResult, Call::Required(2), Call::ReadResult],
        vec![Call::Initiate(0, 0), Call::Load(1, 1, 23), Call::ReadResult, Call::Load(1, 0, 23), Call::ReadResult, Call::Required(1), Call::ReadResult, Call::Emit(1), Call::ReadResult],
        vec![Call::Initiate(0, 24), Call::Emit(1), Call::ReadResult, Call::Load(1, 1, 2), Call::Emit(1), Call::ReadResult, Call::Load(1, 1, 4), Call::Emit(1), Call::ReadResult],
        vec![Call::Initiate(0, 25), Call::Emit(1), Call::ReadResult],
        vec![Call::Initiate(0, 13)],
        vec![Call::Initiate(0, 0), Call::Load(1, 1, 13)],
        vec![Call::ReadResult],
        vec![Call::Initiate(0, 0), Call::Required(1), Call::ReadResult, Call::Emit(1), Call::ReadResult, Call::Free(1)],
        vec![Call::Initiate(0, 1), Call::Required(1), Call::ReadResult, Call::Load(1, 1, 2), Call::Required(1), Call::ReadResult, Call::Emit(1), Call::ReadResult],
        vec![Call::Initiate(0, 1), Call::Load(1, 1, 3), Call::Required(1), Call::ReadResult, Call::Load(1, 2, 4), Call::Required(1), Call::ReadResult, Call::Emit(1), Call::ReadResult, Call::Free(1), Call::Emit(1), Call::ReadResult],
        vec![Call::Initiate(0, 1), Call::Initiate(0, 1), Call::Load(2, 1, 2), Call::Emit(1), Call::ReadResult, Call::Emit(2), Call::ReadResult, Call::Free(2), Call::Free(2), Call::Required(2), Call::ReadResult, Call::Required(1), Call::ReadResult],
        vec![Call::Initiate(0, 10), Call::ReadResult, Call::Initiate(0, 0), Call::ReadResult],
        // re-supplying a loaded file: with a source that does not parse (the old document stays), then with a good one
        vec![Call::Initiate(0, 0), Call::Load(1, 0, 10), Call::ReadResult, Call::Required(1), Call::ReadResult, Call::Emit(1), Call::ReadResult],
        vec![Call::Initiate(0, 1), Call::Load(1, 1, 2), Call::Load(1, 1, 11), Call::ReadResult, Call::Required(1), Call::ReadResult, Call::Emit(1), Call::ReadResult,
             Call::Load(1, 5, 18), Call::Emit(1), Call::ReadResult, Call::Load(1, 4, 0), Call::Required(1), Call::ReadResult, Call::Emit(1), Call::ReadResult, Call::Free(1)],
    ];
    for h in corpus { hs.push(h); origin.push("corpus"); }
    // bounded-exhaustive
    let alphabet = vec![
        Call::Initiate(0, 1), Call::Initiate(1, 2), Call::Initiate(0, 10),
        Call::Required(1), Call::Required(2),
        Call::Load(1, 1, 2), Call::Load(2, 1, 3), Call::Load(1, 0, 10),
        Call::Emit(1), Call::Emit(2),
        Call::Free(1), Call::Free(2),
    ];
    let ex = gen_exhaustive(ex_len, &alphabet);
    let n_ex = ex.len();
    for h in ex { hs.push(h); origin.push("exhaustive"); }
    // random
    // shortest first: the failing cases reported first are then the shortest failing ones
    let mut rnd: Vec<Vec<Call>> = (0..n_random).map(|_| {
        let maxlen = if rng.chance(1, 10) { 80 } else { 40 };
        gen_random(&mut rng, files.len(), sources.len(), maxlen)
    }).collect();
    rnd.sort_by_key(|h| h.len());
    for h in rnd { hs.push(h); origin.push("random"); }

    // 3. run them on the implementation
    let par = std::thread::available_parallelism().map(|n| n.get()).unwrap_or(4).min(16);
    let main_run = run_parallel(&scratch, "main", &files, &sources, &hs, false, par);

    // 4. emit oracle: one fresh loader instance per distinct (root, files) state
    let walks: Vec<Walk> = main_run.hist.iter().zip(main_run.resps.iter()).map(|(h, r)| walk(h, r, &pres, &files)).collect();
    let mut ekeys: Vec<EKey> = vec![];
    let mut eindex: HashMap<EKey, usize> = HashMap::new();
    for w in &walks { for (_, k) in &w.emit_states { if !eindex.contains_key(k) { eindex.insert(k.clone(), ekeys.len()); ekeys.push(k.clone()); } } }
    let fresh: Vec<Vec<Call>> = ekeys.iter().map(fresh_history).collect();
    let fresh_run = run_parallel(&scratch, "fresh", &files, &sources, &fresh, false, par);
    let eres: Vec<ERes> = fresh.iter().zip(fresh_run.resps.iter()).zip(fresh_run.abort_msgs.iter()).map(|((h, r), am)| {
        let n = h.len();
        if r.len() == n {
            match (&r[n - 2], &r[n - 1]) {
                (Resp::Bool(true), Resp::Str(s)) => ERes::Ok(s.clone()),
                (Resp::Bool(false), Resp::Str(s)) => ERes::Err(s.clone()),
                _ => ERes::Miss,
            }
        } else if r.len() == n - 1 && r[n - 2] == Resp::Trap && matches!(r[0], Resp::Id(1)) {
            ERes::Trap(am.clone().unwrap_or_default())
        } else { ERes::Miss }
    }).collect();

    // 4b. the staged view of every emit state, from the library crates (not through the loader)
    let rres: Vec<RRes> = ekeys.iter().map(|k| resolve_oracle(&files, &sources, k)).collect();

    // 5. valgrind memcheck on a sample of histories (quick: small, thorough: larger); memcheck errors are
    //    direct property failures ("no call reads or frees memory it does not own").  When a batch reports
    //    errors its histories are re-run one by one to name a concrete failing history.
    let mut direct_failures: Vec<Value> = vec![];
    let mut vg = json!({"histories": 0});
    if n_valgrind > 0 {
        let mut sample: Vec<Vec<Call>> = vec![];
        for (h, o) in hs.iter().zip(origin.iter()) { if *o == "corpus" { sample.push(h.clone()); } }
        let exs: Vec<&Vec<Call>> = hs.iter().zip(origin.iter()).filter(|(_, o)| **o == "exhaustive").map(|(h, _)| h).collect();
        let n_ex_vg = (n_valgrind / 2).min(exs.len());
        for k in 0..n_ex_vg { sample.push(exs[k * exs.len() / n_ex_vg].clone()); }
        let rnd: Vec<&Vec<Call>> = hs.iter().zip(origin.iter()).filter(|(_, o)| **o == "random").map(|(h, _)| h).collect();
        let n_rnd_vg = n_valgrind.min(rnd.len());
        for k in 0..n_rnd_vg { sample.push(rnd[k * rnd.len() / n_rnd_vg].clone()); }
        let r = run_parallel(&scratch, "vg", &files, &sources, &sample, true, par);
        vg = json!({"histories": sample.len(), "calls": sample.iter().map(|h| h.len()).sum::<usize>(),
                    "memcheck_errors": r.valgrind_errors, "tool": "valgrind memcheck, --leak-check=full",
                    "leak_accounting": {"histories_in_runs_that_exited_normally": r.leak.0, "blocks_definitely_lost": r.leak.1,
                                        "alloc_string_calls_(each_leaks_its_String_header)": r.leak.2}});
        if r.leak.1 != r.leak.2 {
            direct_failures.push(json!({"what": format!("valgrind leak check: {} blocks definitely lost after all tasks were dropped, but {} alloc_string calls were made (each leaks one String header; no source buffer may be lost or freed twice)", r.leak.1, r.leak.2),
                "classes": ["memcheck-leak-mismatch"]}));
        }
        if r.valgrind_errors > 0 {
            // attribute: shortest histories first, one valgrind process each, stop at the first hit
            let mut order: Vec<usize> = (0..sample.len()).collect();
            order.sort_by_key(|i| sample[*i].len());
            let mut culprit: Option<(Vec<Call>, String)> = None;
            for chunk in order.chunks(par.max(1)) {
                let singles: Vec<(usize, BatchResult)> = std::thread::scope(|sc| {
                    let hds: Vec<_> = chunk.iter().map(|i| { let i = *i; let (scratch, files, sources, sample) = (&scratch, &files, &sources, &sample);
                        sc.spawn(move || (i, run_batch(scratch, &format!("vg1-{}", i), files, sources, &sample[i..i + 1], true))) }).collect();
                    hds.into_iter().map(|h| h.join().unwrap()).collect()
                });
                for (i, b) in singles { if b.valgrind_errors > 0 && culprit.is_none() { culprit = Some((sample[i].clone(), b.valgrind_log)); } }
                if culprit.is_some() { break; }
            }
            let mut f = json!({"what": "valgrind memcheck reports invalid memory accesses/frees while running loader call histories",
                "classes": ["memcheck-error"], "log": r.valgrind_log.chars().take(3000).collect::<String>()});
            if let Some((h, log)) = culprit {
                f["history"] = Value::Array(h.iter().map(|c| descr_call(c, &files, &sources)).collect());
                f["log"] = json!(log.chars().take(3000).collect::<String>());
            }
            direct_failures.push(f);
        }
    }

    // 6. write the case files
    let mut header = String::from("From V Require Import Base.Util C20.Model C19.Model C19.Corr.\n");
    for (k, f) in files.iter().enumerate() { header.push_str(&format!("Definition f{} : str := {}.\n", k, coq_str(f))); }
    for (k, s) in sources.iter().enumerate() { header.push_str(&format!("Definition s{} : str := {}.\n", k, coq_str(s))); }
    // shared result strings (emitted modules and messages are long; name them once)
    let mut names: HashMap<String, String> = HashMap::new();
    let mut add_name = |s: &String, header: &mut String| {
        if !names.contains_key(s) {
            let n = format!("m{}", names.len());
            header.push_str(&format!("Definition {} : str := {}.\n", n, coq_str(s)));
            names.insert(s.clone(), n);
        }
    };
    for p in &pres { if let PRes::Err(m) = p { add_name(m, &mut header); } }
    for e in &eres { match e { ERes::Ok(s) | ERes::Err(s) => add_name(s, &mut header), _ => {} } }
    add_name(&"Task not found".to_string(), &mut header);
    header.push_str("Definition ptab : list (str * presult) := [\n");
    for (k, p) in pres.iter().enumerate() {
        let t = match p {
            PRes::Trap(_) => "PTrap".to_string(),
            PRes::Err(m) => format!("PErr {}", names[m]),
            PRes::Ok(v) => format!("POk {}", coq_list(v, |x| coq_str(x))),
        };
        header.push_str(&format!("  (s{}, {}){}\n", k, t, if k + 1 < pres.len() { ";" } else { "" }));
    }
    header.push_str("].\n");
    let coq_eres = |e: &ERes| match e {
        ERes::Trap(_) => "ETrap".to_string(),
        ERes::Err(m) => format!("EErr {}", names[m]),
        ERes::Ok(m) => format!("EOk {}", names[m]),
        ERes::Miss => "EErr (s \"<no emit oracle entry>\")".to_string(),
    };
    let coq_rres = |r: &RRes, e: &ERes| match r {
        RRes::Err(m) => format!("RErr {}", names.get(m).cloned().unwrap_or_else(|| coq_str(m))),
        // the module text is the fresh instance's when it emitted one (print_js is not reachable from outside the loader)
        RRes::Ok(d, sp) => format!("ROk {} {} {}", coq_list(d, |x| coq_str(x)), coq_list(sp, |x| coq_str(x)),
            match e { ERes::Ok(js) => names[js].clone(), _ => "(s \"<the fresh instance emitted no module>\")".to_string() }),
        RRes::Panic(m) => format!("RErr {}", coq_str(&format!("<resolve oracle failed: {}>", m))),
    };
    for (k, ((key, e), r)) in ekeys.iter().zip(eres.iter()).zip(rres.iter()).enumerate() {
        header.push_str(&format!("Definition e{} : str * list (str * str) * rresult * eresult := (f{}, {}, {}, {}).\n", k, key.0,
            coq_list(&key.1, |(f, s)| format!("(f{}, s{})", f, s)), coq_rres(r, e), coq_eres(e)));
    }
    let mut cases = Cases::new(&header, "case", "agree", "holds", if thorough { 1500 } else { 400 });
    let mut distinct: HashSet<Vec<Call>> = HashSet::new();
    let mut nontrivial = 0usize;
    let mut dist: BTreeMap<String, u64> = BTreeMap::new();
    let mut bump = |k: String, dist: &mut BTreeMap<String, u64>| { *dist.entry(k).or_insert(0) += 1; };
    let mut abort_classes: BTreeMap<String, u64> = BTreeMap::new();
    for (hi, h) in hs.iter().enumerate() {
        let r = &main_run.resps[hi];
        let w = &walks[hi];
        let n = r.len();
        let hcut = &main_run.hist[hi][..];
        assert_eq!(hcut.len(), n);
        let mut used: Vec<usize> = vec![];
        for (_, k) in &w.emit_states { let e = eindex[k]; if !used.contains(&e) { used.push(e); } }
        let term = format!("mkCase ptab {} {} {}",
            coq_list(&used, |e| format!("e{}", e)),
            coq_list(hcut, coq_call),
            coq_list(&r[..n], |x| coq_resp(x, &names)));
        // classes for known-finding matching: the abort site + message of the process, if it aborted
        let mut classes: Vec<String> = vec![];
        if let Some(Some(m)) = main_run.abort_msgs.get(hi).map(|x| x.as_ref()) {
            let at = match hcut.last() { Some(Call::Initiate(..)) => "initiate_task", Some(Call::Load(..)) => "load_file",
                Some(Call::Emit(_)) => "emit_js", Some(Call::ReadResult) | Some(Call::ReadIfSet) => "get_result", Some(Call::Required(_)) => "get_required_files",
                Some(Call::Free(_)) => "free_task", None => "?" };
            let mut cls = format!("abort:{}:{}", at, m);
            if at == "get_result" && !hcut[..n - 1].iter().zip(r.iter()).any(|(c, x)| sets_result(c, x)) {
                cls = "abort:get_result:no result was ever stored".to_string();
            }
            // the class is attached only if an independent run explains the abort: the parser called
            // directly panicked on that source / a fresh loader instance given the same files aborted too
            let explained = match hcut.last() {
                Some(Call::Initiate(_, s)) | Some(Call::Load(_, _, s)) => matches!(&pres[*s], PRes::Trap(pm) if m.ends_with(pm.as_str())),
                Some(Call::Emit(_)) => w.emit_states.iter().any(|(i, k)| *i == n - 1 && matches!(&eres[eindex[k]], ERes::Trap(em) if em == m)),
                _ => cls == "abort:get_result:no result was ever stored",
            };
            if !explained { cls = format!("unexplained-{}", cls); }
            *abort_classes.entry(cls.clone()).or_insert(0) += 1;
            classes.push(cls);
        }
        let aborted = !classes.is_empty();
        let d = json!({
            "origin": origin[hi],
            "calls": hcut.iter().map(|c| descr_call(c, &files, &sources)).collect::<Vec<_>>(),
            "responses": r[..n].iter().map(resp_json).collect::<Vec<_>>(),
            "classes": classes,
        });
        // statistics
        let live_calls = w.kinds.iter().filter(|k| **k == "live").count();
        let other = w.kinds.iter().filter(|k| **k == "freed" || **k == "unknown").count();
        if distinct.insert(h.clone()) && live_calls >= 1 { nontrivial += 1; }
        for (c, k) in hcut.iter().zip(w.kinds.iter()) {
            let nm = match c { Call::Initiate(..) => "initiate", Call::Required(_) => "required", Call::Load(..) => "load", Call::Emit(_) => "emit", Call::Free(_) => "free", Call::ReadResult | Call::ReadIfSet => "read_result" };
            bump(format!("calls.{}{}", nm, if *k == "-" { "".to_string() } else { format!(".{}", k) }), &mut dist);
        }
        let _ = other;
        for (c, x) in hcut.iter().zip(r.iter()) {
            match (c, x) {
                (Call::Emit(_), Resp::Bool(true)) => bump("emit.ok".into(), &mut dist),
                (Call::Emit(_), Resp::Bool(false)) => bump("emit.error".into(), &mut dist),
                (Call::Initiate(..), Resp::Id(0)) => bump("initiate.error".into(), &mut dist),
                (Call::Load(..), Resp::Bool(false)) => bump("load.error".into(), &mut dist),
                (_, Resp::Trap) => bump("trap".into(), &mut dist),
                _ => {}
            }
        }
        bump(format!("history_len.{}", match h.len() { 0..=5 => "1-5", 6..=10 => "6-10", 11..=20 => "11-20", 21..=40 => "21-40", _ => "41+" }), &mut dist);
        let max_live = { let mut m = 0usize; let mut live: HashSet<u64> = HashSet::new();
            for (c, x) in hcut.iter().zip(r.iter()) { match (c, x) { (Call::Initiate(..), Resp::Id(t)) if *t != 0 => { live.insert(*t); } (Call::Free(t), _) => { live.remove(t); } _ => {} } m = m.max(live.len()); } m };
        bump(format!("max_live_tasks.{}", max_live.min(6)), &mut dist);
        cases.push(term, d);
        if aborted && n >= 2 {
            // the executed prefix before the aborting call, as a case of its own and without any class:
            // a violation that precedes the abort must not hide behind the abort's known-finding class
            let term = format!("mkCase ptab {} {} {}", coq_list(&used, |e| format!("e{}", e)),
                coq_list(&hcut[..n - 1], coq_call), coq_list(&r[..n - 1], |x| coq_resp(x, &names)));
            cases.push(term, json!({"origin": "prefix-before-abort",
                "calls": hcut[..n - 1].iter().map(|c| descr_call(c, &files, &sources)).collect::<Vec<_>>(),
                "responses": r[..n - 1].iter().map(resp_json).collect::<Vec<_>>(), "classes": []}));
        }
    }
    cases.write(&args.out);
    let _ = fs::remove_dir_all(&scratch);
    let pick = |i: usize| cases.descr[i.min(cases.len() - 1)].clone();
    let samples = vec![pick(5), pick(6), pick(9 + n_ex / 2), pick(cases.len() - 1)];
    let mut meta = json!({
        "evaluations": cases.len(),
        "distinct_nontrivial": nontrivial,
        "rule": "one evaluation = one call history run on the real loader (fresh instance) and on the model; distinct = distinct call sequences; non-trivial = at least one call addresses a live task (so the task table, a file map and an oracle are exercised)",
        "samples": samples,
        "distribution": {
            "histories": {"corpus": origin.iter().filter(|o| **o == "corpus").count(), "exhaustive": n_ex, "random": n_random,
                          "exhaustive_api_calls": ex_len, "exhaustive_alphabet": alphabet.len()},
            "counts": dist,
            "distinct_emit_states_run_on_a_fresh_instance": ekeys.len(),
            "emit_oracle": {"ok": eres.iter().filter(|e| matches!(e, ERes::Ok(_))).count(), "error": eres.iter().filter(|e| matches!(e, ERes::Err(_))).count(),
                            "abort": eres.iter().filter(|e| matches!(e, ERes::Trap(_))).count(), "missing": eres.iter().filter(|e| matches!(e, ERes::Miss)).count()},
            "resolve_oracle_(library_crates)": {
                "resolution_error": rres.iter().filter(|r| matches!(r, RRes::Err(_))).count(),
                "resolved_with_an_undefined_spread": rres.iter().filter(|r| matches!(r, RRes::Ok(d, sp) if sp.iter().any(|n| !d.contains(n)))).count(),
                "resolved_all_spreads_defined": rres.iter().filter(|r| matches!(r, RRes::Ok(d, sp) if sp.iter().all(|n| d.contains(n)))).count(),
                "failed": rres.iter().filter(|r| matches!(r, RRes::Panic(_))).count()},
            "parse_oracle": {"ok": pres.iter().filter(|p| matches!(p, PRes::Ok(_))).count(), "error": pres.iter().filter(|p| matches!(p, PRes::Err(_))).count(),
                             "panic": pres.iter().filter(|p| matches!(p, PRes::Trap(_))).count()},
            "abort_classes": abort_classes,
            "valgrind": vg,
        },
    });
    if !direct_failures.is_empty() { meta["direct_failures"] = Value::Array(direct_failures); }
    write_meta(&args.out, &meta);
}

/// does call `c` with response `x` store something in RESULT?
fn sets_result(c: &Call, x: &Resp) -> bool {
    match (c, x) {
        (Call::Initiate(..), Resp::Id(0)) => true,
        (Call::Required(_), Resp::Bool(_)) => true,
        (Call::Load(..), Resp::Bool(false)) => true,
        (Call::Emit(_), Resp::Bool(_)) => true,
        _ => false,
    }
}
