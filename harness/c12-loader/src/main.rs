//! c12loader < request.json
//!
//! request: {"root": path, "files": {path: source, …}}.  Performs what loader-core's task.ts does for one module
//! with the default configuration: initiate_task(root, files[root]); repeat { get_required_files; load_file for
//! each listed path } until none is required; emit_js; read the result.  Prints one JSON line
//! {"ok": true, "js": text} or {"ok": false, "stage": …, "error": text}.  A panic inside one of the loader's
//! `extern "C"` functions cannot unwind and aborts this process: the caller then sees no line at all.
use serde_json::{json, Value};
use std::io::Read as _;

fn result_string() -> String {
    let ptr = loader_lib::get_result_ptr();
    let size = loader_lib::get_result_size();
    String::from_utf8_lossy(unsafe { std::slice::from_raw_parts(ptr, size) }).into_owned()
}

fn run(req: &Value) -> Result<String, (String, String)> {
    let root = req["root"].as_str().ok_or(("request".to_string(), "no root".to_string()))?;
    let files = req["files"].as_object().ok_or(("request".to_string(), "no files".to_string()))?;
    let src = files.get(root).and_then(|x| x.as_str()).ok_or(("request".to_string(), "root source missing".to_string()))?;
    let id = loader_lib::initiate_task(root.as_ptr(), root.len(), src.as_ptr(), src.len());
    if id == 0 { return Err(("initiate_task".into(), result_string())); }
    for _round in 0..64 {
        if !loader_lib::get_required_files(id) { return Err(("get_required_files".into(), result_string())); }
        let req_files = result_string();
        let list: Vec<&str> = req_files.split('\n').filter(|s| !s.is_empty()).collect();
        if list.is_empty() { break; }
        for f in list {
            let s = files.get(f).and_then(|x| x.as_str()).ok_or(("request".to_string(), format!("required file not supplied: {f}")))?;
            if !loader_lib::load_file(id, f.as_ptr(), f.len(), s.as_ptr(), s.len()) { return Err(("load_file".into(), result_string())); }
        }
    }
    let ok = loader_lib::emit_js(id);
    let r = result_string();
    loader_lib::free_task(id);
    if ok { Ok(r) } else { Err(("emit_js".into(), r)) }
}

fn main() {
    let mut input = String::new();
    std::io::stdin().read_to_string(&mut input).unwrap();
    let req: Value = serde_json::from_str(&input).unwrap();
    loader_lib::init(0);
    let th = std::thread::Builder::new().stack_size(64 << 20).spawn(move || match run(&req) {
        Ok(js) => json!({"ok": true, "js": js}),
        Err((stage, e)) => json!({"ok": false, "stage": stage, "error": e}),
    }).unwrap();
    if let Ok(v) = th.join() { println!("{}", v); }
}
